"""C10 — domain transforms act as an exact change of variables.

Theorems: coq/Props/Properties_C10.v about the model coq/Model/Transforms.v (forward / inverse map, Jacobian, support
scale, domain predicate, quadrature scale per rule family; exact rationals, any dimension; sqrt/pow/exp are
universally quantified with their algebraic laws as hypotheses).
Ties: (1) white-box (harness/transdrv): mapCanonicalToTransformed, mapTransformedToCanonical, diffCanonicalTransform,
getQuadratureScale, getDomainInside, the support correction, evaluated by the extracted model (ocaml/transforms_main.ml)
on the implementation's exact doubles, tolerance 1e-13 (predicate: exact); (2) the same through the public API on real
grids of all five families (harness/tsgdrv).  The statement of the property is evaluated directly on every grid:
points, evaluate, differentiate, interpolation / differentiation weights, hierarchical basis, supports, quadrature
weights, basis integrals, integrate, getDomainInside, clearDomainTransform, transforms set on loaded grids.
The conformal asin map has NO model: forward/inverse round trip, weights vs numerical derivative, composition with the
linear map and integration of low-degree polynomials are checked at run time only."""
import json
import math
import os
from fractions import Fraction

import gridlib as gl
import vlib

LEVEL = "proof"
PID = "C10"
H = vlib.hexf

TRUSTED = [
    "Coq 8.16.1 kernel (vm_compute in the non-vacuity Examples and one refutation witness; no native_compute)",
    "axioms: none (Print Assumptions: Closed under the global context for all 17 theorems)",
    "hypotheses of the theorems, checked at run time against libm (never axioms): sqrt b * sqrt b = b and sqrt b > 0 for b > 0; "
    "pow respects equality, pow x p > 0, pow x 1 = x, pow x (p+q) = pow x p * pow x q, pow (x y) p = pow x p * pow y p, "
    "pow (sqrt b) p = pow b (p/2) for positive bases; exp respects equality",
    "extraction: ExtrOcamlBasic only; Z/positive/Q stay Coq datatypes; sqrt and pow are parameters of the extracted functions, "
    "instantiated by ocaml/transforms_main.ml with libm's sqrt/pow lifted to exact rationals",
    "OCaml glue ocaml/transforms_main.ml + common.ml; Python glue props/C10.py (generation, exact-fraction reference values, tolerances); "
    "C++ drivers harness/tsgdrv.cpp (public API) and harness/transdrv.cpp (white-box calls of the private map routines via "
    "'#define private public', read-only); g++ -O1 -ffp-contract=off",
    "modelled, not verified: mapCanonicalToTransformed, mapTransformedToCanonical<double>, diffCanonicalTransform<double>, getQuadratureScale, "
    "the correction of getHierarchicalSupport, getDomainInside (NaN coordinates are not modelled); NOT modelled at all (run-time checks only): "
    "setConformalTransformASIN / mapConformalCanonicalToTransformed / mapConformalTransformedToCanonical (Newton) / mapConformalWeights, "
    "the float instantiation of the maps, the GPU path formCanonicalPointsGPU, the C / Python / Fortran interfaces",
]

# stable known-finding keys (site + input class)
K_ORDER = "formCanonicalPoints.conformal-and-linear.inverse-order"
K_DIFFCONF = "differentiate.conformal-only.jacobian-missing"
K_SUP = "getHierarchicalSupport.scale-not-jacobian."     # + fourier | laguerre | hermite

ALL_GLOBAL = [k for k in (gl.GLOBAL_NESTED + gl.GLOBAL_NONNESTED + [
    "gauss-chebyshev1-odd", "gauss-chebyshev2-odd", "gauss-gegenbauer-odd", "gauss-jacobi-odd", "gauss-laguerre-odd",
    "rleja-shifted-even", "rleja-shifted-double", "max-lebesgue-odd", "min-lebesgue-odd", "min-delta-odd"])]
WEIGHTED = ["gauss-chebyshev1", "gauss-chebyshev2", "gauss-gegenbauer", "gauss-jacobi", "gauss-laguerre", "gauss-hermite",
            "gauss-chebyshev1-odd", "gauss-chebyshev2-odd", "gauss-gegenbauer-odd", "gauss-jacobi-odd", "gauss-laguerre-odd",
            "gauss-hermite-odd"]


def classify(rule):
    """rule name -> (map family, quadrature-scale class)"""
    if rule == "fourier":
        return "fourier", "fourier"
    if rule.startswith("gauss-laguerre"):
        return "laguerre", "laguerre"
    if rule.startswith("gauss-hermite"):
        return "hermite", "hermite"
    if rule.startswith("gauss-chebyshev1"):
        return "linear", "cheb1"
    if rule.startswith("gauss-chebyshev2"):
        return "linear", "cheb2"
    if rule.startswith("gauss-gegenbauer"):
        return "linear", "gegenbauer"
    if rule.startswith("gauss-jacobi"):
        return "linear", "jacobi"
    return "linear", "plain"


# ------------------------------------------------------------------------------------------------------------------
# reference arithmetic (binary64, the documented formulas) and exact values
def fwd1(fam, a, b, x):
    if fam == "laguerre":
        return x / b + a
    if fam == "hermite":
        return x / math.sqrt(b) + a
    if fam == "fourier":
        return x * (b - a) + a
    return x * (0.5 * (b - a)) + 0.5 * (b + a)


def inv1(fam, a, b, y):
    if fam == "laguerre":
        return (y - a) * b
    if fam == "hermite":
        return (y - a) * math.sqrt(b)
    if fam == "fourier":
        return (y - a) / (b - a)
    return y * (2.0 / (b - a)) - (b + a) / (b - a)


def jac1(fam, a, b):
    if fam == "laguerre":
        return b
    if fam == "hermite":
        return math.sqrt(b)
    if fam == "fourier":
        return 1.0 / (b - a)
    return 2.0 / (b - a)


def fwd_exact(fam, a, b, x):
    """(exact value as Fraction [sqrt = libm's], magnitude of the terms)"""
    A, B, X = Fraction(a), Fraction(b), Fraction(x)
    if fam == "laguerre":
        t = X / B
        return t + A, abs(float(t)) + abs(a)
    if fam == "hermite":
        t = X / Fraction(math.sqrt(b))
        return t + A, abs(float(t)) + abs(a)
    if fam == "fourier":
        return X * (B - A) + A, abs(x) * (abs(a) + abs(b)) + abs(a)
    return X * (B - A) / 2 + (B + A) / 2, (abs(x) + 1.0) * (abs(a) + abs(b)) / 2


def inv_exact(fam, a, b, y):
    A, B, Y = Fraction(a), Fraction(b), Fraction(y)
    if fam == "laguerre":
        return (Y - A) * B, (abs(y) + abs(a)) * abs(b)
    if fam == "hermite":
        return (Y - A) * Fraction(math.sqrt(b)), (abs(y) + abs(a)) * math.sqrt(b)
    if fam == "fourier":
        return (Y - A) / (B - A), (abs(y) + abs(a)) / abs(b - a)
    return (2 * Y - B - A) / (B - A), (2 * abs(y) + abs(a) + abs(b)) / abs(b - a)


def eff_ab(q, alpha, beta):
    if q == "cheb1":
        return -0.5, -0.5
    if q == "cheb2":
        return 0.5, 0.5
    if q == "gegenbauer":
        return alpha, alpha
    return alpha, beta


def qterm(q, alpha, beta, a, b):
    if q in ("cheb1", "cheb2", "gegenbauer", "jacobi"):
        ea, eb = eff_ab(q, alpha, beta)
        return math.pow(0.5 * (b - a), ea + eb + 1.0)
    if q == "laguerre":
        return math.pow(b, -(1.0 + alpha))
    if q == "hermite":
        return math.pow(b, -0.5 * (1.0 + alpha))
    if q == "fourier":
        return b - a
    return (b - a) / 2.0


def qscale(q, alpha, beta, A, B):
    s = 1.0
    for a, b in zip(A, B):
        s *= qterm(q, alpha, beta, a, b)
    return s


def total_weight(q, alpha, beta, a, b):
    """integral of the documented weight function over the (transformed) 1-d domain, and its mean"""
    if q == "plain":
        return b - a, 0.5 * (a + b)
    if q == "fourier":
        return b - a, 0.5 * (a + b)
    if q in ("cheb1", "cheb2", "gegenbauer", "jacobi"):
        ea, eb = eff_ab(q, alpha, beta)
        w = (b - a) ** (ea + eb + 1.0) * math.gamma(ea + 1) * math.gamma(eb + 1) / math.gamma(ea + eb + 2)
        return w, a + (b - a) * (eb + 1.0) / (ea + eb + 2.0)
    if q == "laguerre":
        return math.gamma(alpha + 1) / b ** (alpha + 1), a + (alpha + 1.0) / b
    return math.gamma(0.5 * (alpha + 1)) / b ** (0.5 * (alpha + 1)), a


CANON = {"linear": (-1.0, 1.0), "fourier": (0.0, 1.0), "laguerre": (0.0, 1.0), "hermite": (0.0, 1.0)}   # (a,b) giving the identity map


def conf_consts(p):
    """constants of the truncated asin series as in mapConformalCanonicalToTransformed"""
    c, fact = [], 0.0
    for k in range(p + 1):
        c.append(math.lgamma(0.5 + k) - math.lgamma(0.5) - math.log(2 * k + 1.0) - fact)
        fact += math.log(k + 1.0)
    return c, sum(math.exp(v) for v in c)


def conf_fwd(p, x):
    if x == 0.0:
        return 0.0
    c, cm = conf_consts(p)
    lx = math.log(abs(x))
    s = sum(math.exp(c[k] + (2 * k + 1) * lx) for k in range(p + 1))
    return math.copysign(s / cm, x)


def conf_der(p, x):
    c, cm = conf_consts(p)
    if x == 0.0:
        return 1.0 / cm
    lx = math.log(abs(x))
    return sum(math.exp(c[k] + math.log(2 * k + 1.0) + 2 * k * lx) for k in range(p + 1)) / cm


# ------------------------------------------------------------------------------------------------------------------
# generators
def gen_ab(r, fam, d, style=None):
    A, B = [], []
    for _ in range(d):
        st = style or r.choice(["dyadic", "dyadic", "generic", "generic", "generic", "narrow", "wide", "offset"])
        if fam in ("laguerre", "hermite"):
            a = r.choice([0.0, 1.0, -2.0, 0.5]) if st == "dyadic" else (r.uniform(-5, 5) if st != "offset" else r.uniform(20, 60))
            b = r.choice([0.25, 0.5, 1.0, 2.0, 4.0]) if st == "dyadic" else 10.0 ** r.uniform(-1, 1)
            if st == "narrow":
                b = 10.0 ** r.uniform(1, 2)
            if st == "wide":
                b = 10.0 ** r.uniform(-2, -1)
        else:
            if st == "dyadic":
                a = r.choice([-1.0, 0.0, -3.0, 2.0, 0.5, -0.25])
                b = a + r.choice([1.0, 2.0, 0.5, 4.0, 3.0, 0.25])
            elif st == "narrow":
                a = r.uniform(-5, 5)
                b = a + 10.0 ** r.uniform(-3, -1)
            elif st == "wide":
                a = r.uniform(-500, 100)
                b = a + 10.0 ** r.uniform(2, 3)
            elif st == "offset":
                a = r.uniform(50, 200) * r.choice([1, -1])
                b = a + r.uniform(0.5, 5)
            else:
                a = r.uniform(-5, 5)
                b = a + 10.0 ** r.uniform(-1, 1)
        A.append(a)
        B.append(b)
    return A, B


def gen_spec(r, kind, rule=None, tier="quick"):
    d = r.choice([1, 1, 2, 2, 3])
    o = r.choice([1, 1, 2])
    spec = {"family": kind, "dims": d, "outs": o, "ll": []}
    if kind == "global":
        spec["rule"] = rule or r.choice(ALL_GLOBAL)
        spec["type"] = r.choice(["level", "level", "iptotal", "qptotal", "tensor", "hyperbolic", "curved", "ipcurved"])
        heavy = spec["rule"] in ("gauss-patterson", "rleja-double2", "rleja-double4", "clenshaw-curtis", "clenshaw-curtis-zero", "fejer2")
        spec["depth"] = r.randint(1, 4) if d == 1 else (r.randint(1, 3) if d == 2 else r.randint(1, 2))
        if spec["type"] in ("iptotal", "qptotal", "ipcurved"):
            spec["depth"] = r.randint(1, 6) if d <= 2 else r.randint(1, 4)
        if "tensor" in spec["type"]:
            spec["depth"] = r.randint(1, 2)
        if heavy and d == 3:
            spec["depth"] = min(spec["depth"], 2)
        spec["aw"] = gl.rand_aw(r, d, spec["type"]) if r.random() < 0.25 else []
        fam, q = classify(spec["rule"])
        if q in ("gegenbauer", "laguerre", "hermite"):
            spec["ab"] = [r.choice([0.0, 0.5, 1.0, 2.0, 1.5, -0.25]) if q != "hermite" else r.choice([0.0, 2.0, 1.0, 0.5]), 0.0]
        if q == "jacobi":
            spec["ab"] = [r.choice([0.0, 0.5, 1.0, -0.25]), r.choice([0.0, 0.5, 2.0, 1.5])]
    elif kind == "sequence":
        spec["rule"] = rule or r.choice(gl.SEQUENCE_RULES)
        spec["type"] = r.choice(["level", "iptotal", "qptotal", "tensor", "hyperbolic", "curved"])
        spec["depth"] = r.randint(1, 5) if d <= 2 else r.randint(1, 3)
        if "tensor" in spec["type"]:
            spec["depth"] = r.randint(1, 3)
        spec["aw"] = gl.rand_aw(r, d, spec["type"]) if r.random() < 0.25 else []
    elif kind == "localp":
        spec["rule"] = rule or r.choice(gl.LOCAL_RULES)
        spec["order"] = r.choice([1, 1, 2, 2, 3, -1, 4, 0]) if spec["rule"] != "semi-localp" else r.choice([2, 2, 3, -1, 4])
        if spec["order"] == 0:
            spec["rule"] = "localp"
        spec["depth"] = r.randint(1, 5) if d == 1 else (r.randint(1, 4) if d == 2 else r.randint(1, 3))
    elif kind == "wavelet":
        spec["rule"] = "wavelet"
        spec["order"] = r.choice([1, 1, 3])
        spec["depth"] = r.randint(0, 3) if d == 1 else (r.randint(0, 2) if d == 2 else r.randint(0, 1))
    else:
        spec["rule"] = "fourier"
        spec["type"] = r.choice(["level", "iptotal", "qptotal", "tensor", "hyperbolic"])
        spec["depth"] = r.randint(1, 3) if d <= 2 else r.randint(1, 2)
        if spec["type"] in ("iptotal", "qptotal"):
            spec["depth"] = r.randint(1, 5) if d <= 2 else r.randint(1, 3)
        if "tensor" in spec["type"]:
            spec["depth"] = r.randint(1, 2)
        spec["aw"] = gl.rand_aw(r, d, spec["type"]) if (r.random() < 0.25 and d <= 2) else []
    return spec


def canon_point(r, fam, generic):
    lo, hi = {"linear": (-1.0, 1.0), "fourier": (0.0, 1.0), "laguerre": (0.0, 4.0), "hermite": (-2.0, 2.0)}[fam]
    if not generic and r.random() < 0.3:
        t = r.choice([0.25, 0.5, 0.75, 0.125, 0.375, 0.625])
    else:
        t = r.uniform(0.013, 0.987)
    return lo + (hi - lo) * t


def kv(name, vals):
    return " %s %s" % (name, " ".join(H(v) for v in vals))


def build_case(r, cid, spec, A, B, tier):
    """script of one linear-transform case; returns (lines, info)"""
    d = spec["dims"]
    fam, q = classify(spec["rule"])
    discont = spec["family"] == "localp" and spec.get("order") == 0
    npts = 3 if tier == "quick" else 5
    # transformed evaluation points and their pull-backs (binary64, the documented formula)
    Y, X = [], []
    for i in range(npts):
        for j in range(d):
            x0 = canon_point(r, fam, generic=(discont or i == 0))
            y = fwd1(fam, A[j], B[j], x0)
            Y.append(y)
            X.append(inv1(fam, A[j], B[j], y))
    fn1 = r.choice(["hash", "poly", "smooth", "affine"])
    fn2 = r.choice(["hash", "poly", "smooth"])
    tr = "a: %s b: %s" % (" ".join(H(v) for v in A), " ".join(H(v) for v in B))
    L = ["case " + cid, gl.make_cmd(spec, "c"), gl.make_cmd(spec, "t"), "trans t " + tr,
         "dump c meta allpoints needed qw hsupport hint", "dump t meta allpoints needed qw hsupport hint",
         "load c " + fn1, "copy u c", "trans u " + tr, "dump c points values", "dump u meta points values qw hsupport hint",
         "load t " + fn2, "copy v t", "cleartrans v", "dump t points values", "dump v meta points values"]
    for s, P in (("c", X), ("u", Y), ("v", X), ("t", Y)):
        L.append("eval %s x:%s" % (s, kv("", P)[1:]))
    for s, P in (("c", X), ("u", Y)):
        L.append("evalb %s x:%s" % (s, kv("", P)[1:]))
        L.append("evalf %s x:%s" % (s, kv("", P)[1:]))
        L.append("hbasis %s x:%s" % (s, kv("", P)[1:]))
        L.append("hsparsenz %s x:%s" % (s, kv("", P)[1:]))
        L.append("diff %s x:%s" % (s, kv("", P[:d])[1:]))
        L.append("iw %s x:%s" % (s, kv("", P[:d])[1:]))
        L.append("dw %s x:%s" % (s, kv("", P[:d])[1:]))
    for i in range(1, npts):
        L.append("iw c x:%s" % kv("", X[i * d:(i + 1) * d])[1:])
    for s in ("c", "u", "t", "v"):
        L.append("integ " + s)
    # domain predicate: interior lattice, boundary, beyond each bound
    ins_t, ins_c = [], []
    lo, hi = {"linear": (-1.0, 1.0), "fourier": (0.0, 1.0), "laguerre": (0.0, 6.0), "hermite": (-3.0, 3.0)}[fam]
    nl = 16 if tier == "quick" else 32
    lat = [lo + (hi - lo) * k / float(nl) for k in range(nl + 1)]
    base = [canon_point(r, fam, True) for _ in range(d)]
    for j in range(d):
        for t in lat:
            p = list(base)
            p[j] = t
            ins_c.append(p)
            ins_t.append([fwd1(fam, A[k], B[k], p[k]) for k in range(d)])
        width = (B[j] - A[j]) if fam in ("linear", "fourier") else 1.0 / jac1(fam, A[j], B[j])
        for m in (1e-9 * max(1.0, abs(A[j]), abs(B[j]) if fam in ("linear", "fourier") else 0.0), 0.1 * width, 10.0 * width + 1.0, 1e6 * (1 + width)):
            for side in (-1, 1):
                p = [fwd1(fam, A[k], B[k], base[k]) for k in range(d)]
                if fam in ("linear", "fourier"):
                    p[j] = (A[j] - m) if side < 0 else (B[j] + m)
                else:
                    p[j] = (A[j] - m) if side < 0 else (A[j] + m)
                ins_t.append(p)
    L.append("inside t x:%s" % kv("", [v for p in ins_t for v in p])[1:])
    L.append("inside c x:%s" % kv("", [v for p in ins_c for v in p])[1:])
    # a refinement / update on both grids: the proposed (needed) points must map the same way
    ref = None
    if spec["outs"] > 0:
        ref = gl.refine_cmds(r, spec, "c")
        if spec["family"] == "global" and spec["rule"] in gl.GLOBAL_NONNESTED + WEIGHTED:
            ref = None
    if ref:
        L += [ref, ref.replace(" c ", " u ", 1), "dump c needed", "dump u needed", "clearref c", "clearref u"]
    # dynamic construction: the candidate points are reported in transformed coordinates
    if spec["family"] in ("localp", "wavelet"):
        cand = "surp %s %s -1" % (H(r.choice([0.0, 1e-3, 1e-1])), r.choice(gl.REFINE))
    else:
        cand = "aw %s" % r.choice(["level", "iptotal", "qptotal", "hyperbolic"])
    L += ["begin c", "begin u", "cand c " + cand, "cand u " + cand, "finish c", "finish u"]
    L += ["cleartrans u", "dump u meta points values qw hsupport hint", "dump c qw hsupport hint",
          "eval u x:%s" % kv("", X)[1:], "diff u x:%s" % kv("", X[:d])[1:], "integ u",
          "eval c x:%s" % kv("", X)[1:], "diff c x:%s" % kv("", X[:d])[1:], "integ c",
          "inside u x:%s" % kv("", [v for p in ins_c for v in p])[1:]]
    info = {"spec": spec, "A": A, "B": B, "fam": fam, "q": q, "X": X, "Y": Y, "ins_t": ins_t, "ins_c": ins_c, "fn1": fn1, "fn2": fn2,
            "discont": discont, "ref": ref, "kind": "linear"}
    return L, info


def build_conf_case(r, cid, spec, trunc, A, B, tier, order):
    """conformal (and optionally conformal + linear) case on a [-1,1] grid"""
    d = spec["dims"]
    npts = 3
    X, Y = [], []
    for i in range(npts):
        for j in range(d):
            x0 = r.uniform(-0.97, 0.97)
            y = conf_fwd(trunc[j], x0)
            if A:
                y = fwd1("linear", A[j], B[j], y)
            X.append(x0)
            Y.append(y)
    fn1 = r.choice(["poly", "smooth", "affine", "hash"])
    L = ["case " + cid, gl.make_cmd(spec, "c"), gl.make_cmd(spec, "t")]
    setc = "conformal t " + " ".join(str(v) for v in trunc)
    sett = "trans t a: %s b: %s" % (" ".join(H(v) for v in A), " ".join(H(v) for v in B)) if A else None
    L += [s for s in ([setc, sett] if order == 0 else [sett, setc]) if s]
    L += ["dump c meta allpoints qw", "dump t meta allpoints qw", "load c " + fn1, "copy u c"]
    L += [s.replace(" t ", " u ", 1) for s in ([setc, sett] if order == 0 else [sett, setc]) if s]
    L += ["dump c points values", "dump u meta points values"]
    L += ["eval c x:%s" % kv("", X)[1:], "eval u x:%s" % kv("", Y)[1:], "evalb u x:%s" % kv("", Y)[1:],
          "iw c x:%s" % kv("", X[:d])[1:], "iw u x:%s" % kv("", Y[:d])[1:]] + ["iw c x:%s" % kv("", X[i * d:(i + 1) * d])[1:] for i in range(1, npts)] + [

          "hbasis c x:%s" % kv("", X)[1:], "hbasis u x:%s" % kv("", Y)[1:],
          "diff c x:%s" % kv("", X[:d])[1:], "diff u x:%s" % kv("", Y[:d])[1:], "integ c", "integ u",
          "clearconformal u"] + (["cleartrans u"] if A else []) + ["dump u meta points values qw", "eval u x:%s" % kv("", X)[1:]]
    info = {"spec": spec, "A": A, "B": B, "trunc": trunc, "X": X, "Y": Y, "fn1": fn1, "kind": "conformal", "fam": "linear", "q": "plain"}
    return L, info


# ------------------------------------------------------------------------------------------------------------------
class Ctx:
    def __init__(self, res):
        self.res = res
        self.tie = []           # lines for the model runner
        self.tie_meta = []      # per line: (case id, kind, alt-group)
        self.stats = {}
        self.nviol = 0
        self.per_key = {}

    def count(self, k, n=1):
        self.stats[k] = self.stats.get(k, 0) + n

    def add_tie(self, line, cid, kind, group=None):
        self.tie.append(line)
        self.tie_meta.append((cid, kind, group))

    def viol(self, key, what, cid, script, info=None, driver="tsgdrv"):
        self.nviol += 1
        self.per_key[key] = self.per_key.get(key, 0) + 1
        if self.per_key[key] > 3:        # at most three replay files per key; every failure is still counted
            return
        script = [l for l in script if l]
        self.res.violation(key, "%s [case %s: %s]" % (what, cid, " ; ".join(script[1:4])[:220]),
                           {"kind": "impl-counterexample", "script": script, "detail": what, "info": info, "driver": driver, "case": cid})


def relerr(got, exp, scale):
    return abs(got - exp) / scale if scale > 0 else (0.0 if got == exp else float("inf"))


def hexl(v):
    return [float(x).hex() for x in v]


def obs_of(steps, prefix, tag, nth=0):
    """n-th observation <tag> among the steps whose command starts with <prefix>"""
    k = 0
    prefix = prefix.rstrip() + " "
    for s in steps:
        if (s.cmd + " ").startswith(prefix) and tag in s.obs:
            if k == nth:
                return s.obs[tag]
            k += 1
    return None


def exc_of(steps, prefix, nth=0):
    k = 0
    prefix = prefix.rstrip() + " "
    for s in steps:
        if (s.cmd + " ").startswith(prefix):
            if k == nth:
                return s.exc
            k += 1
    return None


def check_linear(ctx, cid, info, steps, script):
    spec, A, B, fam, q = info["spec"], info["A"], info["B"], info["fam"], info["q"]
    d, outs = spec["dims"], spec["outs"]
    alpha, beta = (spec.get("ab") or [0.0, 0.0])
    V = lambda key, what, detail=None: ctx.viol(key, what, cid, script, info)
    mk = [s for s in steps if s.cmd.startswith("make")]
    if len(mk) < 2 or any(s.exc for s in mk):
        ctx.count("skipped_make_rejected")
        return False
    bad = [s for s in steps if s.exc is not None]
    # any exception must be shared by the canonical twin (same command on the canonical grid)
    for s in bad:
        t = s.cmd.split()
        if s.exc[0] in ("hang",) or s.exc[0].startswith("crash"):
            if s.exc[0] == "hang":
                # a call too slow for the per-case budget (on the canonical twin or on the transformed grid): nothing is observed, counted
                ctx.count("skipped_canonical_grid_too_slow" if (len(t) > 1 and t[1] == "c") else "skipped_slow_call")
                return False
            V("transform.no-return-or-crash", "%s -> %s" % (s.cmd[:80], s.exc))
            return False
    def twin_exc(cmdname, slot_c, slot_t, nth=0):
        return exc_of(steps, "%s %s " % (cmdname, slot_c), nth), exc_of(steps, "%s %s " % (cmdname, slot_t), nth)
    if exc_of(steps, "trans t") or exc_of(steps, "trans u"):
        V("setDomainTransform.rejected", "setDomainTransform raised %s" % (exc_of(steps, "trans t") or exc_of(steps, "trans u"),))
        return False

    pc = obs_of(steps, "dump c meta", "allpoints")
    pt = obs_of(steps, "dump t meta", "allpoints")
    if pc is None or pt is None or len(pc) != len(pt) or len(pc) == 0:
        V("points.count", "getPoints of the transformed grid has %s entries, canonical %s" % (pt and len(pt), pc and len(pc)))
        return False
    n = len(pc) // d
    ctx.count("grids")
    ctx.count("points_compared", n)
    # ---- points = fwd(canonical points) (getPoints, getNeededPoints before loading, getLoadedPoints after)
    def cmp_points(tag, can, tra):
        if can is None or tra is None or len(can) != len(tra):
            V("points.count", "%s: %s vs %s entries" % (tag, can and len(can), tra and len(tra)))
            return
        worst = 0.0
        for i, (x, y) in enumerate(zip(can, tra)):
            j = i % d
            ex, sc = fwd_exact(fam, A[j], B[j], x)
            e = abs(Fraction(y) - ex)
            if e > Fraction(1e-15) * Fraction(sc):
                V("points.not-mapped." + fam, "%s: canonical %r maps to %r, documented map gives %r (a=%r b=%r)" % (tag, x, y, float(ex), A[j], B[j]))
                return
            worst = max(worst, float(e) / sc if sc else 0.0)
        ctx.stats["points_worst_rel"] = max(ctx.stats.get("points_worst_rel", 0.0), worst)
    cmp_points("getPoints", pc, pt)
    cmp_points("getNeededPoints", obs_of(steps, "dump c meta", "needed"), obs_of(steps, "dump t meta", "needed"))
    lc, lu = obs_of(steps, "dump c points", "points"), obs_of(steps, "dump u meta", "points")
    cmp_points("getLoadedPoints(transform set after loading)", lc, lu)
    # sample points for the model tie
    for i in range(0, len(pc), max(1, len(pc) // 6)):
        j = i % d
        _, sc = fwd_exact(fam, A[j], B[j], pc[i])
        ctx.add_tie("fwd %s %s %s %s %s %s" % (fam, H(A[j]), H(B[j]), H(pc[i]), H(pt[i]), H(max(sc, 1e-300))), cid, "fwd")
    # ---- values stay attached when the transform is set on a loaded grid
    vc, vu = obs_of(steps, "dump c points", "values"), obs_of(steps, "dump u meta", "values")
    if outs > 0 and (vc is None or vu is None or hexl(vc) != hexl(vu)):
        V("setDomainTransform.loaded-values-changed", "setDomainTransform on a loaded grid changed the loaded values")
    # natural order: v = copy of t without the transform
    cmp_points("getLoadedPoints(values loaded after the transform)", obs_of(steps, "dump v meta", "points"), obs_of(steps, "dump t points", "points"))
    vt, vv = obs_of(steps, "dump t points", "values"), obs_of(steps, "dump v meta", "values")
    if outs > 0 and (vt is None or vv is None or hexl(vt) != hexl(vv)):
        V("clearDomainTransform.values-changed", "clearDomainTransform changed the loaded values")
    # ---- quadrature weights, basis integrals, supports (before and after loading)
    qs = qscale(q, alpha, beta, A, B)
    ctx.add_tie("qs %s %s %s %d %s %s %s" % (q, H(alpha), H(beta), d, " ".join(H(A[j]) + " " + H(B[j]) for j in range(d)), H(qs), H(abs(qs))), cid, "qs-ref")
    for tag, what in (("qw", "getQuadratureWeights"), ("hint", "integrateHierarchicalFunctions")):
        for (pc_, pt_) in (("dump c meta", "dump t meta"), ("dump c meta", "dump u meta")):
            wc, wt = obs_of(steps, pc_, tag), obs_of(steps, pt_, tag)
            if wc is None or wt is None or len(wc) != len(wt):
                if exc_of(steps, pc_) is None and exc_of(steps, pt_) is None:
                    V(tag + ".count", "%s: %s vs %s entries" % (what, wc and len(wc), wt and len(wt)))
                continue
            for i, (c0, t0) in enumerate(zip(wc, wt)):
                if abs(t0 - c0 * qs) > 1e-13 * abs(c0 * qs):
                    V("%s.scale.%s" % (tag, q), "%s[%d] = %r, canonical %r x documented scale %r = %r (rule %s)" % (what, i, t0, c0, qs, c0 * qs, spec["rule"]))
                    break
            ctx.count(tag + "_compared", len(wc))
            # implied scale for the model tie (first weight that is not tiny)
            big = max((abs(c0) for c0 in wc), default=0.0)
            for c0, t0 in zip(wc, wt):
                if abs(c0) >= 0.5 * big and big > 0:
                    ctx.add_tie("qs %s %s %s %d %s %s %s" % (q, H(alpha), H(beta), d, " ".join(H(A[j]) + " " + H(B[j]) for j in range(d)),
                                                          H(t0 / c0), H(4.0 * abs(t0 / c0))), cid, "qs")
                    break
    # sum of the weights = integral of the documented weight function over the transformed domain (independent of the scale formula)
    wc, wt = obs_of(steps, "dump c meta", "qw"), obs_of(steps, "dump t meta", "qw")
    if wc and wt and len(wc) == n:
        ca, cb = CANON[fam]
        Wc = Wt = 1.0
        for j in range(d):
            Wc *= total_weight(q, alpha, beta, ca, cb)[0]
            Wt *= total_weight(q, alpha, beta, A[j], B[j])[0]
        if abs(math.fsum(wc) - Wc) <= 1e-10 * max(abs(Wc), math.fsum(abs(v) for v in wc)):
            ctx.count("weight_sum_checked")
            if abs(math.fsum(wt) - Wt) > 1e-9 * max(abs(Wt), math.fsum(abs(v) for v in wt)):
                V("qw.total-weight." + q, "sum of the quadrature weights %r, integral of the documented weight over the transformed domain %r (rule %s alpha %r beta %r)"
                  % (math.fsum(wt), Wt, spec["rule"], alpha, beta))
            for j in range(d):
                mc = total_weight(q, alpha, beta, ca, cb)[1]
                mt = total_weight(q, alpha, beta, A[j], B[j])[1]
                m1c = math.fsum(wc[i] * pc[i * d + j] for i in range(n))
                if abs(m1c - Wc * mc) <= 1e-10 * max(1.0, abs(Wc)) * max(1.0, abs(mc)):
                    ctx.count("first_moment_checked")
                    m1t = math.fsum(wt[i] * pt[i * d + j] for i in range(n))
                    if abs(m1t - Wt * mt) > 1e-9 * max(abs(Wt) * max(1.0, abs(mt), abs(A[j])), math.fsum(abs(wt[i] * pt[i * d + j]) for i in range(n))):
                        V("qw.first-moment." + q, "first moment in dimension %d: %r, exact %r (rule %s)" % (j, m1t, Wt * mt, spec["rule"]))
        else:
            ctx.count("weight_sum_skipped_canonical_not_exact")
    # supports
    for (pc_, pt_) in (("dump c meta", "dump t meta"), ("dump c meta", "dump u meta")):
        sc_, st_ = obs_of(steps, pc_, "hsupport"), obs_of(steps, pt_, "hsupport")
        if sc_ is None or st_ is None or len(sc_) != len(st_):
            V("hsupport.count", "getHierarchicalSupport: %s vs %s entries" % (sc_ and len(sc_), st_ and len(st_)))
            continue
        reported = False
        for i, (c0, t0) in enumerate(zip(sc_, st_)):
            j = i % d
            want = c0 / jac1(fam, A[j], B[j])
            if abs(t0 - want) > 1e-14 * abs(want) and not reported:
                reported = True
                key = ("hsupport.scale." + fam) if fam == "linear" else (K_SUP + fam)
                V(key, "getHierarchicalSupport entry %d (dimension %d) = %r, canonical support %r x Jacobian of the map %r = %r (rule %s, a=%r b=%r)"
                  % (i, j, t0, c0, 1.0 / jac1(fam, A[j], B[j]), want, spec["rule"], A[j], B[j]))
        ctx.count("hsupport_compared", len(sc_))
        for j in range(d):
            if sc_[j] != 0.0:
                ratio = st_[j] / sc_[j]
                g = "sup:%s:%d:%s" % (cid, j, pt_)
                ctx.add_tie("supc %s %s %s %s" % (H(A[j]), H(B[j]), H(ratio), H(abs(ratio) + abs(A[j]) + abs(B[j]))), cid, "supc", g)
                ctx.add_tie("sup %s %s %s %s %s" % (fam, H(A[j]), H(B[j]), H(ratio), H(abs(ratio) + 1.0 / jac1(fam, A[j], B[j]))), cid, "sup", g)
    # ---- evaluate / evaluateBatch / evaluateFast / hierarchical basis / interpolation weights at pulled-back points
    vscale = max([1.0] + [abs(v) for v in (vc or [])] + [abs(v) for v in (vt or [])])
    def cmp_arrays(key, what, can, tra, tol, scale_each=None):
        if can is None or tra is None:
            return
        if len(can) != len(tra):
            V(key + ".count", "%s: %d vs %d entries" % (what, len(can), len(tra)))
            return
        for i, (c0, t0) in enumerate(zip(can, tra)):
            sc = scale_each(i, c0) if scale_each else 1.0
            if not abs(t0 - c0 * sc) <= tol * max(1.0, abs(c0 * sc)):
                V(key, "%s: entry %d is %r on the transformed grid, %r expected from the canonical grid (rule %s, a=%s b=%s)" % (what, i, t0, c0 * sc, spec["rule"], A, B))
                return
        ctx.count(key.split(".")[0] + "_compared", len(can))
    def pair(cmd, sc_, st_, tag, nth=0):
        ec, et = exc_of(steps, "%s %s " % (cmd, sc_), nth), exc_of(steps, "%s %s " % (cmd, st_), nth)
        if ec or et:
            if (ec is None) != (et is None) or (ec and et and ec[0] != et[0]):
                V(cmd + ".exception-differs", "%s: canonical grid -> %s, transformed grid -> %s" % (cmd, ec, et))
            else:
                ctx.count("skipped_both_raise_" + cmd)
            return None, None
        return obs_of(steps, "%s %s " % (cmd, sc_), tag, nth), obs_of(steps, "%s %s " % (cmd, st_), tag, nth)
    # conditioning guard: Lebesgue function of the canonical interpolant at the evaluation points
    lam = max([1.0] + [math.fsum(abs(v) for v in s_.obs["iw"]) for s_ in steps if s_.cmd.startswith("iw c ") and "iw" in s_.obs])
    ctx.stats["max_lebesgue_seen"] = max(ctx.stats.get("max_lebesgue_seen", 0.0), lam)
    illcond = lam > 1e4
    if illcond:
        ctx.count("skipped_ill_conditioned_evaluate")
    tolv = 1e-12 * vscale * lam
    for i in range(min(len(info["X"]), 2 * d)):
        j = i % d
        _, sc = inv_exact(fam, A[j], B[j], info["Y"][i])
        ctx.add_tie("inv %s %s %s %s %s %s" % (fam, H(A[j]), H(B[j]), H(info["Y"][i]), H(info["X"][i]), H(max(sc, 1e-300))), cid, "inv-ref")
    if outs > 0 and not illcond:
        cmp_arrays("evaluate.pullback." + fam, "evaluate (transform set after loading)", *pair("eval", "c", "u", "eval"), tol=tolv)
        cmp_arrays("evaluate.pullback." + fam, "evaluate (values loaded after the transform)", *pair("eval", "v", "t", "eval"), tol=tolv)
        cmp_arrays("evaluateBatch.pullback." + fam, "evaluateBatch", *pair("evalb", "c", "u", "evalb"), tol=tolv)
        cmp_arrays("evaluateFast.pullback." + fam, "evaluateFast", *pair("evalf", "c", "u", "evalf"), tol=tolv)
        jl = [jac1(fam, A[j], B[j]) for j in range(d)]
        dc, du = pair("diff", "c", "u", "diff")
        if dc is not None and du is not None and len(dc) == len(du):
            dscale = max([1.0] + [abs(v) for v in dc])
            for i, (c0, u0) in enumerate(zip(dc, du)):
                want = c0 * jl[i % d]
                if not abs(u0 - want) <= 1e-10 * max(dscale * abs(jl[i % d]), abs(want)):
                    V("differentiate.jacobian." + fam, "differentiate: entry %d is %r on the transformed grid, canonical derivative %r x Jacobian %r = %r (rule %s, a=%s b=%s)"
                      % (i, u0, c0, jl[i % d], want, spec["rule"], A, B))
                    break
            ctx.count("differentiate_compared", len(dc))
            for j in range(d):
                ctx.add_tie("jac %s %s %s %s %s" % (fam, H(A[j]), H(B[j]), H(jl[j]), H(abs(jl[j]))), cid, "jac-ref")
    cmp_arrays("getInterpolationWeights.pullback." + fam, "getInterpolationWeights", *pair("iw", "c", "u", "iw"), tol=1e-12 * lam)
    hb = pair("hbasis", "c", "u", "hbasis")
    cmp_arrays("evaluateHierarchicalFunctions.pullback." + fam, "evaluateHierarchicalFunctions", hb[0], hb[1], tol=1e-12)
    # the sparse form on ONE grid at the same points: the count announced by GetNZ, the vector overload and Static must describe the same non-zeros
    # (the buffers of Static are sized by GetNZ in the C / Python / Fortran interfaces)
    for sl in ("c", "u"):
        hz = obs_of(steps, "hsparsenz %s " % sl, "hsnz")
        if hz is not None and len(hz) == 4:
            ctx.count("sparse_counts_compared")
            if not (hz[0] == hz[1] == hz[2] and hz[3] == 1):
                V("evaluateSparseHierarchicalFunctions.count." + ("canonical" if sl == "c" else "transformed"),
                  "evaluateSparseHierarchicalFunctionsGetNZ announces %d non-zeros, the vector overload returns %d, Static fills %d (same entries: %s) at the same %d points "
                  "(rule %s, a=%s b=%s)" % (hz[0], hz[1], hz[2], bool(hz[3]), len(info.get("X", [])) // max(d, 1), spec.get("rule", ""), A, B))
    wc_, wu_ = pair("dw", "c", "u", "dw")
    if wc_ is not None and wu_ is not None and len(wc_) == len(wu_) and not illcond:
        jl = [jac1(fam, A[j], B[j]) for j in range(d)]
        ws = max([1.0] + [abs(v) for v in wc_])
        for i, (c0, u0) in enumerate(zip(wc_, wu_)):
            want = c0 * jl[i % d]
            if not abs(u0 - want) <= 1e-10 * max(ws * abs(jl[i % d]), abs(want)):
                V("getDifferentiationWeights.jacobian." + fam, "getDifferentiationWeights: entry %d is %r, canonical %r x Jacobian %r (rule %s)" % (i, u0, c0, jl[i % d], spec["rule"]))
                break
        ctx.count("dw_compared", len(wc_))
    # ---- integrate
    if outs > 0:
        ic, iu = pair("integ", "c", "u", "integ")
        if ic is not None and iu is not None:
            wq = obs_of(steps, "dump c meta", "qw") or []
            mag = math.fsum(abs(w) for w in wq) * vscale
            for k, (c0, u0) in enumerate(zip(ic, iu)):
                if abs(u0 - c0 * qs) > 1e-12 * max(abs(c0 * qs), mag * abs(qs)):
                    V("integrate.scale." + q, "integrate output %d = %r, canonical %r x scale %r (rule %s)" % (k, u0, c0, qs, spec["rule"]))
                    break
            ctx.count("integrate_compared", len(ic))
            # consistency with the weights of the transformed grid
            wu = obs_of(steps, "dump u meta", "qw")
            if wu and vu and len(wu) * outs == len(vu) and lc is not None and len(lc) == len(wu) * d and pc == lc:
                for k in range(outs):
                    sc = math.fsum(wq[i] * vc[i * outs + k] for i in range(len(wq)))
                    mg = math.fsum(abs(wq[i] * vc[i * outs + k]) for i in range(len(wq))) + 1.0
                    if abs(sc - ic[k]) <= 1e-9 * mg:
                        su = math.fsum(wu[i] * vu[i * outs + k] for i in range(len(wu)))
                        if abs(su - iu[k]) > 1e-8 * mg * abs(qs):
                            V("integrate.inconsistent-with-weights", "integrate output %d = %r but sum of weights x values = %r" % (k, iu[k], su))
                        ctx.count("integrate_vs_weights_checked")
                    else:
                        ctx.count("integrate_vs_weights_skipped_canonical")
        it, iv = pair("integ", "v", "t", "integ")
        if it is not None and iv is not None:
            for k, (c0, u0) in enumerate(zip(it, iv)):
                if abs(u0 - c0 * qs) > 1e-12 * max(abs(c0 * qs), abs(qs) * vscale * math.fsum(abs(w) for w in (obs_of(steps, "dump c meta", "qw") or [1.0]))):
                    V("integrate.scale." + q, "integrate (natural order) output %d = %r, canonical %r x scale %r" % (k, u0, c0, qs))
                    break
    # ---- getDomainInside
    it_ = obs_of(steps, "inside t", "inside")
    ic_ = obs_of(steps, "inside c", "inside")
    tr_flat = " ".join(H(A[j]) + " " + H(B[j]) for j in range(d))
    if it_ is None or len(it_) != len(info["ins_t"]) or ic_ is None or len(ic_) != len(info["ins_c"]):
        V("inside.count", "getDomainInside answered %s / %s queries" % (it_ and len(it_), ic_ and len(ic_)))
    else:
        for p, got in zip(info["ins_c"], ic_):
            ctx.add_tie("ins %s 0 %d %s %s %d" % (fam, d, " ".join(H(0.0) + " " + H(0.0) for _ in range(d)), " ".join(H(v) for v in p), got), cid, "ins")
        for p, got in zip(info["ins_t"], it_):
            ctx.add_tie("ins %s 1 %d %s %s %d" % (fam, d, tr_flat, " ".join(H(v) for v in p), got), cid, "ins")
            # expected from the documented domain, skipping points within rounding of a bound (exact hits are not skipped)
            exp, border = 1, False
            for j in range(d):
                lo_ok = True if fam == "hermite" else (p[j] >= A[j])
                hi_ok = True if fam in ("hermite", "laguerre") else (p[j] <= B[j])
                for bound, isb in ((A[j], fam != "hermite"), (B[j], fam in ("linear", "fourier"))):
                    if isb and p[j] != bound and abs(p[j] - bound) <= 1e-12 * max(abs(bound), abs(B[j] - A[j]) if fam in ("linear", "fourier") else 1.0, 1e-300):
                        border = True
                if not (lo_ok and hi_ok):
                    exp = 0
            if border:
                ctx.count("inside_skipped_boundary_rounding")
                continue
            ctx.count("inside_checked")
            if got != exp:
                V("inside.%s.%s" % ("rejects-domain-point" if exp else "accepts-outside-point", fam),
                  "getDomainInside(%s) = %d, the point is %s the transformed domain a=%s b=%s (rule %s)" % (p, got, "inside" if exp else "outside", A, B, spec["rule"]))
                break
        # the grid's own points
    # ---- refinement proposals are mapped the same way
    if info["ref"]:
        e1, e2 = exc_of(steps, info["ref"]), exc_of(steps, info["ref"].replace(" c ", " u ", 1))
        if (e1 is None) != (e2 is None):
            V("refine.exception-differs", "%s: canonical %s, transformed %s" % (info["ref"], e1, e2))
        elif e1 is None:
            cmp_points("getNeededPoints after refinement", obs_of(steps, "dump c needed", "needed"), obs_of(steps, "dump u needed", "needed"))
            ctx.count("refinements_compared")
    # ---- candidates of the dynamic construction
    e1, e2 = exc_of(steps, "cand c"), exc_of(steps, "cand u")
    b1, b2 = exc_of(steps, "begin c"), exc_of(steps, "begin u")
    if (e1 is None) != (e2 is None) or (b1 is None) != (b2 is None):
        V("construction.exception-differs", "beginConstruction / getCandidateConstructionPoints: canonical %s %s, transformed %s %s" % (b1, e1, b2, e2))
    elif e1 is None and b1 is None:
        cmp_points("getCandidateConstructionPoints", obs_of(steps, "cand c", "cand"), obs_of(steps, "cand u", "cand"))
        ctx.count("construction_candidates_compared")
    # ---- clearDomainTransform restores the canonical behaviour bit-exactly
    mu = [s for s in steps if s.cmd.startswith("dump u meta")]
    if len(mu) >= 2:
        after = mu[-1]
        first_c = [s for s in steps if s.cmd.startswith("dump c meta")][0]
        last_c = [s for s in steps if s.cmd.startswith("dump c qw")]
        ref_obs = dict(first_c.obs)
        if last_c:
            ref_obs.update(last_c[-1].obs)
        if after.obs.get("meta", {}).get("trans") != "0":
            V("clearDomainTransform.still-set", "isSetDomainTransfrom() is true after clearDomainTransform()")
        for tag in ("qw", "hsupport", "hint"):
            if tag in after.obs and tag in ref_obs and hexl(after.obs[tag]) != hexl(ref_obs[tag]):
                V("clearDomainTransform.not-canonical." + tag, "%s after clearDomainTransform differs from the canonical grid" % tag)
        if lc is not None and hexl(after.obs.get("points", [])) != hexl(lc):
            V("clearDomainTransform.not-canonical.points", "points after clearDomainTransform differ from the canonical grid")
        if outs > 0:
            ev = [s for s in steps if s.cmd.startswith("eval u ")]
            ec = [s for s in steps if s.cmd.startswith("eval c ")]
            if ev and ec and ev[-1].exc is None and ec[-1].exc is None and hexl(ev[-1].obs.get("eval", [])) != hexl(ec[-1].obs.get("eval", [])):
                V("clearDomainTransform.not-canonical.evaluate", "evaluate after clearDomainTransform differs from the canonical grid")
            dv = [s for s in steps if s.cmd.startswith("diff u ")]
            dcs = [s for s in steps if s.cmd.startswith("diff c ")]
            if dv and dcs and dv[-1].exc is None and dcs[-1].exc is None and hexl(dv[-1].obs.get("diff", [])) != hexl(dcs[-1].obs.get("diff", [])):
                V("clearDomainTransform.not-canonical.differentiate", "differentiate after clearDomainTransform differs from the canonical grid")
            iu2 = [s for s in steps if s.cmd.startswith("integ u")]
            icc = [s for s in steps if s.cmd.startswith("integ c")]
            if iu2 and icc and iu2[-1].exc is None and icc[-1].exc is None and hexl(iu2[-1].obs.get("integ", [])) != hexl(icc[-1].obs.get("integ", [])):
                V("clearDomainTransform.not-canonical.integrate", "integrate after clearDomainTransform differs from the canonical grid")
        iu_ = obs_of(steps, "inside u", "inside")
        if iu_ is not None and ic_ is not None and iu_ != ic_:
            V("clearDomainTransform.not-canonical.inside", "getDomainInside after clearDomainTransform differs from the canonical grid")
        ctx.count("clear_transform_checked")
    return True


def check_conformal(ctx, cid, info, steps, script):
    spec, A, B, trunc = info["spec"], info["A"], info["B"], info["trunc"]
    d, outs = spec["dims"], spec["outs"]
    both = bool(A)
    V = lambda key, what, detail=None: ctx.viol(key, what, cid, script, info)
    mk = [s for s in steps if s.cmd.startswith("make")]
    if len(mk) < 2 or any(s.exc for s in mk):
        ctx.count("skipped_make_rejected")
        return False
    for s in steps:
        if s.exc is not None and (s.exc[0] == "hang" or s.exc[0].startswith("crash")):
            if s.exc[0] == "hang":
                ctx.count("skipped_canonical_grid_too_slow" if (len(s.cmd.split()) > 1 and s.cmd.split()[1] == "c") else "skipped_slow_call")
                return False
            V(K_ORDER if both else "conformal.no-return-or-crash", "%s -> %s" % (s.cmd[:80], s.exc))
            return False
    pc, pt = obs_of(steps, "dump c meta", "allpoints"), obs_of(steps, "dump t meta", "allpoints")
    if pc is None or pt is None or len(pc) != len(pt):
        V("conformal.points.count", "getPoints: %s vs %s" % (pc and len(pc), pt and len(pt)))
        return False
    ctx.count("conformal_grids")
    n = len(pc) // d
    def fmap(j, x):
        y = conf_fwd(trunc[j], x)
        return fwd1("linear", A[j], B[j], y) if both else y
    for i, (x, y) in enumerate(zip(pc, pt)):
        j = i % d
        e = fmap(j, x)
        sc = (abs(A[j]) + abs(B[j])) if both else 1.0
        if abs(y - e) > 1e-13 * max(sc, abs(e)):
            V("conformal.points-not-mapped", "canonical point %r maps to %r, expected %r (truncation %d%s)" % (x, y, e, trunc[j], ", then linear" if both else ""))
            break
    qc, qt = obs_of(steps, "dump c meta", "qw"), obs_of(steps, "dump t meta", "qw")
    qs = qscale("plain", 0.0, 0.0, A, B) if both else 1.0
    if qc is not None and qt is not None and len(qc) == len(qt) == n:
        for i in range(n):
            der = 1.0
            for j in range(d):
                der *= conf_der(trunc[j], pc[i * d + j])
            want = qc[i] * der * qs
            if abs(qt[i] - want) > 1e-12 * abs(want):
                V("conformal.weights", "quadrature weight %d = %r, canonical %r x derivative of the map %r x scale %r" % (i, qt[i], qc[i], der, qs))
                break
        ctx.count("conformal_weights_compared", n)
    if outs > 0:
        vc = obs_of(steps, "dump c points", "values")
        vu = obs_of(steps, "dump u meta", "values")
        if vc is None or vu is None or hexl(vc) != hexl(vu):
            V("conformal.loaded-values-changed", "setting the transforms on a loaded grid changed the values")
        # integrate() of the transformed grid = its own quadrature weights (conformal derivative x linear scale) times the loaded values
        iu = obs_of(steps, "integ u", "integ")
        if iu is not None and qt is not None and vu is not None and len(vu) == n * outs and len(iu) == outs:
            for k in range(outs):
                want = math.fsum(qt[i] * vu[i * outs + k] for i in range(n))
                cond = math.fsum(abs(qt[i] * vu[i * outs + k]) for i in range(n))
                if abs(iu[k] - want) > 1e-11 * max(1.0, cond):
                    V("conformal%s.integrate-vs-weights" % ("-and-linear" if both else ""),
                      "integrate output %d = %r but the quadrature weights of the same transformed grid times the values give %r" % (k, iu[k], want))
                    break
            ctx.count("conformal_integrate_compared", outs)
        vscale = max([1.0] + [abs(v) for v in (vc or [])])
        lam = max([1.0] + [math.fsum(abs(v) for v in s_.obs["iw"]) for s_ in steps if s_.cmd.startswith("iw c ") and "iw" in s_.obs])
        if lam > 100.0:
            # the Newton inverse is only accurate to 1e-12: the comparison is meaningless for an ill-conditioned interpolant
            ctx.count("conformal_skipped_ill_conditioned")
            return True
        key = K_ORDER if both else "conformal.evaluate.pullback"
        for cmd, tag in (("eval", "eval"), ("iw", "iw"), ("hbasis", "hbasis")):
            ec, eu = exc_of(steps, cmd + " c "), exc_of(steps, cmd + " u ")
            if ec or eu:
                if (ec is None) != (eu is None):
                    V(key if both else "conformal.exception-differs", "%s: canonical %s, transformed %s" % (cmd, ec, eu))
                continue
            c0, u0 = obs_of(steps, cmd + " c ", tag), obs_of(steps, cmd + " u ", tag)
            if c0 is None or u0 is None or len(c0) != len(u0):
                continue
            tol = 1e-9 * lam * (vscale if cmd == "eval" else 1.0)
            for i, (a0, b0) in enumerate(zip(c0, u0)):
                if not abs(a0 - b0) <= tol * max(1.0, abs(a0)):
                    V(key, "%s at the image of a canonical point: %r on the grid with %s, %r on the canonical grid at the pre-image (truncation %s%s)"
                      % ({"eval": "evaluate", "iw": "getInterpolationWeights", "hbasis": "evaluateHierarchicalFunctions"}[cmd], b0,
                         "conformal + linear transform" if both else "conformal transform", a0, trunc, ", a=%s b=%s" % (A, B) if both else ""))
                    break
            ctx.count("conformal_" + cmd + "_compared", len(c0))
        # differentiate: the chain rule or a refusal
        ec, eu = exc_of(steps, "diff c "), exc_of(steps, "diff u ")
        if ec is None:
            if eu is not None:
                if eu[0] == "runtime_error":
                    ctx.count("conformal_differentiate_refused")
                else:
                    V("conformal.differentiate.exception", "differentiate raised %s" % (eu,))
            else:
                dc, du = obs_of(steps, "diff c ", "diff"), obs_of(steps, "diff u ", "diff")
                X = info["X"]
                dscale = max([1.0] + [abs(v) for v in dc])
                for i, (c0, u0) in enumerate(zip(dc, du)):
                    j = i % d
                    der = conf_der(trunc[j], X[j]) * ((B[j] - A[j]) / 2.0 if both else 1.0)
                    want = c0 / der
                    if abs(u0 - want) > 1e-8 * max(dscale / der, abs(want)):
                        V(K_DIFFCONF if not both else "conformal-and-linear.differentiate", "differentiate with a conformal map returns %r for output/dimension %d; the derivative of the composed surrogate is %r (canonical derivative %r / derivative of the map %r) and the call did not refuse"
                          % (u0, i, want, c0, der))
                        break
                ctx.count("conformal_differentiate_compared")
        # cleared transforms: canonical again, bit-exact
        last = [s for s in steps if s.cmd.startswith("dump u meta")][-1]
        if last.obs.get("meta", {}).get("conf") != "0":
            V("clearConformalTransform.still-set", "conformal transform still set after clearConformalTransform")
        if "qw" in last.obs and qc is not None and hexl(last.obs["qw"]) != hexl(qc):
            V("clearConformalTransform.not-canonical.qw", "weights after clearing the transforms differ from the canonical grid")
        ev = [s for s in steps if s.cmd.startswith("eval u ")]
        ecs = [s for s in steps if s.cmd.startswith("eval c ")]
        if ev and ecs and ev[-1].exc is None and ecs[0].exc is None and hexl(ev[-1].obs.get("eval", [])) != hexl(ecs[0].obs.get("eval", [])):
            V("clearConformalTransform.not-canonical.evaluate", "evaluate after clearing the transforms differs from the canonical grid")
    return True


def conformal_quadrature_cases(r, tier):
    """1-d / 2-d Gauss-Legendre tensor grids fine enough to integrate y^m exactly through the conformal map"""
    out = []
    for p in range(0, 9):
        for m in (0, 1, 2):
            deg = 2 * p + m * (2 * p + 1)
            level = (deg + 1) // 2 + 1
            out.append((1, [p], m, level))
    for _ in range(4 if tier == "quick" else 20):
        p = [r.randint(1, 8), r.randint(0, 8)]
        m = r.choice([0, 1, 2])
        deg = max(2 * q + m * (2 * q + 1) for q in p)
        out.append((2, p, m, (deg + 1) // 2 + 1))
    return out


# ------------------------------------------------------------------------------------------------------------------
def run(res, tier, seed, replay_obj=None):
    props = vlib.coq_props(PID)
    vlib.proof_coverage(res, PID, props, "cd coq && make Props/Properties_C10.vo && coqc -Q . TV Props/Properties_C10.v", TRUSTED)
    ok_ext, elog = vlib.coq_make(["Extract/ExtractTransforms.vo"])
    proof_broken = (not props["ok"]) or bool(res.coverage["forbidden_tokens"])
    runner = vlib.ocaml_runner("transforms") if ok_ext else None
    gdrv = vlib.build_driver("tsgdrv")
    tdrv = vlib.build_driver("transdrv")
    wd = os.path.join(vlib.BUILD, "work", PID)
    os.makedirs(wd, exist_ok=True)
    r = vlib.rng(seed, PID)
    ctx = Ctx(res)
    mult = 3 if proof_broken else 1
    replay_script = replay_obj.get("script") if replay_obj else None
    replay_unit = bool(replay_obj) and replay_obj.get("driver") == "transdrv"

    # ================================================================ tie 1: white-box unit calls
    ucases, uinfo = [], {}
    unit_rules = ["clenshaw-curtis", "gauss-legendre", "leja", "localp", "semi-localp", "localp-zero", "localp-boundary", "wavelet", "fourier",
                  "gauss-chebyshev1", "gauss-chebyshev2", "gauss-gegenbauer", "gauss-jacobi", "gauss-laguerre", "gauss-hermite",
                  "gauss-chebyshev1-odd", "gauss-chebyshev2-odd", "gauss-gegenbauer-odd", "gauss-jacobi-odd", "gauss-laguerre-odd", "gauss-hermite-odd",
                  "chebyshev", "gauss-patterson", "rleja", "fejer2", "min-delta"]
    nunit = {"quick": 6, "thorough": 40}[tier] * mult
    if replay_script:
        nunit = 0
    for rule in unit_rules:
        fam, q = classify(rule)
        for k in range(nunit):
            d = r.choice([1, 2, 3])
            A, B = gen_ab(r, fam, d)
            alpha = r.choice([0.0, 0.5, 1.0, 2.0, 1.5, -0.25, r.uniform(-0.5, 3)]) if q in ("gegenbauer", "jacobi", "laguerre", "hermite") else 0.0
            beta = r.choice([0.0, 0.5, 2.0, r.uniform(-0.5, 3)]) if q == "jacobi" else 0.0
            if q == "hermite":
                alpha = r.choice([0.0, 2.0, 1.0, 0.5, 4.0])
            xs = []
            for i in range(6):
                for j in range(d):
                    c = r.random()
                    if c < 0.4:
                        xs.append(canon_point(r, fam, False))
                    elif c < 0.55:
                        xs.append(r.choice([-1.0, 1.0, 0.0]))
                    elif c < 0.8:       # a point of the transformed domain (for inv / inside)
                        xs.append(fwd1(fam, A[j], B[j], canon_point(r, fam, False)))
                    elif c < 0.9:       # exactly a bound
                        xs.append(r.choice([A[j], B[j]]))
                    else:
                        xs.append(r.uniform(-10, 10) + A[j])
            cid = "u.%s.%d" % (rule, k)
            ucases += ["case " + cid, "unit %s %d %s %s a: %s b: %s x: %s" % (rule, d, H(alpha), H(beta), " ".join(H(v) for v in A), " ".join(H(v) for v in B),
                                                                            " ".join(H(v) for v in xs))]
            uinfo[cid] = (rule, fam, q, d, alpha, beta, A, B, xs)
    # conformal unit cases: round trip on a lattice, weights
    cinfo = {}
    hstep = 1e-3
    for p in range(0, 9):
        lat = [-1.0 + k / 20.0 for k in range(41)] + [r.uniform(-1, 1) for _ in range(10)]
        sten = []
        for x in (-0.75, -0.5, -0.25, 0.0, 0.25, 0.5, 0.75, -0.875, 0.875, -0.625, -0.375, -0.125, 0.125, 0.375, 0.625):
            sten += [x - 2 * hstep, x - hstep, x + hstep, x + 2 * hstep]
        cid = "cf.%d" % p
        ucases += ["case " + cid, "conf 1 4 t: %d x: %s" % (p, " ".join(H(v) for v in lat + sten))]
        cinfo[cid] = (1, [p], lat, sten)
    for k in range({"quick": 6, "thorough": 40}[tier]):
        p = [r.randint(0, 8), r.randint(0, 8)]
        lat = [r.choice([-1.0, 1.0, 0.0, r.uniform(-1, 1), r.uniform(-1, 1)]) for _ in range(2 * 12)]
        cid = "cf2.%d" % k
        ucases += ["case " + cid, "conf 2 3 t: %d %d x: %s" % (p[0], p[1], " ".join(H(v) for v in lat))]
        cinfo[cid] = (2, p, lat, [])
    if replay_script:
        ucases, uinfo, cinfo = [], {}, {}
        if replay_unit:
            ucases = list(replay_script)
            inf = replay_obj["info"]
            if inf["kind"] == "unit":
                uinfo[replay_obj["case"]] = tuple(inf["data"])
            else:
                cinfo[replay_obj["case"]] = tuple(inf["data"])
    ucf = os.path.join(wd, "unit.txt")
    open(ucf, "w").write("\n".join(ucases) + "\n")
    rc, uso, use = vlib.run([tdrv, ucf, "10"], timeout=1200)
    open(os.path.join(wd, "unit.out"), "w").write(uso)
    ucs = gl.parse_output(uso)
    if rc != 0:
        res.violation("transdrv-crash", "transdrv exited with %d %s" % (rc, use[-300:]), {"kind": "impl-counterexample", "cases": ucf})
    for cid, (rule, fam, q, d, alpha, beta, A, B, xs) in uinfo.items():
        st = ucs.get(cid, [])
        script = ["case " + cid] + [s.cmd for s in st]
        uinf = {"kind": "unit", "data": [rule, fam, q, d, alpha, beta, A, B, xs]}
        if not st or st[0].exc is not None or "fwd" not in st[0].obs:
            ctx.viol("unit.exception", "white-box calls raised %s" % (st and st[0].exc,), cid, script, uinf, "transdrv")
            continue
        o = st[0].obs
        ctx.count("unit_cases")
        npt = len(xs) // d
        for i, x in enumerate(xs):
            j = i % d
            ex, sc = fwd_exact(fam, A[j], B[j], x)
            ctx.add_tie("fwd %s %s %s %s %s %s" % (fam, H(A[j]), H(B[j]), H(x), H(o["fwd"][i]), H(max(sc, 1e-300))), cid, "fwd")
            if abs(Fraction(o["fwd"][i]) - ex) > Fraction(1e-15) * Fraction(sc):
                ctx.viol("points.not-mapped." + fam, "mapCanonicalToTransformed(%r) = %r, documented %r (rule %s a=%r b=%r)" % (x, o["fwd"][i], float(ex), rule, A[j], B[j]), cid, script, uinf, "transdrv")
            ex, sc = inv_exact(fam, A[j], B[j], x)
            ctx.add_tie("inv %s %s %s %s %s %s" % (fam, H(A[j]), H(B[j]), H(x), H(o["inv"][i]), H(max(sc, 1e-300))), cid, "inv")
            if abs(Fraction(o["inv"][i]) - ex) > Fraction(4e-15) * Fraction(sc):
                ctx.viol("inverse.not-documented." + fam, "mapTransformedToCanonical(%r) = %r, documented %r (rule %s a=%r b=%r)" % (x, o["inv"][i], float(ex), rule, A[j], B[j]), cid, script, uinf, "transdrv")
        # round trip through both maps of the implementation
        for j in range(d):
            jj = jac1(fam, A[j], B[j])
            ctx.add_tie("jac %s %s %s %s %s" % (fam, H(A[j]), H(B[j]), H(o["jac"][j]), H(abs(jj))), cid, "jac")
            if abs(o["jac"][j] - jj) > 1e-15 * abs(jj):
                ctx.viol("jacobian.not-documented." + fam, "diffCanonicalTransform()[%d] = %r, slope of the transformed-to-canonical map %r (rule %s a=%r b=%r)" % (j, o["jac"][j], jj, rule, A[j], B[j]), cid, script, uinf, "transdrv")
            if o["chsup"][j] != 0.0:
                ratio = o["hsup"][j] / o["chsup"][j]
                g = "usup:%s:%d" % (cid, j)
                ctx.add_tie("supc %s %s %s %s" % (H(A[j]), H(B[j]), H(ratio), H(abs(ratio) + abs(A[j]) + abs(B[j]))), cid, "supc", g)
                ctx.add_tie("sup %s %s %s %s %s" % (fam, H(A[j]), H(B[j]), H(ratio), H(abs(ratio) + 1.0 / jj)), cid, "sup", g)
                if abs(ratio - 1.0 / jj) > 1e-14 * abs(1.0 / jj):
                    ctx.viol(("hsupport.scale." + fam) if fam == "linear" else (K_SUP + fam),
                             "getHierarchicalSupport: transformed / canonical support = %r in dimension %d, Jacobian of the map is %r (rule %s, a=%r b=%r)" % (ratio, j, 1.0 / jj, rule, A[j], B[j]), cid, script, uinf, "transdrv")
        qs = qscale(q, alpha, beta, A, B)
        ctx.add_tie("qs %s %s %s %d %s %s %s" % (q, H(alpha), H(beta), d, " ".join(H(A[j]) + " " + H(B[j]) for j in range(d)), H(o["qscale"][0]), H(abs(qs))), cid, "qs")
        if abs(o["qscale"][0] - qs) > 1e-13 * abs(qs):
            ctx.viol("qscale.not-documented." + q, "getQuadratureScale = %r, documented %r (rule %s alpha=%r beta=%r a=%s b=%s)" % (o["qscale"][0], qs, rule, alpha, beta, A, B), cid, script, uinf, "transdrv")
        trf = " ".join(H(A[j]) + " " + H(B[j]) for j in range(d))
        for i in range(npt):
            p = xs[i * d:(i + 1) * d]
            ctx.add_tie("ins %s 1 %d %s %s %d" % (fam, d, trf, " ".join(H(v) for v in p), int(o["inside"][i])), cid, "ins")
            ctx.add_tie("ins %s 0 %d %s %s %d" % (fam, d, " ".join(H(0.0) + " " + H(0.0) for _ in range(d)), " ".join(H(v) for v in p), int(o["cinside"][i])), cid, "ins")
        # public route: getPoints of this grid
        for i, (x, y) in enumerate(zip(o["cpts"], o["pfwd"])):
            j = i % d
            ex, sc = fwd_exact(fam, A[j], B[j], x)
            if abs(Fraction(y) - ex) > Fraction(1e-15) * Fraction(sc):
                ctx.viol("points.not-mapped." + fam, "getPoints: canonical %r -> %r, documented %r" % (x, y, float(ex)), cid, script, uinf, "transdrv")
                break
    # laws
    for _ in range({"quick": 200, "thorough": 2000}[tier]):
        ctx.add_tie("law sqrt %s" % H(10.0 ** r.uniform(-3, 3)), "law", "law")
        ctx.add_tie("law pow %s %s %s %s" % (H(10.0 ** r.uniform(-2, 2)), H(10.0 ** r.uniform(-2, 2)), H(r.uniform(-4, 4)), H(r.uniform(-4, 4))), "law", "law")
    # conformal unit checks (run time only, no model)
    for cid, (d, p, lat, sten) in cinfo.items():
        st = ucs.get(cid, [])
        script = ["case " + cid] + [s.cmd for s in st]
        uinf = {"kind": "cunit", "data": [d, p, lat, sten]}
        if not st or st[0].exc is not None or "cfwd" not in st[0].obs:
            ctx.viol("conformal.unit.exception", "conformal maps raised / did not return: %s" % (st and st[0].exc,), cid, script, uinf, "transdrv")
            continue
        o = st[0].obs
        xs = lat + sten
        ctx.count("conformal_unit_cases")
        for i, x in enumerate(xs):
            j = i % d
            if abs(o["cfwd"][i] - conf_fwd(p[j], x)) > 1e-13:
                ctx.viol("conformal.forward-series", "forward map(%r) = %r, truncated asin series (%d terms) %r" % (x, o["cfwd"][i], p[j], conf_fwd(p[j], x)), cid, script, uinf, "transdrv")
                break
            if abs(x) <= 1.0:
                if abs(o["cinv"][i] - x) > 1e-9:
                    ctx.viol("conformal.inverse-of-forward", "inverse(forward(%r)) = %r (truncation %d)" % (x, o["cinv"][i], p[j]), cid, script, uinf, "transdrv")
                    break
                if abs(o["cfwdinv"][i] - x) > 1e-9:
                    ctx.viol("conformal.forward-of-inverse", "forward(inverse(%r)) = %r (truncation %d)" % (x, o["cfwdinv"][i], p[j]), cid, script, uinf, "transdrv")
                    break
                ctx.count("conformal_roundtrips")
            if abs(x) == 1.0 and abs(o["cfwd"][i] - x) > 1e-14:
                ctx.viol("conformal.endpoints", "forward map(%r) = %r, the map must fix the end points" % (x, o["cfwd"][i]), cid, script, uinf, "transdrv")
        # weights vs derivative
        pts, cw = o["cwpts"], o["cw"]
        for i in range(len(cw)):
            der = 1.0
            for j in range(d):
                der *= conf_der(p[j], pts[i * d + j])
            if abs(cw[i] - der) > 1e-12 * max(1.0, abs(der)):
                ctx.viol("conformal.weights", "mapConformalWeights = %r at %r, derivative of the series %r" % (cw[i], pts[i * d:(i + 1) * d], der), cid, script, uinf, "transdrv")
                break
        if d == 1 and sten:
            f = dict(zip(xs, o["cfwd"]))
            for i in range(len(cw)):
                x = pts[i]
                need = [x - 2 * hstep, x - hstep, x + hstep, x + 2 * hstep]
                if all(v in f for v in need):
                    num = (f[need[0]] - 8 * f[need[1]] + 8 * f[need[2]] - f[need[3]]) / (12 * hstep)
                    ctx.count("conformal_weight_vs_numeric_derivative")
                    if abs(cw[i] - num) > 1e-6 * max(1.0, abs(num)):
                        ctx.viol("conformal.weights-vs-numerical-derivative", "mapConformalWeights = %r at %r, numerical derivative of the implementation's forward map %r (truncation %d)"
                                 % (cw[i], x, num, p[0]), cid, script, uinf, "transdrv")
                        break

    # ================================================================ grids through the public API
    lines, infos, scripts = [], {}, {}
    def add(cid, L, info):
        infos[cid], scripts[cid] = info, L
        lines.extend(L)
    if replay_script:
        if not replay_unit:
            lines = list(replay_script)
            infos[replay_obj["case"]] = replay_obj["info"]
            scripts[replay_obj["case"]] = list(replay_script)
    else:
        # corpus / witnesses first
        cdir = os.path.join(vlib.ROOT, "corpus", PID)
        if os.path.isdir(cdir):
            for fn in sorted(os.listdir(cdir)):
                if fn.endswith(".json"):
                    w = json.load(open(os.path.join(cdir, fn)))
                    rr = vlib.rng(0, PID, fn)
                    if w["kind"] == "linear":
                        L, info = build_case(rr, "corpus." + fn[:-5], w["spec"], w["A"], w["B"], tier)
                    else:
                        L, info = build_conf_case(rr, "corpus." + fn[:-5], w["spec"], w["trunc"], w.get("A", []), w.get("B", []), tier, w.get("order", 0))
                    add("corpus." + fn[:-5], L, info)
        # coverage pass: every rule family x grid family at least once
        cover = [("global", rl) for rl in ALL_GLOBAL + ["gauss-hermite-odd"]] + [("sequence", rl) for rl in gl.SEQUENCE_RULES] + \
                [("localp", rl) for rl in gl.LOCAL_RULES] + [("wavelet", None), ("wavelet", None), ("fourier", None), ("fourier", None), ("fourier", None)]
        ncase = {"quick": 150, "thorough": 2500}[tier] * mult
        k = 0
        for kind, rule in cover:
            spec = gen_spec(r, kind, rule, tier)
            A, B = gen_ab(r, classify(spec["rule"])[0], spec["dims"])
            cid = "g%d" % k
            add(cid, *build_case(r, cid, spec, A, B, tier))
            k += 1
        for _ in range(ncase):
            kind = r.choice(["global", "global", "global", "sequence", "localp", "localp", "wavelet", "fourier"])
            rule = r.choice(WEIGHTED) if (kind == "global" and r.random() < 0.5) else None
            spec = gen_spec(r, kind, rule, tier)
            A, B = gen_ab(r, classify(spec["rule"])[0], spec["dims"])
            cid = "g%d" % k
            add(cid, *build_case(r, cid, spec, A, B, tier))
            k += 1
        # conformal: alone and composed with a linear transform
        nconf = {"quick": 40, "thorough": 500}[tier]
        for i in range(nconf):
            kind = r.choice(["global", "sequence", "localp", "localp", "wavelet"])
            rule = r.choice(["clenshaw-curtis", "gauss-legendre", "leja", "gauss-patterson", "rleja", "fejer2", "chebyshev"]) if kind == "global" else None
            spec = gen_spec(r, kind, rule, tier)
            if kind == "localp" and spec.get("order") == 0:
                spec["order"] = 1
            if kind in ("global", "sequence"):
                spec["aw"] = []
                spec["depth"] = min(spec["depth"], 3 if kind == "global" else 4)
                if spec["type"] in ("iptotal", "qptotal", "ipcurved"):
                    spec["type"] = "level"
            trunc = [r.randint(1, 8) if r.random() < 0.85 else 0 for _ in range(spec["dims"])]
            if i < 8:
                trunc = [i + 1] * spec["dims"]
            both = (i % 2 == 1)
            A, B = gen_ab(r, "linear", spec["dims"], style=r.choice(["dyadic", "generic"])) if both else ([], [])
            cid = "cn%d" % i
            add(cid, *build_conf_case(r, cid, spec, trunc, A, B, tier, order=r.choice([0, 1])))
        # conformal quadrature of low-degree polynomials
        for i, (d, p, m, level) in enumerate(conformal_quadrature_cases(r, tier)):
            cid = "cq%d" % i
            spec = {"family": "global", "dims": d, "outs": 0, "depth": level, "type": "tensor", "rule": "gauss-legendre", "ll": []}
            L = ["case " + cid, gl.make_cmd(spec, "t"), "conformal t " + " ".join(str(v) for v in p), "dump t meta allpoints qw"]
            add(cid, L, {"kind": "cquad", "d": d, "p": p, "m": m, "spec": spec})
    rc, cases, so, se = gl.run_scripts(gdrv, lines, wd, "grids", timeout=3000, case_timeout=20)
    if rc != 0:
        res.violation("tsgdrv-crash", "tsgdrv exited with %d: %s" % (rc, se[-400:]), {"kind": "impl-counterexample", "script": lines[-40:]})
    fam_count, nontrivial = {}, set()
    for cid, steps in cases.items():
        info = infos.get(cid)
        if info is None:
            continue
        sc = scripts[cid]
        if info["kind"] == "linear":
            ok = check_linear(ctx, cid, info, steps, sc)
            spec = info["spec"]
            key = "%s/%s" % (spec["family"], info["fam"] if info["q"] == "plain" else info["q"])
            fam_count[key] = fam_count.get(key, 0) + 1
            pc = obs_of(steps, "dump c meta", "allpoints")
            if ok and pc and len(pc) // spec["dims"] >= 3:
                nontrivial.add((spec["family"], spec["rule"], spec["dims"], spec["depth"], tuple(info["A"]), tuple(info["B"])))
        elif info["kind"] == "conformal":
            ok = check_conformal(ctx, cid, info, steps, sc)
            key = "conformal%s/%s" % ("+linear" if info["A"] else "", info["spec"]["family"])
            fam_count[key] = fam_count.get(key, 0) + 1
            if ok:
                nontrivial.add(("conf", info["spec"]["family"], info["spec"]["rule"], tuple(info["trunc"]), tuple(info["A"]), tuple(info["B"])))
        else:
            pts, qw = obs_of(steps, "dump t meta", "allpoints"), obs_of(steps, "dump t meta", "qw")
            d, m = info["d"], info["m"]
            if pts is None or qw is None:
                ctx.viol("conformal.quadrature.exception", "no weights: %s" % ([s.exc for s in steps if s.exc],), cid, sc, info)
                continue
            for j in range(d):
                got = math.fsum(qw[i] * pts[i * d + j] ** m for i in range(len(qw)))
                exact = (2.0 ** (d - 1)) * ((1.0 - (-1.0) ** (m + 1)) / (m + 1.0))
                ctx.count("conformal_quadrature_moments")
                if abs(got - exact) > 1e-11 * max(1.0, math.fsum(abs(w) for w in qw)):
                    ctx.viol("conformal.quadrature-moment", "Gauss-Legendre level %d with conformal truncation %s: integral of x_%d^%d = %r, exact %r"
                             % (info["spec"]["depth"], info["p"], j, m, got, exact), cid, sc, info)
    # ================================================================ model runner on the tie file
    tief = os.path.join(wd, "tie.txt")
    open(tief, "w").write("\n".join(ctx.tie) + "\n")
    mism, agree = [], 0
    if runner and ctx.tie:
        rc2, mo, me = vlib.run([runner, tief], timeout=1800)
        bad_lines = {}
        for line in mo.split("\n"):
            if line.startswith("MISMATCH"):
                t = line.split()
                bad_lines[int(t[1]) - 1] = line
            elif line.startswith("agree"):
                agree = int(line.split()[1])
        if rc2 != 0:
            mism.append("transforms runner failed: " + me[-300:])
        # support lines come in pairs (code formula / Jacobian): the implementation must follow one of the two models
        groups = {}
        for idx, (cid, kind, g) in enumerate(ctx.tie_meta):
            if g is not None:
                groups.setdefault(g, {})[kind] = idx
        tolerated = set()
        follows = {"code": 0, "jacobian": 0, "both": 0, "neither": 0}
        for g, m_ in groups.items():
            bc, bs = m_.get("supc") in bad_lines, m_.get("sup") in bad_lines
            follows["both" if not bc and not bs else "code" if not bc else "jacobian" if not bs else "neither"] += 1
            if bc != bs:
                tolerated.add(m_["supc"] if bc else m_["sup"])
        for idx, line in sorted(bad_lines.items()):
            if idx in tolerated:
                continue
            mism.append("%s [case %s] %s" % (ctx.tie_meta[idx][1], ctx.tie_meta[idx][0], line[:300]))
        ctx.stats["support_follows_model"] = follows
        agree -= 0

    if mism and not res.violations:
        res.violation("correspondence", "model and implementation disagree on %d observations, e.g. %s" % (len(mism), mism[0][:300]),
                      {"kind": "correspondence-break", "correspondence": "Model.Transforms fwd/inv/jac/qscale/inside/support vs TasmanianSparseGrid",
                       "examples": mism[:10]}, no_input=True)
    if proof_broken and not res.violations:
        res.violation("proof", "proof obligations of Properties_C10.v no longer check (%d/%d) %s" %
                      (props["discharged"], props["obligations"], res.coverage["forbidden_tokens"][:2]),
                      {"kind": "proof-break", "theorems": props["theorems"], "log": props["log"][-3000:]}, no_input=True)
    if not ok_ext and not res.violations:
        res.violation("extraction", "extraction of the model failed", {"kind": "proof-break", "log": elog[-2000:]}, no_input=True)

    res.coverage.update({
        "evaluations": len(cases) + len(ucs), "distinct_nontrivial": len(nontrivial),
        "rule": "white-box unit cases: every rule class x random (alpha, beta) x dims 1-3 x random (a,b) (dyadic / generic / narrow / wide / large offset) x points "
                "(canonical, transformed, exact bounds, far outside); grid cases: make (all five families, every one-dimensional rule at least once) ; "
                "twin canonical grid ; setDomainTransform before and after loading ; every observation listed in the module docstring ; a refinement ; "
                "clearDomainTransform; conformal cases: truncations 0..8 alone and composed with a linear transform (both orders of the calls), Gauss-Legendre "
                "tensor grids for the moments. non-trivial = the grid has at least 3 points and was accepted by the library; distinct by "
                "(family, rule, dims, depth, a, b) resp. (family, rule, truncation, a, b)",
        "samples": [scripts[c] for c in list(scripts)[:2]] + ucases[1:4:2],
        "programs": len(cases), "traces_validated_against_impl": agree, "disagreements_checked": len(mism),
        "tie_lines": len(ctx.tie), "unit_cases": len(uinfo), "conformal_unit_cases": len(cinfo),
        "case_distribution": fam_count, "counts": ctx.stats, "direct_property_violations": ctx.nviol,
        "direct_property_violations_by_key": ctx.per_key,
    })
    res.assumptions = [
        "theorems are over exact rationals with sqrt/pow/exp as arbitrary functions obeying the listed laws; the laws are checked against libm on random "
        "arguments (relative 1e-12) in every run; binary64 rounding is covered by the tolerances (points 1e-15 of the magnitude of the terms, model tie 1e-13, "
        "evaluate 1e-12, derivatives 1e-10, weights 1e-13 relative)",
        "the conformal map has no model: only the run-time checks apply to it",
        "getDomainInside: points within 1e-12 (relative) of a bound but not equal to it are skipped and counted; exact bounds must be accepted (closed domain)",
        "sum-of-weights / first-moment checks only where the canonical grid passes the same check (otherwise counted as skipped)",
    ]


def replay(path):
    rp = json.load(open(path))
    res = vlib.Result(PID, "quick", rp.get("seed", 1), LEVEL)
    run(res, "quick", rp.get("seed", 1), replay_obj=rp)
    return res.finish()
