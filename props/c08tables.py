"""C08, tensor selection with the INTEGER depth types and the exactness tables (ties of C02 / C03).

Theorems: coq/Props/Properties_C08_tables.v about the model coq/Model/TensorSelect.v (`select`, `poly_space`, `grid_tensors`): for every
dimension, offset, anisotropic weights >= 1, level limits and every non-decreasing exactness table (instantiated with the tables
generated from the source, gen/ExactnessGen.v): membership characterisation, lower / sorted / duplicate free, within the limits
(-1 unrestricted), monotone in the depth, the polynomial space is exactly {k : exists t in Theta, k_j <= exact(t_j)}.
Tie (exact comparison of integer sets): harness/seltabdrv.cpp calls GridGlobal::selectTensors / GridFourier::selectTensors (private
members, white-box) with the arguments of makeGlobalGrid / makeFourierGrid, constructs the grid through TasmanianSparseGrid::make
<Family>Grid when it is small enough and reads its `tensors` / `active_tensors` / points, and getGlobalPolynomialSpace(true/false);
the extracted model (ocaml/tensorselect_main.ml) recomputes the selection from (family, rule, type, weights, limits, depth) with the
GENERATED tables and the polynomial space from the implementation's tensor set.
Types covered: level, iptotal, qptotal, tensor, iptensor, qptensor.  NOT covered: the curved and hyperbolic types (floating point),
rule_customtabulated, overflow of int.

Used by props/C08.py through run(res, tier, seed); stand-alone:  python3 props/c08tables.py quick 1   (exit 0/1, evidence under
_build/work/C08t/, never evidence/C08.json)."""
import json
import os
import sys
import time

sys.path.insert(0, os.path.join(os.path.dirname(os.path.dirname(os.path.abspath(__file__))), "tools"))
import vlib  # noqa: E402

PID = "C08"
SUB = "C08_tables"
WORK = "C08t"
TYPES = ["level", "iptotal", "qptotal", "tensor", "iptensor", "qptensor"]
GLOBAL_RULES = ["clenshaw-curtis", "clenshaw-curtis-zero", "fejer2", "chebyshev", "chebyshev-odd", "leja", "leja-odd", "rleja",
                "rleja-double2", "rleja-double4", "rleja-odd", "rleja-shifted", "rleja-shifted-even", "rleja-shifted-double",
                "max-lebesgue", "max-lebesgue-odd", "min-lebesgue", "min-lebesgue-odd", "min-delta", "min-delta-odd",
                "gauss-legendre", "gauss-legendre-odd", "gauss-patterson", "gauss-chebyshev1", "gauss-chebyshev1-odd",
                "gauss-chebyshev2", "gauss-chebyshev2-odd", "gauss-gegenbauer", "gauss-gegenbauer-odd", "gauss-jacobi",
                "gauss-jacobi-odd", "gauss-laguerre", "gauss-laguerre-odd", "gauss-hermite", "gauss-hermite-odd"]
SEQUENCE_RULES = ["leja", "rleja", "rleja-shifted", "max-lebesgue", "min-lebesgue", "min-delta"]

TRUSTED = [
    "Coq 8.16.1 kernel (vm_compute in Examples only); axioms: none",
    "extraction: ExtrOcamlBasic only; OCaml glue ocaml/tensorselect_main.ml; C++ driver harness/seltabdrv.cpp (white-box, read-only: "
    "private GridGlobal::selectTensors / GridFourier::selectTensors, members tensors / active_tensors / points)",
    "exactness tables: coq/gen/ExactnessGen.v generated from tsgCoreOneDimensional.cpp by translator/exactness.py (checked against the "
    "compiled library by props/exactnessgen.py, used by C02/C03); here the same tables drive the model and every difference to the "
    "compiled selection is reported",
    "generateFullTensorSet: the model uses the nested product, proved equal to the mixed-radix decoding loop of the C++ for positive entries "
    "(c08t_full_tensor_is_decoding_loop); unionSets (pairwise += tree) is written as a fold of the sorted merge (merge is associative and "
    "commutative on sorted sets, IndexSetsProofs); the unbounded C++ loops take a fuel proved sufficient for every table with exact(l) >= l "
    "(c08t_fuel_sufficient, c08t_rule_exactness_tables)",
    "NOT modelled: curved / hyperbolic depth types (floating-point weights), rule_customtabulated, overflow of int",
]


# ------------------------------------------------------------------------------------------------ case generation
def box_size(d, depth, w, ll):
    """upper bound of the number of tensors: level in direction j is at most w_j * depth (every table has exact(l) >= l)"""
    n = 1
    for j in range(d):
        top = (w[j] if w else 1) * depth
        if ll and ll[j] >= 0:
            top = min(top, ll[j])
        n *= top + 1
    return n


def gen_case(r, cid, tier):
    fam = r.choice(["global", "global", "global", "sequence", "fourier"])
    ty = r.choice(TYPES)
    d = r.choice([1, 2, 2, 3, 3, 4])
    rule = r.choice(GLOBAL_RULES) if fam == "global" else (r.choice(SEQUENCE_RULES) if fam == "sequence" else "fourier")
    depth = r.randint(0, 8)
    k = r.random()
    if k < 0.35:
        w = []
    elif k < 0.5:
        w = [r.choice([1, 2, 3])] * d
    else:
        w = [r.choice([1, 1, 2, 2, 3, 4, 5]) for _ in range(d)]
    k = r.random()
    if k < 0.4:
        ll = []
    elif k < 0.5:
        ll = [-1] * d
    else:
        ll = [r.choice([-1, -1, 0, 1, 2, 3, 5, 8] + ([-3] if r.random() < 0.05 else [])) for _ in range(d)]
    cap = 1500 if fam == "sequence" else 3000
    if ty.endswith("tensor"):
        while depth > 0 and box_size(d, depth, w, ll) > cap:
            depth -= 1
    if fam == "sequence" and max(w or [1]) * depth > 40:        # nodes of the sequence rules are optimised one by one
        depth = max(1, 40 // max(w))
    return "sel %s %s %s %s %d %d maxpts: %d maxpoly: %d w: %s ll: %s" % (
        cid, fam, rule, ty, d, depth, 20000 if tier == "quick" else 60000, 3000 if tier == "quick" else 8000,
        " ".join(map(str, w)), " ".join(map(str, ll)))


def matrix_cases():
    """every (family, type) pair, with and without weights / limits, whatever the seed; rules whose ip and qp tables differ"""
    out = []
    i = 0
    for fam, rule in (("global", "clenshaw-curtis"), ("global", "gauss-legendre"), ("global", "leja"), ("global", "chebyshev"),
                      ("sequence", "leja"), ("sequence", "rleja"), ("fourier", "fourier")):
        for ty in TYPES:
            for d, depth, w, ll in ((2, 4, [], []), (2, 5, [1, 2], []), (2, 6, [3, 2], [-1, 1]), (3, 4, [2, 1, 3], [2, -1, 0]),
                                    (1, 7, [2], [3]), (3, 3, [], [-1, -1, -1])):
                out.append("sel m%d %s %s %s %d %d maxpts: 20000 maxpoly: 3000 w: %s ll: %s" % (
                    i, fam, rule, ty, d, depth, " ".join(map(str, w)), " ".join(map(str, ll))))
                i += 1
    return out


# ------------------------------------------------------------------------------------------------ run
def run(res, tier, seed, replay_cases=None):
    t0 = time.time()
    cov = {}
    res.coverage["tensor_selection_tables"] = cov
    props = vlib.coq_props(SUB)
    bad_axioms = {k: v for k, v in props["assumptions"].items() if not v.startswith("Closed under the global context")}
    cov.update({"props_file": "coq/Props/Properties_C08_tables.v", "obligations": props["obligations"], "discharged": props["discharged"],
                "theorems": props["theorems"], "print_assumptions": props["assumptions"], "trusted_base": TRUSTED})
    proof_broken = (not props["ok"]) or bool(bad_axioms) or len(props["assumptions"]) != props["obligations"]
    ok_ext, elog = vlib.coq_make(["Extract/ExtractTensorSelect.vo"])
    runner = None
    if ok_ext:
        try:
            runner = vlib.ocaml_runner("tensorselect")
        except vlib.BuildError as e:
            ok_ext, elog = False, str(e)
    drv, derr = vlib.try_build_driver("seltabdrv")
    wd = os.path.join(vlib.BUILD, "work", WORK)
    os.makedirs(wd, exist_ok=True)
    r = vlib.rng(seed, SUB)
    nv0 = len(res.violations)

    if replay_cases:
        lines = list(replay_cases)
    else:
        lines = []
        cdir = os.path.join(vlib.ROOT, "corpus", "C08")
        for f in sorted(os.listdir(cdir)) if os.path.isdir(cdir) else []:
            try:
                w = json.load(open(os.path.join(cdir, f)))
            except (OSError, ValueError):
                continue
            if isinstance(w, dict) and w.get("driver") == "seltabdrv":
                lines += [l for l in w.get("cases", []) if l.startswith("sel ")]
        lines += matrix_cases()
        n = {"quick": 2500, "thorough": 20000}[tier] * (2 if proof_broken else 1)
        lines += [gen_case(r, "s%d" % i, tier) for i in range(n)]
    by_id = {l.split()[1]: l for l in lines}
    cf = os.path.join(wd, "cases.txt")
    with open(cf, "w") as fh:
        fh.write("\n".join(lines) + "\n")
    stats = {"ok": 0, "skipped_exception": 0, "with_selectTensors": 0, "with_grid": 0, "with_pi": 0, "with_pq": 0, "by_type": {}, "by_family": {},
             "with_weights": 0, "with_limits": 0, "nontrivial": 0}
    mism, agree = [], 0
    if drv is None:
        res.violation("correspondence-tables", "white-box driver seltabdrv no longer compiles/links against the source: " + (derr or "")[-600:],
                      {"kind": "correspondence-break", "correspondence": "seltabdrv (GridGlobal::selectTensors, tensors, active_tensors)"}, no_input=True)
    else:
        rc, so, se = vlib.run([drv, cf], timeout=400 if tier == "quick" else 3000)
        of = os.path.join(wd, "cases.out")
        with open(of, "w") as fh:
            fh.write(so)
        if rc != 0:
            done = [l.split()[1] for l in so.split("\n") if l.startswith(("r ", "x "))]
            nxt = lines[len(done)] if len(done) < len(lines) else ""
            res.violation("seltabdrv-crash", "seltabdrv exited with %d (%s) at case: %s" % (rc, se[-300:].strip(), nxt),
                          {"kind": "impl-counterexample", "driver": "seltabdrv", "cases": [nxt] if nxt else lines[-5:]})
        if runner:
            rc2, mo, me = vlib.run([runner, cf, of], timeout=900 if tier == "quick" else 3000)
            with open(os.path.join(wd, "runner.out"), "w") as fh:
                fh.write(mo)
            for line in mo.split("\n"):
                t = line.split()
                if line.startswith("MISMATCH"):
                    mism.append(line)
                elif line.startswith("agree"):
                    agree += int(t[1])
                elif line.startswith("skip"):
                    stats["skipped_exception"] += 1
                elif line.startswith("noout"):
                    stats["no_output"] = stats.get("no_output", 0) + 1
                elif line.startswith("ok "):
                    stats["ok"] += 1
                    c = by_id.get(t[1], "").split()
                    kv = dict(x.split("=") for x in t[2:])
                    stats["with_selectTensors"] += int(kv["sel"])
                    stats["with_grid"] += int(kv["grid"])
                    stats["with_pi"] += int(kv["pi"])
                    stats["with_pq"] += int(kv["pq"])
                    if c:
                        stats["by_type"][c[4]] = stats["by_type"].get(c[4], 0) + 1
                        stats["by_family"][c[2]] = stats["by_family"].get(c[2], 0) + 1
                        wi, li = c.index("w:"), c.index("ll:")
                        ws, ls = c[wi + 1:li], c[li + 1:]
                        stats["with_weights"] += 1 if len(set(ws)) > 1 else 0
                        stats["with_limits"] += 1 if any(v != "-1" for v in ls) else 0
                        if int(kv["n"]) > 1 and (len(set(ws)) > 1 or any(v != "-1" for v in ls) or c[4] != "level"):
                            stats["nontrivial"] += 1
            if rc2 != 0:
                mism.append("MISMATCH - runner-failed " + me[-300:])
            if rc == 0 and stats.get("no_output"):
                mism.append("MISMATCH - driver-produced-no-result-line-for %d cases" % stats["no_output"])
    # a selection mismatch IS a failure (the model is proved to have the stated properties): concrete replay = the case line
    seen = set()
    for mline in mism:
        t = mline.split()
        cid = t[1] if len(t) > 1 else "-"
        case = by_id.get(cid, "")
        if len(t) > 3 and t[2] == "tensor-selection":
            key = "tensor-selection-differs:" + t[3]
            what = "the tensor set of %s is not the set the selection rule of type %s defines" % (
                "the constructed grid" if len(t) > 4 and t[4] == "grid" else "selectTensors", t[3])
        elif len(t) > 3 and t[2] == "polynomial-space":
            key = "polynomial-space-differs"
            what = "getGlobalPolynomialSpace(%s) is not {k : exists t in the tensor set, k_j <= exactness(t_j)} (%s)" % (
                "true" if t[3] == "i" else "false", t[4] if len(t) > 4 else "")
        else:
            key, what = "correspondence-tables", "selection model could not be evaluated"
        if key in seen:
            continue
        seen.add(key)
        if key == "correspondence-tables":
            res.violation(key, what + ": " + mline[:300], {"kind": "correspondence-break", "correspondence": "TensorSelect model vs seltabdrv",
                                                          "examples": mism[:5], "cases": [case]}, no_input=True)
        else:
            res.violation(key, "%s: %s [%s]" % (what, mline[:600], case),
                          {"kind": "impl-counterexample", "driver": "seltabdrv", "cases": [case], "detail": mline[:4000]})
    if proof_broken and len(res.violations) == nv0:
        res.violation("proof-tables", "proof obligations of Properties_C08_tables.v no longer check (%d/%d) %s" %
                      (props["discharged"], props["obligations"], list(bad_axioms)[:2]),
                      {"kind": "proof-break", "theorems": props["theorems"], "log": props["log"][-3000:]}, no_input=True)
    if not ok_ext and len(res.violations) == nv0:
        res.violation("extraction-tables", "extraction / build of the tensor-selection model failed", {"kind": "proof-break", "log": elog[-2000:]}, no_input=True)
    cov.update({
        "cases": len(lines), "cases_agree": stats["ok"], "comparisons_agree_exactly": agree, "disagreements": len(mism),
        "skipped_exception": stats["skipped_exception"], "cases_without_output_after_a_driver_crash": stats.get("no_output", 0), "selectTensors_compared": stats["with_selectTensors"],
        "constructed_grids_compared": stats["with_grid"], "polynomial_space_interpolation_compared": stats["with_pi"],
        "polynomial_space_quadrature_compared": stats["with_pq"], "by_type": stats["by_type"], "by_family": stats["by_family"],
        "anisotropic_weights": stats["with_weights"], "with_level_limits": stats["with_limits"], "distinct_nontrivial": stats["nontrivial"],
        "wall_s": round(time.time() - t0, 1),
        "rule": "case = (family global/sequence/fourier, rule of that family (35 global rules, 6 sequence rules), one of the six integer depth types, "
                "dimensions 1-4, depth 0-8, weights none / equal / random 1-5, limits none / all -1 / random in {-1,0,1,2,3,5,8}); plus a fixed "
                "family x type matrix; non-trivial = more than one tensor and (anisotropic weights or limits or a table-driven type)",
        "sample": lines[len(lines) // 2] if lines else "",
    })
    return cov


def replay(path):
    rp = json.load(open(path))
    res = vlib.Result(PID, "quick", rp.get("seed", 1), "proof")
    run(res, "quick", rp.get("seed", 1), replay_cases=rp.get("cases"))
    return finish_standalone(res)


def finish_standalone(res):
    """print the outcome like Result.finish() but write the evidence under _build/work/C08t/ (never evidence/C08.json)"""
    wd = os.path.join(vlib.BUILD, "work", WORK)
    os.makedirs(wd, exist_ok=True)
    cov = res.coverage.get("tensor_selection_tables", {})
    with open(os.path.join(wd, "evidence-standalone.json"), "w") as fh:
        json.dump({"property_id": PID, "part": "tensor_selection_tables", "tier": res.tier, "seed": res.seed, "coverage": cov,
                   "violations": len(res.violations), "known": [k for k, _ in res.known_hit]}, fh, indent=1, default=str)
    for key, text in res.known_hit:
        print("KNOWN-FINDING: property=%s key=%s %s" % (PID, key, text))
    seen = set()
    for v in res.violations:
        if v["key"] in seen:
            continue
        seen.add(v["key"])
        print("DETAIL property=%s key=%s %s" % (PID, v["key"], v["what"][:500].replace("\n", " ")))
        print("VIOLATION property=%s replay=%s%s" % (PID, v["replay"], " no-failing-input-found" if v["no_input"] else ""))
    short = {k: cov.get(k) for k in ("obligations", "discharged", "cases", "cases_agree", "comparisons_agree_exactly", "disagreements", "skipped_exception",
                                      "selectTensors_compared", "constructed_grids_compared", "polynomial_space_interpolation_compared",
                                      "polynomial_space_quadrature_compared", "by_type", "by_family", "anisotropic_weights", "with_level_limits",
                                      "distinct_nontrivial", "wall_s")}
    print("SUMMARY " + json.dumps(short, default=str))
    sys.stdout.flush()
    return 1 if res.violations else 0


def main():
    if len(sys.argv) >= 3 and sys.argv[1] == "--replay":
        return replay(sys.argv[2])
    tier = sys.argv[1] if len(sys.argv) > 1 and sys.argv[1] in ("quick", "thorough") else "quick"
    seed = int(sys.argv[2]) if len(sys.argv) > 2 else int(os.environ.get("VERIF_SEED", "1") or 1)
    res = vlib.Result(PID, tier, seed, "proof")
    try:
        run(res, tier, seed)
    except vlib.BuildError as e:
        res.violation("build", "build failed: " + str(e)[:1500], {"kind": "build-failure", "detail": str(e)}, no_input=True)
    return finish_standalone(res)


if __name__ == "__main__":
    sys.exit(main())
