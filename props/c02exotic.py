"""C02, the EXOTIC and CUSTOM-TABULATED rules clause ("... custom-tabulated and exotic rules ...", anchor Addons/tsgExoticQuadrature.hpp).

Direct evaluation on the implementation (no Coq part; the Gauss theorems are Props/Properties_C02_gauss.v: an exotic rule is the Gauss rule
of rho + shift combined with a Gauss-Legendre rule scaled by -shift).  harness/exoticdrv.cpp builds, through the public API,
  exo: getExoticQuadrature(num_levels, shift, rho, nref, desc, symmetric) -> makeGlobalGrid(dims, 0, depth, type, rule, aw) [-> setDomainTransform]
  ct : a hand-made CustomTabulated (Gauss-Legendre tables, n = l+1 or 2l+1 nodes; in memory or written/read as ASCII/binary) -> the same
and prints points, weights, getGlobalPolynomialSpace(false) and every level of the one-dimensional rule with its declared exactness.
Oracle (weight functions with closed-form moments on [-1,1]: polynomials, cos(ax), sin(ax), sin(ax)/(ax) by their power series in exact
rational arithmetic):
  * every monomial listed by getGlobalPolynomialSpace(false) integrates, with the grid's weights, to the product of the 1-d moments of rho
    (in the canonical variable; a linear transform contributes prod (b-a)/2)                          exotic-monomial-not-exact:<class>.shift-<sign>
  * the weights sum to (int rho)^dims                                                                 exotic-weights-sum
  * every level l of the one-dimensional rule is exact to its declared getQExact(l)                   exotic-level-not-exact
  * the same three for the hand-made tables (uniform weight), and the tables survive the ASCII/binary round trip bit for bit
                                                                                                      customtabulated-*
Legal shifts only: rho + shift >= 0 on [-1,1]; zero, positive and NEGATIVE shifts; the symmetric flag only for even rho.
Relative error is measured against max(sum |terms|, |exact|, sum |weights|) (the nodes lie in [-1,1]; a node 1e-13 away from 0 must not count); ill-conditioned constructions (sum |w| > 1e6 * max(1, |int rho|^d)) are
counted and skipped.

Used by props/C02.py through run(res, tier, seed); stand-alone:  python3 props/c02exotic.py [quick|thorough] [seed]  (exit 0/1, evidence
under _build/work/C02exo/, never evidence/C02.json)."""
import json
import math
import os
import sys
import time
from fractions import Fraction

sys.path.insert(0, os.path.join(os.path.dirname(os.path.dirname(os.path.abspath(__file__))), "tools"))
import vlib  # noqa: E402

PID = "C02"
WORK = "C02exo"
COVKEY = "exotic_rules"
TOL = 1e-9          # unchanged tree: max relative error measured ~1e-13 (see coverage max_rel_error_*), margin >= 100x
ILL = 1e6
MAXDEG = 40
DEPTH_TYPES = ["level", "curved", "iptotal", "ipcurved", "qptotal", "qpcurved", "hyperbolic", "iphyperbolic", "qphyperbolic",
               "tensor", "iptensor", "qptensor"]

# (weight name understood by the driver, class, even?, touching shift allowed (exact arithmetic at the reference points))
WEIGHTS = [
    ("poly:1", "poly-positive", True, False),              # -min = -1 would make rho + shift vanish identically: no touching shift
    ("poly:2,1", "poly-positive", False, True),
    ("poly:1,0,1", "poly-positive", True, True),
    ("poly:1.5,0,1", "poly-positive", True, True),
    ("poly:1,0.5,0,0.25", "poly-positive", False, False),
    ("poly:3,-1,0.5,0,0.5", "poly-positive", False, False),
    ("poly:0,0,1", "poly-vanishing", True, True),
    ("poly:1,0,-1", "poly-vanishing", True, True),
    ("poly:0.5,1", "poly-signchanging", False, True),
    ("poly:-0.25,0,1", "poly-signchanging", True, True),
    ("poly:0,1", "poly-signchanging", False, True),
    ("cos:1.0", "trig-positive", True, False),
    ("cos:3.0", "trig-signchanging", True, False),
    ("sin:2.0", "trig-signchanging", False, False),
    ("sinc:6.0", "trig-signchanging", True, False),
]

_MOM = {}


def _frac(s):
    return Fraction(s)


def moment(weight, k):
    """int_{-1}^{1} x^k rho(x) dx as a float, computed in exact rational arithmetic (power series truncated below 1e-40 for trig weights)"""
    key = (weight, k)
    if key in _MOM:
        return _MOM[key]
    kind, arg = weight.split(":", 1)

    def mono(j):
        return Fraction(2, j + 1) if j % 2 == 0 else Fraction(0)

    if kind == "poly":
        co = [_frac(c) for c in arg.split(",")]
        v = sum(c * mono(k + j) for j, c in enumerate(co))
    else:
        a = _frac(arg)
        v = Fraction(0)
        j = 0
        while True:
            if kind == "cos":       # sum (-1)^j a^(2j) / (2j)! x^(2j)
                term = Fraction((-1) ** j) * a ** (2 * j) / math.factorial(2 * j)
                v += term * mono(k + 2 * j)
            elif kind == "sin":     # sum (-1)^j a^(2j+1) / (2j+1)! x^(2j+1)
                term = Fraction((-1) ** j) * a ** (2 * j + 1) / math.factorial(2 * j + 1)
                v += term * mono(k + 2 * j + 1)
            elif kind == "sinc":    # sum (-1)^j a^(2j) / (2j+1)! x^(2j)
                term = Fraction((-1) ** j) * a ** (2 * j) / math.factorial(2 * j + 1)
                v += term * mono(k + 2 * j)
            else:
                raise ValueError(weight)
            j += 1
            if j > 8 and abs(term) < Fraction(1, 10 ** 40):
                break
    _MOM[key] = float(v)
    return _MOM[key]


def rho(weight, x):
    kind, arg = weight.split(":", 1)
    if kind == "poly":
        return sum(float(c) * x ** j for j, c in enumerate(arg.split(",")))
    a = float(arg)
    if kind == "cos":
        return math.cos(a * x)
    if kind == "sin":
        return math.sin(a * x)
    t = a * x
    return 1.0 if abs(t) < 1e-8 else math.sin(t) / t


_MIN = {}


def rho_min(weight):
    if weight not in _MIN:
        _MIN[weight] = min(rho(weight, -1.0 + 2.0 * i / 4000.0) for i in range(4001))
    return _MIN[weight]


def fmt(v):
    return repr(float(v))


def pick_shift(r, weight, touch_ok, want):
    """a legal shift of the requested sign class, or None; legal: rho + shift >= 0 on [-1,1] and not identically zero"""
    m = rho_min(weight)
    if want == "zero":
        return 0.0 if m >= 0.0 else None
    if want == "neg":
        if m <= 0.0:
            return None
        c = [-m / 2.0, -m / 4.0, -0.75 * m]
        if touch_ok:
            c += [-m, -m]
        return r.choice(c)
    base = max(0.0, -m)
    c = [base + 0.25, base + 0.5, base + 1.0, base + 2.5]
    if touch_ok and base > 0.0:
        c.append(base)
    return r.choice(c)


def rand_aw(r, d, ty):
    if "tensor" in ty:
        return [r.randint(1, 2) for _ in range(d)] if d <= 2 else []
    if "curved" in ty:
        return [r.randint(1, 3) for _ in range(d)] + [r.randint(0, 2) for _ in range(d)]
    return [r.randint(1, 3) for _ in range(d)]


def grid_part(r, tier):
    d = r.choice([1, 1, 2, 2, 2, 3])
    ty = r.choice(DEPTH_TYPES)
    if "tensor" in ty:
        depth = r.randint(1, 3)
    elif ty in ("level", "curved", "hyperbolic"):
        depth = r.randint(1, 6 if d == 1 else 4 if d == 2 else 3)
    else:
        depth = r.randint(1, 11 if d == 1 else 8 if d == 2 else 5)
    aw = rand_aw(r, d, ty) if r.random() < 0.3 else []
    if "tensor" in ty and aw:
        depth = 1
    trans = []
    if r.random() < 0.2:
        for _ in range(d):
            a = r.choice([-3.0, -1.0, 0.0, 0.5, 2.0])
            trans += [a, a + r.choice([0.5, 1.0, 2.0, 3.0, 7.0])]
    return d, ty, depth, aw, trans


def need_levels(ty, depth, aw, d):
    """levels the table must provide: depth + 1 (a full tensor with anisotropic weights reaches level depth * weight)"""
    return depth * (max(aw[:d]) if ("tensor" in ty and aw) else 1) + 1


def tail(d, depth, ty, aw, trans):
    s = "%d %d %s" % (d, depth, ty)
    if aw:
        s += " aw: " + " ".join(str(v) for v in aw)
    if trans:
        s += " trans: " + " ".join(fmt(v) for v in trans)
    return s


def gen_cases(r, tier):
    n_exo, n_ct = {"quick": (54, 10), "thorough": (540, 60)}[tier]
    cases = {}
    # corpus first: one negative, one zero, one positive shift in one dimension, and a sparse negative-shift grid; the hand-made tables in memory
    corpus = [("exo", "K0", "poly:2,1", -1.0, 6, 80, 0, 1, 5, "qptotal", [], []),
              ("exo", "K1", "poly:1.5,0,1", 0.0, 6, 80, 1, 1, 5, "level", [], []),
              ("exo", "K2", "poly:0.5,1", 1.0, 6, 64, 0, 1, 9, "qptotal", [], []),
              ("exo", "K3", "poly:1.5,0,1", -0.75, 8, 80, 1, 2, 7, "qptotal", [], []),
              ("exo", "K4", "cos:3.0", 1.0, 5, 80, 1, 2, 3, "level", [1, 2], [0.0, 2.0, -1.0, 3.0])]
    for kind, cid, w, s, nl, nref, sym, d, depth, ty, aw, trans in corpus:
        cases[cid] = {"kind": kind, "weight": w, "shift": s, "levels": nl, "nref": nref, "sym": sym, "dims": d, "depth": depth, "type": ty, "aw": aw,
                      "trans": trans, "line": "exo %s %s %s %d %d %d %s" % (cid, w, fmt(s), nl, nref, sym, tail(d, depth, ty, aw, trans))}
    for variant in ("gl", "glodd"):
        cid = "M" + variant
        cases[cid] = {"kind": "ct", "variant": variant, "io": "mem", "levels": 13, "dims": 1, "depth": 12, "type": "level", "aw": [], "trans": [],
                      "line": "ct %s %s mem 13 1 12 level" % (cid, variant)}
    wants = ["neg", "neg", "neg", "zero", "pos", "pos"]
    i = 0
    while i < n_exo:
        w, wclass, even, touch = r.choice(WEIGHTS)
        want = r.choice(wants)
        s = pick_shift(r, w, touch, want)
        if s is None:
            continue
        d, ty, depth, aw, trans = grid_part(r, tier)
        nl = need_levels(ty, depth, aw, d) + (1 if r.random() < 0.3 else 0)
        nref = r.choice([50, 64, 80, 101])
        sym = 1 if (even and r.random() < 0.6) else 0
        cid = "E%d" % i
        cases[cid] = {"kind": "exo", "weight": w, "shift": s, "levels": nl, "nref": nref, "sym": sym, "dims": d, "depth": depth, "type": ty, "aw": aw,
                      "trans": trans, "line": "exo %s %s %s %d %d %d %s" % (cid, w, fmt(s), nl, nref, sym, tail(d, depth, ty, aw, trans))}
        i += 1
    for i in range(n_ct):
        d, ty, depth, aw, trans = grid_part(r, tier)
        variant = r.choice(["gl", "glodd"])
        if variant == "glodd" and not ("tensor" in ty) and ty not in ("level", "curved", "hyperbolic"):
            pass
        if variant == "glodd" and (ty in ("level", "curved", "hyperbolic") or "tensor" in ty):
            depth = min(depth, 3)
        io = r.choice(["mem", "ascii", "binary", "ascii", "binary"])
        nl = min(need_levels(ty, depth, aw, d) + (1 if r.random() < 0.3 else 0), 13)
        cid = "T%d" % i
        cases[cid] = {"kind": "ct", "variant": variant, "io": io, "levels": nl, "dims": d, "depth": depth, "type": ty, "aw": aw, "trans": trans,
                      "line": "ct %s %s %s %d %s" % (cid, variant, io, nl, tail(d, depth, ty, aw, trans))}
    return cases


def parse(out):
    """driver output -> {id: dict(np, pts, qw, poly, levels=[(l, n, qexact, iexact, x, w)])}, {id: (status, text)}"""
    got, bad = {}, {}
    cur = None
    for line in out.split("\n"):
        t = line.split()
        if not t:
            continue
        if t[0] == "case":
            cur = {"levels": []}
            curid = t[1]
        elif t[0] in ("x", "crash", "hang"):
            bad[t[1]] = (t[0], " ".join(t[2:]))
        elif cur is None:
            continue
        elif t[0] == "np":
            cur["np"] = int(t[1])
        elif t[0] == "pts:":
            cur["pts"] = [float.fromhex(v) for v in t[1:]]
        elif t[0] == "qw:":
            cur["qw"] = [float.fromhex(v) for v in t[1:]]
        elif t[0] == "poly":
            cur["poly"] = [int(v) for v in t[2:]]
        elif t[0] == "lev":
            ix, iw = t.index("x:"), t.index("w:")
            cur["levels"].append((int(t[1]), int(t[2]), int(t[3]), int(t[4]), [float.fromhex(v) for v in t[ix + 1:iw]], [float.fromhex(v) for v in t[iw + 1:]]))
        elif t[0] == "end":
            got[curid] = cur
            cur = None
    return got, bad


def shift_sign(s):
    return "neg" if s < 0 else "pos" if s > 0 else "zero"


def check(res, cases, got, bad, r, st):
    seen = set()

    def report(key, what, c, extra=None):
        st["violations"] += 1
        if key in seen:
            return
        seen.add(key)
        rp = {"kind": "impl-counterexample", "driver": "exoticdrv", "cases": [c["line"]]}
        if extra:
            rp.update(extra)
        res.violation(key, what + " [" + c["line"] + "]", rp)

    mem_tables = {}
    for cid, c in cases.items():
        if c["kind"] == "ct" and c["io"] == "mem" and cid in got:
            for (l, n, qe, ie, x, w) in got[cid]["levels"]:
                mem_tables.setdefault(c["variant"], {}).setdefault(l, (n, qe, x, w))
    for cid, c in cases.items():
        if cid in bad:
            status, text = bad[cid]
            if status == "x":
                st["rejected_by_the_library"] += 1
                st.setdefault("rejections", {})
                k = text[:60]
                st["rejections"][k] = st["rejections"].get(k, 0) + 1
            elif status == "hang":
                st["not_returning_within_the_case_limit_not_judged"] += 1
            else:
                report("exoticdrv-crash", "the case ended with signal/exit %s" % text, c)
            continue
        if cid not in got:
            st["missing"] += 1
            continue
        g = got[cid]
        d = c["dims"]
        exo = c["kind"] == "exo"
        weight = c["weight"] if exo else "poly:1"
        pre = "exotic" if exo else "customtabulated"
        wclass = [x for x in WEIGHTS if x[0] == weight][0][1] if exo else "uniform"
        ssign = shift_sign(c["shift"]) if exo else "zero"
        w, pts = g["qw"], g["pts"]
        npt = len(w)
        if npt == 0 or len(pts) != npt * d or g.get("np") != npt:
            report(pre + "-shape", "getNumPoints %s, %d weights, %d coordinates" % (g.get("np"), npt, len(pts)), c)
            continue
        # ---- one-dimensional levels: exact to the declared getQExact
        lev_bad = False
        for (l, n, qe, ie, x, lw) in g["levels"]:
            if len(x) != n or len(lw) != n:
                report(pre + "-level-shape", "level %d declares %d points, tables have %d nodes / %d weights" % (l, n, len(x), len(lw)), c)
                lev_bad = True
                continue
            for k in range(min(qe, MAXDEG) + 1):
                terms = [lw[i] * x[i] ** k for i in range(n)]
                s, cond = math.fsum(terms), sum(abs(v) for v in terms)
                ex = moment(weight, k)
                e = abs(s - ex) / max(cond, abs(ex), sum(abs(v) for v in lw), 1e-300)
                st["level_moments"] += 1
                st["max_rel_error_levels"] = max(st["max_rel_error_levels"], e)
                if e > TOL:
                    lev_bad = True
                    report(pre + "-level-not-exact", "level %d of the rule (%d points) declares exactness %d but x^%d integrates to %.15g, exact %.15g (rel. %.3g)" % (
                        l, n, qe, k, s, ex, e), c, {"level": l, "degree": k})
                    break
            if not exo and c["io"] != "mem":
                ref = mem_tables.get(c["variant"], {}).get(l)
                if ref is not None:
                    st["io_levels_compared"] += 1
                    if (n, qe, x, lw) != ref:
                        report("customtabulated-io-roundtrip", "level %d of the table read back from its %s form differs from the table that was written" % (l, c["io"]), c)
        # ---- the grid
        jac = 1.0
        if c["trans"]:
            a, b = c["trans"][0::2], c["trans"][1::2]
            xc = [[(2.0 * pts[i * d + j] - (a[j] + b[j])) / (b[j] - a[j]) for j in range(d)] for i in range(npt)]
            jac = math.prod((b[j] - a[j]) / 2.0 for j in range(d))
        else:
            xc = [pts[i * d:(i + 1) * d] for i in range(npt)]
        m0 = moment(weight, 0)
        wabs = sum(abs(v) for v in w)
        if wabs > ILL * max(1.0, abs(jac * m0 ** d)):
            st["ill_conditioned_skipped"] += 1
            continue
        st["grids"] += 1
        if npt >= 5:
            st["nontrivial"] += 1
        for k_, v_ in (("by_weight", weight if exo else "uniform(table)"), ("by_shift_sign", ssign), ("by_dims", str(d)), ("by_type", c["type"]), ("by_kind", c["kind"] + ("" if exo else ":" + c["variant"] + ":" + c["io"]))):
            st[k_][v_] = st[k_].get(v_, 0) + 1
        if c["trans"]:
            st["with_transform"] += 1
        if c["aw"]:
            st["with_anisotropic_weights"] += 1
        if exo and c["sym"]:
            st["symmetric_flag"] += 1
        ws = math.fsum(w)
        exs = jac * m0 ** d
        e = abs(ws - exs) / max(wabs, abs(exs), 1e-300)
        st["max_rel_error_weight_sum"] = max(st["max_rel_error_weight_sum"], e)
        if e > TOL:
            report(pre + "-weights-sum", "the weights sum to %.15g, (int rho)^dims%s = %.15g (rel. %.3g)" % (ws, " x prod (b-a)/2" if c["trans"] else "", exs, e), c)
        poly = g.get("poly", [])
        mons = [poly[i * d:(i + 1) * d] for i in range(len(poly) // d)]
        st["declared_monomials"] += len(mons)
        if len(mons) > 300:
            mons = r.sample(mons, 300)
        maxk = [min(MAXDEG, max([m[j] for m in mons] + [0])) for j in range(d)]
        pw = [[[xc[i][j] ** k for i in range(npt)] for k in range(maxk[j] + 1)] for j in range(d)]
        for m in mons:
            if max(m) > MAXDEG:
                st["monomials_above_degree_%d_skipped" % MAXDEG] = st.get("monomials_above_degree_%d_skipped" % MAXDEG, 0) + 1
                continue
            terms = list(w)
            for j in range(d):
                if m[j]:
                    p = pw[j][m[j]]
                    terms = [terms[i] * p[i] for i in range(npt)]
            s, cond = math.fsum(terms), sum(abs(v) for v in terms)
            ex = jac
            for j in range(d):
                ex *= moment(weight, m[j])
            e = abs(s - ex) / max(cond, abs(ex), wabs, 1e-300)
            st["monomials"] += 1
            ek = "max_rel_error_" + pre
            st[ek][wclass] = max(st[ek].get(wclass, 0.0), e)
            if e > TOL:
                key = "%s-monomial-not-exact:%s.shift-%s" % (pre, wclass, ssign) if exo else "customtabulated-monomial-not-exact:" + c["variant"]
                report(key, "monomial x^%s listed by getGlobalPolynomialSpace(false) integrates to %.15g, exact value %.15g (rel. error %.3g; %d points%s)" % (
                    m, s, ex, e, npt, ", the one-dimensional levels are themselves not exact" if lev_bad else ""), c, {"monomial": m})
                break


def run(res, tier="quick", seed=1):
    t0 = time.time()
    st = {"cases": 0, "grids": 0, "nontrivial": 0, "monomials": 0, "declared_monomials": 0, "level_moments": 0, "violations": 0, "rejected_by_the_library": 0,
          "not_returning_within_the_case_limit_not_judged": 0, "missing": 0, "ill_conditioned_skipped": 0, "io_levels_compared": 0,
          "with_transform": 0, "with_anisotropic_weights": 0, "symmetric_flag": 0,
          "by_weight": {}, "by_shift_sign": {}, "by_dims": {}, "by_type": {}, "by_kind": {},
          "max_rel_error_levels": 0.0, "max_rel_error_weight_sum": 0.0, "max_rel_error_exotic": {}, "max_rel_error_customtabulated": {}}
    res.coverage[COVKEY] = st
    drv, err = vlib.try_build_driver("exoticdrv")
    if drv is None:
        res.violation("exoticdrv-build", "harness/exoticdrv.cpp does not compile against the tree: " + err[-1200:], {"kind": "build-failure", "detail": err[-4000:]}, no_input=True)
        return st
    wd = os.path.join(vlib.BUILD, "work", WORK)
    os.makedirs(wd, exist_ok=True)
    r = vlib.rng(seed, "C02exotic")
    cases = gen_cases(r, tier)
    st["cases"] = len(cases)
    cf = os.path.join(wd, "cases-%s-%d.txt" % (tier, seed))
    with open(cf, "w") as fh:
        fh.write("\n".join(c["line"] for c in cases.values()) + "\n")
    rc, so, se = vlib.run([drv, cf, "30"], timeout=1500)
    if rc != 0:
        res.violation("exoticdrv-crash", "exoticdrv exited with %s: %s" % (rc, (se or "")[-400:]), {"kind": "impl-counterexample", "driver": "exoticdrv",
                                                                                                  "cases": [c["line"] for c in cases.values()][-20:]})
    got, bad = parse(so or "")
    check(res, cases, got, bad, r, st)
    st["tolerance"] = TOL
    st["rule"] = ("exotic rule = random (weight with closed-form moments: 11 polynomials, cos/sin/sinc) x legal shift (negative / zero / positive, touching zero for "
                  "polynomials) x nref in {50,64,80,101} x symmetric flag (even weights only) -> Global grid dims 1-3 x 12 depth types x anisotropic weights x "
                  "linear transform; hand-made Gauss-Legendre tables (n = l+1, 2l+1) in memory / through ASCII / binary; every monomial of "
                  "getGlobalPolynomialSpace(false) (at most 300 sampled per grid, degree <= %d) against the product of exact 1-d moments, weight sum, every level "
                  "of the 1-d rule against its getQExact; non-trivial = grid with at least 5 points" % MAXDEG)
    st["samples"] = [c["line"] for c in list(cases.values())[:3]]
    st["wall_s"] = round(time.time() - t0, 1)
    if st["grids"] == 0 and not res.violations:
        res.violation("exotic-correspondence", "no exotic grid could be read from the driver: " + ((se or so or "")[-300:]),
                      {"kind": "correspondence-break", "correspondence": "exoticdrv"}, no_input=True)
    return st


def replay(path):
    rp = json.load(open(path))
    drv = vlib.build_driver("exoticdrv")
    wd = os.path.join(vlib.BUILD, "work", WORK)
    os.makedirs(wd, exist_ok=True)
    cf = os.path.join(wd, "replay.txt")
    with open(cf, "w") as fh:
        fh.write("\n".join(rp.get("cases", [])) + "\n")
    rc, so, se = vlib.run([drv, cf, "30"], timeout=600)
    print(so)
    return rc


def main():
    tier = sys.argv[1] if len(sys.argv) > 1 and sys.argv[1] in ("quick", "thorough") else "quick"
    seed = int(sys.argv[2]) if len(sys.argv) > 2 else int(os.environ.get("VERIF_SEED", "1") or 1)
    res = vlib.Result(PID, tier, seed, "proof")
    try:
        run(res, tier, seed)
    except vlib.BuildError as e:
        res.violation("exotic-build", "build failed: " + str(e)[:1500], {"kind": "build-failure", "detail": str(e)}, no_input=True)
    wd = os.path.join(vlib.BUILD, "work", WORK)
    os.makedirs(wd, exist_ok=True)
    cov = res.coverage.get(COVKEY, {})
    with open(os.path.join(wd, "evidence-standalone.json"), "w") as fh:
        json.dump({"property_id": PID, "part": "exotic", "tier": tier, "seed": seed, "coverage": cov, "violations": len(res.violations),
                   "known": [k for k, _ in res.known_hit]}, fh, indent=1, default=str)
    for key, text in res.known_hit:
        print("KNOWN-FINDING: property=%s key=%s %s" % (PID, key, text))
    seen = set()
    for v in res.violations:
        if v["key"] in seen:
            continue
        seen.add(v["key"])
        print("DETAIL property=%s key=%s %s" % (PID, v["key"], v["what"][:500].replace("\n", " ")))
        print("VIOLATION property=%s replay=%s%s" % (PID, v["replay"], " no-failing-input-found" if v["no_input"] else ""))
    print("SUMMARY " + json.dumps({k: v for k, v in cov.items() if k not in ("rule", "samples")}, default=str))
    sys.stdout.flush()
    return 1 if res.violations else 0


if __name__ == "__main__":
    sys.exit(main())
