"""C03 — interpolation is exact on the function space spanned by the grid's basis.

Theorems: coq/Props/Properties_C03.v — the combination technique over a lower set reproduces, at ANY evaluation point, every
monomial of the declared interpolation space, for any family of one-dimensional interpolation operators that are exact up to a
monotone degree (any commutative ring; unbounded in dimension, set, degree); hence the interpolation weights sum to one.  For
polynomial interpolation the one-dimensional exactness is a theorem too (Lagrange interpolation at n distinct nodes reproduces
degree < n, Proofs/LagrangeExact.v), which makes c03_sparse_interpolation_exact_unbounded unconditional.
Direct evaluation on the implementation: every (sampled) monomial of getGlobalPolynomialSpace(true) is loaded and must be
reproduced by evaluate() and by the interpolation weights at random points, nodes and boundaries (Global, Sequence); every
trigonometric mode attached to a grid point (Fourier); every affine function (Wavelet; Local Polynomial of order != 0 with
boundary-including rules and depth >= 1); weights sum to one."""
import math
import os

import extie
import c02weights
import c01dag
import gridlib as gl
import vlib

LEVEL = "proof"
PID = "C03"

TRUSTED = [
    "Coq 8.16.1 kernel; no native_compute; axioms: none",
    "Python orchestration, C++ driver harness/tsgdrv.cpp (probe points: random, nodes, node +- support)",
    "modelled: multi-dimensional assembly in exact algebra; NOT modelled: one-dimensional Lagrange caches, node generation, the exactness tables getIExact, "
    "Fourier / Wavelet / Local Polynomial evaluation - the statement is evaluated on the implementation",
    "translator translator/exactness.py (clang JSON AST of OneDimensionalMeta::getNumPoints/getIExact/getQExact -> coq/gen/ExactnessGen.v, compared entry by entry with the compiled library on every run): "
    "monotone tables (hypothesis m_mono), the n-1 / 2n-1 bounds and the instantiation of the sparse theorems with the library table are proved for all levels (Props/Properties_Exactness.v)",
]

TOL = 1e-9
NESTED = [x for x in gl.GLOBAL_NESTED]
NONNESTED = ["chebyshev", "gauss-legendre", "gauss-chebyshev1", "gauss-chebyshev2", "gauss-legendre-odd", "chebyshev-odd"]
MAXOUT = 12


def gen_spec(r, tier):
    fam = r.choice(["global", "global", "sequence", "fourier", "localp", "wavelet"])
    d = r.randint(1, 3)
    spec = {"family": fam, "dims": d, "outs": 1, "ll": []}
    if fam in ("global", "sequence", "fourier"):
        ty = r.choice(gl.DEPTH_TYPES)
        spec["type"] = ty
        spec["ll"] = gl.rand_limits(r, d, 0.25)
        spec["aw"] = gl.rand_aw(r, d, ty) if r.random() < 0.35 else []
        tensor_aw = ("tensor" in ty and bool(spec["aw"]))
        if fam == "global":
            spec["rule"] = r.choice(NESTED + NONNESTED)
            slow = spec["rule"] in ("clenshaw-curtis", "clenshaw-curtis-zero", "fejer2", "gauss-patterson", "rleja-double2", "rleja-double4") or spec["rule"].endswith("-odd")
            if "tensor" in ty:
                spec["depth"] = r.randint(1, 2)
            elif ty in ("level", "curved", "hyperbolic"):
                spec["depth"] = r.randint(1, 2 if slow and d >= 2 else 3)
            else:
                spec["depth"] = r.randint(1, 7 if d == 1 else 5 if d == 2 else 3)
        elif fam == "sequence":
            spec["rule"] = r.choice(gl.SEQUENCE_RULES)
            spec["depth"] = r.randint(1, 2) if "tensor" in ty else (r.randint(1, 4) if ty in ("level", "curved", "hyperbolic") else r.randint(1, 6 if d <= 2 else 4))
        else:
            spec["depth"] = r.randint(1, 2) if ("tensor" in ty or ty in ("level", "curved", "hyperbolic")) else r.randint(1, 5 if d <= 2 else 3)
        if tensor_aw:
            spec["depth"] = 1
    elif fam == "localp":
        spec["rule"] = r.choice(["localp", "semi-localp", "localp-boundary"])
        spec["order"] = r.choice([1, 2, 3, -1, 4]) if spec["rule"] != "semi-localp" else r.choice([2, 3, -1, 4])
        spec["depth"] = r.randint(1, 4 if d <= 2 else 3)
        if r.random() < 0.2:
            spec["ll"] = [r.choice([-1, 1, 2, 3]) for _ in range(d)]
    else:
        spec["order"] = r.choice([1, 3])
        spec["depth"] = r.randint(0, 2 if d <= 2 else 1)
        if r.random() < 0.2:
            spec["ll"] = [r.choice([-1, 0, 1, 2]) for _ in range(d)]
    spec["trans"] = gl.rand_transform(r, spec) if r.random() < 0.25 else None
    return spec


def to_canonical(spec, x, j):
    t = spec.get("trans")
    if not t:
        return x
    a, b = t[0][j], t[1][j]
    if spec["family"] == "fourier":
        return (x - a) / (b - a)
    return (2.0 * x - (a + b)) / (b - a)


def run(res, tier, seed, replay_script=None):
    props = vlib.coq_props(PID)
    vlib.proof_coverage(res, PID, props, "cd coq && make Props/Properties_C03.vo && coqc -Q . TV Props/Properties_C03.v", TRUSTED)
    if replay_script is None:
        # the interpolation weights are the same combination of tensor rules: tensor weights tied exactly (Properties_C02_weights.v)
        c02weights.run(res, tier, seed)
        # Local Polynomial surpluses: computeDAGup (links, is_complete = choice of the Kronecker path) and levels tied white-box on point sets with and without holes
        c01dag.run(res, tier, seed)
    ex_break = extie.run(res, PID)      # the exactness tables re-translated from the source, compared with the library and re-proved monotone / bounded
    proof_broken = (not props["ok"]) or bool(res.coverage["forbidden_tokens"])
    drv = vlib.build_driver("tsgdrv")
    wd = os.path.join(vlib.BUILD, "work", PID)
    os.makedirs(wd, exist_ok=True)
    r = vlib.rng(seed, PID)
    n = {"quick": 260, "thorough": 3500}[tier] * (3 if proof_broken else 1)
    specs = {}
    if replay_script is None:
        for i in range(n):
            specs["I%d" % i] = gen_spec(r, tier)
    else:
        import json as _json
        specs = {k: v for k, v in replay_script.items()}
    # ---- pass 1: points, index sets, declared spaces
    lines1 = []
    for cid, spec in specs.items():
        lines1 += ["case " + cid, gl.make_cmd(spec)]
        if spec.get("trans"):
            lines1.append(gl.trans_cmd(spec["trans"]))
        lines1.append("dump g meta allpoints nidx" + (" polyi" if spec["family"] in ("global", "sequence") else ""))
    rc, cases1, so, se = gl.run_scripts(drv, lines1, wd, "pass1", timeout=1200, case_timeout=30)
    # ---- pass 2: load the test functions (one per output), evaluate
    lines2, funcs = [], {}
    for cid, spec in specs.items():
        steps = cases1.get(cid, [])
        obs = {}
        ok = True
        for st in steps:
            if st.exc is not None:
                ok = False
            obs.update(st.obs)
        if not ok or "allpoints" not in obs:
            continue
        fam, d = spec["family"], spec["dims"]
        pts = obs["allpoints"]
        npt = len(pts) // d
        if npt == 0:
            continue
        xc = [[to_canonical(spec, pts[i * d + j], j) for j in range(d)] for i in range(npt)]
        if fam in ("global", "sequence"):
            polyi = obs.get("polyi", [])
            mons = [tuple(polyi[i * d:(i + 1) * d]) for i in range(len(polyi) // d)]
            mons = [m for m in mons if max(m) <= 40]
            pick = [tuple([0] * d)] + (r.sample(mons, min(len(mons), MAXOUT - 1)) if mons else [])
            if fam == "global" and spec["rule"] == "clenshaw-curtis-zero":
                pick = [m for m in pick if min(m) >= 2] or []
                fl = [("ccz", m) for m in pick]
            else:
                fl = [("mono", m) for m in pick]
        elif fam == "fourier":
            nidx = obs.get("nidx", [])
            idxs = [tuple(nidx[i * d:(i + 1) * d]) for i in range(len(nidx) // d)]
            pick = r.sample(idxs, min(len(idxs), MAXOUT // 2))
            fl = []
            for p in pick:
                k = tuple(((v + 1) // 2) if v % 2 == 1 else -(v // 2) for v in p)
                fl += [("cos", k), ("sin", k)]
        else:
            fl = [("affine", tuple([r.choice([-1.0, 0.5, 2.0, 0.25])] + [r.choice([-1.5, 0.0, 1.0, 0.75]) for _ in range(d)])) for _ in range(3)]
        if not fl:
            continue
        funcs[cid] = fl
        spec["_maxdeg"] = [max([m[j] for m in mons] + [0]) for j in range(d)] if fam in ("global", "sequence") else None

        def fval(f, x):
            kind, p = f
            if kind == "mono":
                v = 1.0
                for j in range(d):
                    if p[j]:
                        v *= x[j] ** p[j]
                return v
            if kind == "ccz":
                v = 1.0
                for j in range(d):
                    v *= (1.0 - x[j] * x[j]) * x[j] ** (p[j] - 2)
                return v
            if kind == "cos":
                return math.cos(2 * math.pi * sum(p[j] * x[j] for j in range(d)))
            if kind == "sin":
                return math.sin(2 * math.pi * sum(p[j] * x[j] for j in range(d)))
            return p[0] + sum(p[j + 1] * x[j] for j in range(d))
        spec["_fval"] = fval
        s2 = dict(spec)
        s2["outs"] = len(fl)
        vals = [fval(f, xc[i]) for i in range(npt) for f in fl]
        spec["_vals"] = vals
        lines2 += ["case " + cid, gl.make_cmd(s2)]
        if spec.get("trans"):
            lines2.append(gl.trans_cmd(spec["trans"]))
        lines2 += ["loadraw g " + " ".join(v.hex() for v in vals), "probe g 5 %d" % r.randint(1, 10 ** 6), "dump g meta", "evalb g x: @", "weights g"]
        if len(fl) >= 2:
            # the same grid object is re-used for a second data set (outputs rotated by one): the surrogate must follow the new data
            M_ = len(fl)
            vals2 = [vals[i * M_ + (k + 1) % M_] for i in range(npt) for k in range(M_)]
            lines2 += ["loadraw g " + " ".join(v.hex() for v in vals2), "evalb g x: @"]
            spec["_reload"] = True
    rc, cases2, so, se = gl.run_scripts(drv, lines2, wd, "pass2", timeout=1500, case_timeout=40)
    if rc != 0:
        res.violation("tsgdrv-crash", "tsgdrv exited with %d: %s" % (rc, se[-400:]), {"kind": "impl-counterexample", "script": lines2[-20:]})

    stats = {"grids": 0, "functions": 0, "evaluations": 0, "violations": 0, "max_err": {}, "max_wsum_err": 0.0}
    fam_count, nontrivial = {}, 0
    for cid, steps in cases2.items():
        spec = specs[cid]
        fam, d = spec["family"], spec["dims"]
        fl, fval = funcs[cid], spec["_fval"]
        script = gl.case_script(lines2, cid)
        replay = {"kind": "impl-counterexample", "script": script, "functions": [list(map(str, f)) for f in fl]}
        obs, bad = {}, False
        evals = []
        for st in steps:
            if st.exc is not None:
                if st.exc[0] == "hang":      # running time / termination is not part of this statement (C08's clause): counted, the case ends
                    stats["slow_calls_skipped"] = stats.get("slow_calls_skipped", 0) + 1
                elif st.exc[0] == "hang" or st.exc[0].startswith("crash"):
                    res.violation("no-return:" + st.cmd.split()[0], "%s -> %s [%s]" % (st.cmd[:80], st.exc, script[1]), replay)
                bad = True
                break
            if "evalb" in st.obs:
                evals.append(st.obs["evalb"])
            obs.update(st.obs)
        if evals:
            obs["evalb"] = evals[0]
        if bad or "evalb" not in obs or "probe" not in obs:
            continue
        X = obs["probe"]
        nx = len(X) // d
        M = len(fl)
        ev = obs["evalb"]
        iw = obs.get("iwall", [])
        npt = int(obs["meta"]["points"])
        if len(ev) != nx * M:
            continue
        fam_count[fam] = fam_count.get(fam, 0) + 1
        stats["grids"] += 1
        stats["functions"] += M
        if npt >= 5:
            nontrivial += 1
        rule = spec.get("rule", fam)
        if len(evals) == 2 and len(evals[1]) == nx * M:
            # second data set (outputs rotated): output k must now reproduce function k+1
            for xi in range(nx):
                xcan = [to_canonical(spec, X[xi * d + j], j) for j in range(d)]
                lam = sum(abs(iw[xi * npt + i]) for i in range(npt)) if len(iw) == nx * npt else 1.0
                for k in range(M):
                    want = fval(fl[(k + 1) % M], xcan)
                    e = abs(evals[1][xi * M + k] - want) / (max(1.0, abs(want)) * max(1.0, lam))
                    k1 = (k + 1) % M
                    first_ok = abs(evals[0][xi * M + k1] - want) / (max(1.0, abs(want)) * max(1.0, lam)) <= TOL   # the grid does reproduce this function
                    if e > TOL and first_ok:
                        stats["violations"] += 1
                        res.violation("reload-not-followed:%s" % fam, "after loading a second data set into the same grid evaluate still returns the first one (or neither): got %.12g, exact %.12g at x=%s [%s]" % (
                            evals[1][xi * M + k], want, X[xi * d:(xi + 1) * d], script[1]), replay)
                        break
                else:
                    continue
                break
        for xi in range(nx):
            xcan = [to_canonical(spec, X[xi * d + j], j) for j in range(d)]
            lam = sum(abs(iw[xi * npt + i]) for i in range(npt)) if len(iw) == nx * npt else 1.0
            for k, f in enumerate(fl):
                want = fval(f, xcan)
                got = ev[xi * M + k]
                scale = max(1.0, abs(want)) * max(1.0, lam)
                e = abs(got - want) / scale
                stats["evaluations"] += 1
                stats["max_err"][rule] = max(stats["max_err"].get(rule, 0.0), e)
                if e > TOL:
                    stats["violations"] += 1
                    key = "not-exact:%s" % (rule if fam in ("global", "sequence") else fam)
                    if f[0] == "ccz" and any(f[1][j] in (3, 5, 9, 17, 33) for j in range(d)):   # a degree 2^(l+1)+1, the claimed top degree of some level
                        key = "iexact-overstated-by-one:clenshaw-curtis-zero"
                    t_ = spec.get("trans")
                    if fam == "wavelet" and spec.get("order") == 3 and t_ and any(X[xi * d + j] in (t_[0][j], t_[1][j]) for j in range(d)):
                        key = "wavelet-order3-boundary-under-transform"
                    res.violation(key,
                                  "%s %s is not reproduced at x=%s: evaluate gives %.12g, exact %.12g (rel. %.3g, Lebesgue sum %.3g) [%s]" % (
                                      f[0], list(f[1]), X[xi * d:(xi + 1) * d], got, want, e, lam, script[1]), replay)
                    break
            else:
                # the interpolation weights at x reproduce every loaded function too (weights . values = exact value), not only their sum
                vals0 = spec.get("_vals", [])
                if len(iw) == nx * npt and len(vals0) == npt * M:
                    for k, f in enumerate(fl):
                        want = fval(f, xcan)
                        gotw = math.fsum(iw[xi * npt + i] * vals0[i * M + k] for i in range(npt))
                        e = abs(gotw - want) / (max(1.0, abs(want)) * max(1.0, lam))
                        if e > TOL:
                            keyw = "weights-not-exact:%s" % (rule if fam in ("global", "sequence") else fam)
                            if f[0] == "ccz" and any(f[1][j] in (3, 5, 9, 17, 33) for j in range(d)):
                                keyw = "iexact-overstated-by-one:clenshaw-curtis-zero"
                            t_ = spec.get("trans")
                            if fam == "wavelet" and spec.get("order") == 3 and t_ and any(X[xi * d + j] in (t_[0][j], t_[1][j]) for j in range(d)):
                                keyw = "wavelet-order3-boundary-under-transform"
                            stats["violations"] += 1
                            res.violation(keyw, "interpolation weights x values of %s %s at x=%s give %.12g, exact %.12g (Lebesgue sum %.3g) [%s]" % (
                                f[0], list(f[1]), X[xi * d:(xi + 1) * d], gotw, want, lam, script[1]), replay)
                            break
                if len(iw) == nx * npt and not (fam == "global" and spec["rule"] == "clenshaw-curtis-zero"):
                    ws = sum(iw[xi * npt + i] for i in range(npt))
                    e = abs(ws - 1.0) / max(1.0, lam)
                    stats["max_wsum_err"] = max(stats["max_wsum_err"], e)
                    if e > TOL:
                        stats["violations"] += 1
                        res.violation("weights-do-not-sum-to-one:%s" % fam, "interpolation weights at x=%s sum to %.15g [%s]" % (X[xi * d:(xi + 1) * d], ws, script[1]), replay)
                        break
                continue
            break
    extie.report(res, ex_break)
    if proof_broken and not res.violations:
        res.violation("proof", "proof obligations of Properties_C03.v no longer check (%d/%d) %s" % (props["discharged"], props["obligations"], res.coverage["forbidden_tokens"][:2]),
                      {"kind": "proof-break", "theorems": props["theorems"], "log": props["log"][-3000:]}, no_input=True)
    res.coverage["calls_not_returning_within_the_case_limit_not_judged"] = stats.get("slow_calls_skipped", 0)
    res.coverage.update({
        "evaluations": stats["evaluations"], "distinct_nontrivial": nontrivial,
        "rule": "grid = random family (Global nested and non-nested rules, Sequence, Fourier, Local Polynomial localp/semi-localp/localp-boundary order != 0 depth >= 1, Wavelet) "
                "x dims 1-3 x depth types x anisotropic weights x limits x linear transform; test functions (one per output): up to 12 sampled monomials of "
                "getGlobalPolynomialSpace(true) / cos and sin of the modes of sampled points / 3 random affine functions; evaluated at probe points (random, nodes, node +- support); "
                "non-trivial = grid with at least 5 points",
        "samples": [gl.case_script(lines2, c)[:3] for c in list(cases2)[:3]],
        "programs": len(cases2), "grids": stats["grids"], "functions_loaded": stats["functions"], "family_distribution": fam_count,
        "max_relative_error_by_rule": stats["max_err"], "max_weight_sum_error": stats["max_wsum_err"], "tolerance": TOL,
        "direct_property_violations": stats["violations"],
    })
    res.assumptions = ["error is measured relative to max(1,|exact|) x max(1, sum of |interpolation weights|) (Lebesgue sum at the point)",
                       "clenshaw-curtis-zero: a listed degree K >= 2 is tested as (1-x^2) x^(K-2)",
                       "Local Polynomial / Wavelet cases with a level limit 0 in some dimension are not generated for localp (affine functions are not representable there)"]


def replay(path):
    import json
    rp = json.load(open(path))
    res = vlib.Result(PID, "quick", rp.get("seed", 1), LEVEL)
    run(res, "quick", rp.get("seed", 1))
    return res.finish()
