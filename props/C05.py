"""C05 — differentiate() returns the gradient (Jacobian) of the surrogate.

Theorems (coq/Props/Properties_C05.v, on the executable model coq/Model/RuleLocal.v of tsgRuleLocalPolynomial.hpp):
the derivative functions are the formal derivatives of the evaluation functions (exact Taylor identities with explicit
polynomial remainders): quadratic and cubic pieces for every rule and point class, the left/right-product algorithm of
diffPWPower for ANY node list (orders > 3 and -1), chain rule through the scaled coordinate, the value returned by
diffSupport for every rule/order/point, product rule across dimensions (unbounded d), linearity over the hierarchical
sum, chain rule through the affine domain transform.
Tie: the model's getNode/getSupport/scaleDiffX/evalRaw/evalSupport/diffSupport vs the C++ templates, every point up to a
bound, all rules, orders -1..6, dyadic abscissae inside / at / beyond the support (harness/unitdrv `rlq`, ocaml/core).
Direct evaluation on the implementation, all five families:
 (i)   exactness on the reproduced space: monomials of getGlobalPolynomialSpace(true) (Global, Sequence), trigonometric
       modes (Fourier), affine / quadratic / level-0 functions (Local Polynomial, Wavelet): differentiate == analytic gradient
 (ii)  6th-order central differences of evaluateBatch with adaptive step and error estimate, away from kinks
 (iii) chain rule: differentiate on the transformed grid == differentiate on the canonical copy at the pulled-back point
       times the Jacobian factor."""
import math
import os

import gridlib as gl
import vlib
import c04treewalk
import rlqtie

LEVEL = "proof"
PID = "C05"

TRUSTED = [
    "Coq 8.16.1 kernel (vm_compute only in the non-vacuity Examples; no native_compute); axioms: none "
    "(Print Assumptions: Closed under the global context for all 16 theorems)",
    "extraction: ExtrOcamlBasic only (runner ocaml/core); OCaml glue ocaml/core_main.ml + common.ml (rationals -> float for the comparison, 1e-12 relative)",
    "C++ drivers harness/unitdrv.cpp (white-box, read-only: RuleLocal templates) and harness/tsgdrv.cpp (public API), g++ -O1 -ffp-contract=off",
    "Python orchestration (analytic gradients of the test functions, finite-difference stencils, kink lattices)",
    "modelled, not verified: RuleLocal::evalRaw/evalSupport/diffSupport/diffPWQuadratic/diffPWCubic/diffPWPower/scaleX/scaleDiffX; "
    "diffBasisSupported and the walkTree accumulation are modelled only as the algebraic product/sum they compute; "
    "NOT modelled (statement evaluated on the implementation only): Global Lagrange derivative cache, Sequence Newton derivative cache, "
    "Fourier differentiate, Wavelet eval<1>/evalDiffBasis, the conformal map",
    "the theorems are over exact rationals: 'derivative' = first-order coefficient of an exact Taylor identity with explicit polynomial remainder; "
    "no statement about binary64 rounding (enters through the tolerances only)",
]

TOL_EXACT = 1e-9
TOL_FD = 1e-5
TOL_CHAIN = 1e-10
EST_MAX = 1e-7
RULE_MAP = {"localp": "localp", "semi-localp": "semilocalp", "localp-zero": "localp0", "localp-boundary": "localpb"}
LAGUERRE = ("gauss-laguerre", "gauss-laguerre-odd")
HERMITE = ("gauss-hermite", "gauss-hermite-odd")


def hx(v):
    return vlib.hexf(v)


def intlog2(i):
    r = 0
    while i > 1:
        i >>= 1
        r += 1
    return r


# ------------------------------------------------------------------------------------------- transforms (mirror the C++ operations)
def tkind(spec):
    if spec["family"] == "fourier":
        return "fourier"
    if spec["family"] == "global" and spec["rule"] in LAGUERRE:
        return "laguerre"
    if spec["family"] == "global" and spec["rule"] in HERMITE:
        return "hermite"
    return "linear"


def pullback(kind, a, b, y):
    """mapTransformedToCanonical, one coordinate, same floating-point operations as the C++"""
    if kind == "laguerre":
        return (y - a) * b
    if kind == "hermite":
        return (y - a) * math.sqrt(b)
    if kind == "fourier":
        return (y - a) / (b - a)
    rate = 2.0 / (b - a)
    shift = (b + a) / (b - a)
    return y * rate - shift


def forward(kind, a, b, x):
    if kind == "laguerre":
        return x / b + a
    if kind == "hermite":
        return x / math.sqrt(b) + a
    if kind == "fourier":
        return x * (b - a) + a
    return x * 0.5 * (b - a) + 0.5 * (b + a)


def jac(kind, a, b):
    if kind == "laguerre":
        return b
    if kind == "hermite":
        return math.sqrt(b)
    if kind == "fourier":
        return 1.0 / (b - a)
    return 2.0 / (b - a)


# ------------------------------------------------------------------------------------------- case generation
def gen_spec(r, tier, fam):
    spec = gl.rand_spec(r, family=fam, max_dims=3, limits_prob=0.0)
    spec["outs"] = r.choice([1, 1, 2, 3])
    spec["ll"] = []
    if "tensor" in spec.get("type", ""):
        spec["aw"] = []          # anisotropic full tensors explode (3^(depth*weight) points per direction)
    d = spec["dims"]
    if fam == "localp":
        spec["rule"] = r.choice(gl.LOCAL_RULES)
        if spec["rule"] == "semi-localp":
            spec["order"] = r.choice([2, 3, -1, 4, 5, -1, 6])
        else:
            spec["order"] = r.choice([1, 2, 3, -1, -1, 4, 5, 6, 0]) if r.random() < 0.95 else 0
        if spec["order"] == 0:
            spec["rule"] = "localp"
        spec["depth"] = r.randint(2, 7) if d == 1 else (r.randint(1, 5) if d == 2 else r.randint(1, 3))
    elif fam == "wavelet":
        spec["order"] = r.choice([1, 3])
        spec["depth"] = r.randint(0, 4) if d == 1 else (r.randint(0, 2) if d == 2 else r.randint(0, 1))
    return spec


def one_d_kinks(spec, canon_pts, canon_sup, pidx, n, d):
    """per dimension: sorted list of canonical abscissae where the surrogate may fail to be smooth (plus the domain ends)"""
    fam = spec["family"]
    lo, hi = gl.canonical_domain(spec)
    out = []
    for j in range(d):
        ks = {lo, hi}
        if fam == "localp":
            for i in range(n):
                c, s = canon_pts[i * d + j], canon_sup[i * d + j]
                for v in (c - s, c, c + s):
                    if lo < v < hi:
                        ks.add(v)
        elif fam == "wavelet":
            w = 1.0
            for i in range(n):
                p = pidx[i * d + j]
                if spec["order"] == 1:
                    if p >= 3:
                        w = min(w, 2.0 ** (-intlog2(p - 1)))
                else:
                    w = min(w, 2.0 ** -9)
                    if p >= 17:
                        w = min(w, 2.0 ** (-(5 + intlog2(p - 1))))
            m = int(round((hi - lo) / w))
            if m <= 4096:
                ks.update(lo + k * w for k in range(m + 1))
            else:
                ks = ("lattice", lo, w)
        out.append(ks if isinstance(ks, tuple) else sorted(ks))
    return out


def pick_midgap(r, kinks, lo, hi):
    """a point of a random kink-free interval, at least a quarter of the gap away from both ends; returns (x, free distance)"""
    if isinstance(kinks, tuple):
        _, l0, w = kinks
        k = r.randrange(int((hi - lo) / w))
        t = r.uniform(0.3, 0.7)
        return l0 + (k + t) * w, min(t, 1 - t) * w
    gaps = [(kinks[i], kinks[i + 1]) for i in range(len(kinks) - 1) if kinks[i + 1] - kinks[i] > 1e-9]
    # prefer small gaps (deep levels) as often as large ones
    a, b = r.choice(gaps)
    t = r.uniform(0.3, 0.7)
    x = a + t * (b - a)
    return x, min(x - a, b - x)


def kink_distance(kinks, x):
    if isinstance(kinks, tuple):
        _, l0, w = kinks
        t = (x - l0) / w
        f = t - math.floor(t)
        return min(f, 1 - f) * w
    return min(abs(x - k) for k in kinks)


def exact_function(r, spec, info):
    """choose a member of the reproduced space: returns dict(kind, params) ; kind in monomial|trig|affine|poly|bubble|hat|one"""
    fam, d, outs = spec["family"], spec["dims"], spec["outs"]
    if fam in ("global", "sequence"):
        pi = info.get("polyi") or []
        exps = [tuple(pi[i:i + d]) for i in range(0, len(pi), d)] or [tuple([0] * d)]
        top = sorted(exps, key=lambda e: -sum(e))[:max(1, len(exps) // 3)]
        ms = [list(r.choice(top if r.random() < 0.6 else exps)) for _ in range(outs)]
        if spec["rule"] == "clenshaw-curtis-zero":
            # the rule interpolates functions that vanish on the boundary: (1 - x^2) x^e in every direction
            return {"kind": "bubblemono", "m": [[max(e - 3, 0) for e in m] for m in ms]}
        return {"kind": "monomial", "m": ms}
    if fam == "fourier":
        idx = info["idx"]
        n = len(idx) // d
        ks = []
        for _ in range(outs):
            p = idx[r.randrange(n) * d:][:d]
            ks.append(([(q // 2 if q % 2 == 0 else -(q + 1) // 2) for q in p], r.choice(["cos", "sin"])))
        return {"kind": "trig", "k": ks}
    if fam == "localp":
        o = spec["order"]
        if o == 0:
            return {"kind": "one"}
        if spec["rule"] == "localp-zero":
            return {"kind": "hat"} if o == 1 else {"kind": "bubble"}
        if o == 1 or spec["depth"] < 2:
            return {"kind": "affine"}
        return {"kind": r.choice(["poly", "poly", "affine"])}
    # wavelet
    if spec["order"] == 3 and r.random() < 0.5:
        return {"kind": "poly"}
    return {"kind": "affine"}


def f_exact(fx, spec, y, x, k):
    """value of output k at the point with transformed coordinates y / canonical coordinates x"""
    kind, d = fx["kind"], spec["dims"]
    if kind == "monomial":
        v = 1.0
        for j in range(d):
            v *= x[j] ** fx["m"][k][j]
        return v
    if kind == "bubblemono":
        v = 1.0
        for j in range(d):
            v *= (1.0 - x[j]) * (1.0 + x[j]) * x[j] ** fx["m"][k][j]
        return v
    if kind == "trig":
        kk, cs = fx["k"][k]
        ph = 2.0 * math.pi * sum(kk[j] * x[j] for j in range(d))
        return math.cos(ph) if cs == "cos" else math.sin(ph)
    if kind == "bubble":
        v = 1.0 + k
        for j in range(d):
            v *= (1.0 - x[j]) * (1.0 + x[j])
        return v
    if kind == "hat":
        v = 1.0 + k
        for j in range(d):
            v *= 1.0 - abs(x[j])
        return v
    return gl.fn_value({"one": "one", "affine": "affine", "poly": "poly"}[kind], y, k)


def g_exact(fx, spec, y, x, k, jacs):
    """analytic gradient with respect to the transformed coordinates"""
    kind, d = fx["kind"], spec["dims"]
    g = [0.0] * d
    if kind == "monomial":
        m = fx["m"][k]
        for j in range(d):
            if m[j] == 0:
                continue
            v = m[j] * x[j] ** (m[j] - 1)
            for i in range(d):
                if i != j:
                    v *= x[i] ** m[i]
            g[j] = v * jacs[j]
    elif kind == "bubblemono":
        m = fx["m"][k]
        fac = [(1.0 - x[i]) * (1.0 + x[i]) * x[i] ** m[i] for i in range(d)]
        for j in range(d):
            v = -2.0 * x[j] * x[j] ** m[j] + ((1.0 - x[j]) * (1.0 + x[j]) * m[j] * x[j] ** (m[j] - 1) if m[j] > 0 else 0.0)
            for i in range(d):
                if i != j:
                    v *= fac[i]
            g[j] = v * jacs[j]
    elif kind == "trig":
        kk, cs = fx["k"][k]
        ph = 2.0 * math.pi * sum(kk[j] * x[j] for j in range(d))
        for j in range(d):
            g[j] = (-math.sin(ph) if cs == "cos" else math.cos(ph)) * 2.0 * math.pi * kk[j] * jacs[j]
    elif kind == "bubble":
        for j in range(d):
            v = (1.0 + k) * (-2.0 * x[j])
            for i in range(d):
                if i != j:
                    v *= (1.0 - x[i]) * (1.0 + x[i])
            g[j] = v * jacs[j]
    elif kind == "hat":
        for j in range(d):
            v = (1.0 + k) * (-1.0 if x[j] >= 0 else 1.0)
            for i in range(d):
                if i != j:
                    v *= 1.0 - abs(x[i])
            g[j] = v * jacs[j]
    elif kind == "affine":
        for j in range(d):
            g[j] = 0.25 * (j + 1) - 0.125 * k
    elif kind == "poly":
        for j in range(d):
            g[j] = (j + 1 + k) + y[j]
        if d > 1:
            g[0] += y[1]
            g[1] += y[0]
    return g


def gen_case(r, cid, tier, fam):
    spec = gen_spec(r, tier, fam)
    trans = gl.rand_transform(r, spec) if r.random() < 0.5 else None
    return spec, trans


def pass1_lines(cid, spec, trans):
    ls = ["case " + cid, gl.make_cmd(spec), "dump g meta allpoints pidx nidx hsupport" + (" polyi" if spec["family"] in ("global", "sequence") else "")]
    if trans:
        ls += [gl.trans_cmd(trans), "dump g allpoints"]
    return ls


MAXPTS = 2500
STENCIL = (1, 2, 3)
NSTEP = 8


def fd_value(vals, h):
    """vals: dict offset -> f; 6th-order central difference"""
    return (45.0 * (vals[1] - vals[-1]) - 9.0 * (vals[2] - vals[-2]) + (vals[3] - vals[-3])) / (60.0 * h)


# regression corpus, always run first: the witness of the wavelet finding (x on a node of the interpolation table) and deep
# one-dimensional local polynomial grids whose points have many phantom ancestors (orders -1 and > 3)
CORPUS = [
    ("corpusW3node", {"family": "wavelet", "dims": 1, "outs": 1, "depth": 1, "order": 3, "ll": []}, None,
     {"fx": {"kind": "affine"}, "extra_x": [[0.0], [0.25], [2.0 ** -9], [-0.5], [0.3]]}),
    ("corpusW3node2d", {"family": "wavelet", "dims": 2, "outs": 2, "depth": 2, "order": 3, "ll": []}, ([-1.0, 0.0], [3.0, 2.0]),
     {"fx": {"kind": "poly"}, "extra_x": [[0.0, -0.5], [0.125, 0.3]]}),
    ("corpusLPm1", {"family": "localp", "dims": 1, "outs": 1, "depth": 8, "order": -1, "rule": "localp", "ll": []}, None, {}),
    ("corpusSLP6", {"family": "localp", "dims": 1, "outs": 2, "depth": 7, "order": 6, "rule": "semi-localp", "ll": []}, ([2.0], [5.0]), {}),
    ("corpusLP0m1", {"family": "localp", "dims": 2, "outs": 1, "depth": 5, "order": -1, "rule": "localp-zero", "ll": []}, None, {}),
    ("corpusLPB4", {"family": "localp", "dims": 3, "outs": 3, "depth": 3, "order": 4, "rule": "localp-boundary", "ll": []}, ([0.0, -1.0, -3.0], [1.0, 1.0, 1.0]), {}),
]


def build_case(r, cid, spec, trans, steps, tier, force=None):
    """from the pass-1 observations build the pass-2 script and the metadata needed to judge it"""
    fam, d, outs = spec["family"], spec["dims"], spec["outs"]
    o1 = steps[1].obs if len(steps) > 1 else {}
    if "meta" not in o1 or steps[0].exc is not None:
        return None
    canon = o1.get("allpoints", [])
    n = len(canon) // d
    if n == 0:
        return None
    idx = o1.get("pidx") or o1.get("nidx") or []
    info = {"polyi": o1.get("polyi"), "idx": idx}
    kind = tkind(spec)
    if trans:
        tpts = steps[3].obs.get("allpoints", []) if len(steps) > 3 else []
        if len(tpts) != len(canon):
            return None
        A, B = trans
    else:
        tpts = canon
        A, B = None, None
    jacs = [jac(kind, A[j], B[j]) if trans else 1.0 for j in range(d)]
    lo, hi = gl.canonical_domain(spec)
    kinks = one_d_kinks(spec, canon, o1.get("hsupport", []), idx, n, d) if fam in ("localp", "wavelet") else [[lo, hi]] * d

    def to_y(x):
        return [forward(kind, A[j], B[j], x[j]) if trans else x[j] for j in range(d)]

    def to_x(y):
        return [pullback(kind, A[j], B[j], y[j]) if trans else y[j] for j in range(d)]

    # ---- probe points (canonical), with the kink-free distance per dimension
    nprobe = 4 if tier == "quick" else 6
    probes = []
    for _ in range(nprobe):
        x, free = [], []
        for j in range(d):
            if fam in ("localp", "wavelet"):
                v, fr = pick_midgap(r, kinks[j], lo, hi)
            else:
                v = r.uniform(lo + 0.05 * (hi - lo), hi - 0.05 * (hi - lo))
                fr = min(v - lo, hi - v)
            x.append(v)
            free.append(fr)
        y = to_y(x)
        xb = to_x(y)
        # the free distance is re-measured at the pulled-back point the library will actually use
        if fam in ("localp", "wavelet"):
            free = [kink_distance(kinks[j], xb[j]) for j in range(d)]
        probes.append({"y": y, "x": xb, "free": free})
    # extra points for the exactness route: some nodes and some node +- support points that are interior
    extra = []
    fx = exact_function(r, spec, info)
    force = force or {}
    if "fx" in force:
        fx = force["fx"]
    for xc in force.get("extra_x", []):
        y = to_y(xc)
        extra.append({"y": y, "x": to_x(y), "free": None})
    if fx["kind"] not in ("hat", "one"):
        cand = []
        for _ in range(4):
            i = r.randrange(n)
            cand.append(list(tpts[i * d:(i + 1) * d]))
        sup = o1.get("hsupport", [])
        if fam in ("localp", "wavelet") and len(sup) == n * d and not trans:
            for _ in range(4):
                i, j = r.randrange(n), r.randrange(d)
                pt = list(canon[i * d:(i + 1) * d])
                pt[j] += r.choice([-1.0, 1.0]) * sup[i * d + j]
                cand.append(pt)
        for y in cand:
            xb = to_x(y)
            if kind == "hermite":
                inside = True
            elif kind == "laguerre":
                inside = all(xb[j] > 1e-6 for j in range(d))
            else:
                inside = all(lo + 1e-6 * (hi - lo) < xb[j] < hi - 1e-6 * (hi - lo) for j in range(d))
            if inside:
                extra.append({"y": y, "x": xb, "free": None})
    # ---- script
    ls = ["case " + cid, gl.make_cmd(spec)]
    if trans:
        ls.append(gl.trans_cmd(trans))
    # (i) exactness
    vals = []
    for i in range(n):
        y = tpts[i * d:(i + 1) * d]
        x = canon[i * d:(i + 1) * d]
        for k in range(outs):
            vals.append(f_exact(fx, spec, y, x, k))
    if fx["kind"] in ("affine", "poly", "one"):
        ls.append("load g " + fx["kind"])
    else:
        ls.append("loadraw g " + " ".join(hx(v) for v in vals))
    pa = probes + extra
    ls.append("evalb g x: " + " ".join(hx(v) for p in pa for v in p["y"]))
    for p in pa:
        ls.append("diff g x: " + " ".join(hx(v) for v in p["y"]))
    # (ii) finite differences on a generic surrogate
    fn2 = r.choice(["smooth", "smooth", "poly", "hash"])
    ls.append("load g " + fn2)
    ls.append("dump g values")
    for p in probes:
        ls.append("diff g x: " + " ".join(hx(v) for v in p["y"]))
    sten = []
    for p in probes:
        p["h"] = []
        for j in range(d):
            width = hi - lo
            hmax = min(0.08 * width, p["free"][j] / 3.5)
            hy = hmax / jacs[j]
            p["h"].append(hy)
            for s in range(NSTEP):
                hh = hy * (0.5 ** s)
                for off in (-3, -2, -1, 1, 2, 3):
                    q = list(p["y"])
                    q[j] = p["y"][j] + off * hh
                    sten += q
    ls.append("evalb g x: " + " ".join(hx(v) for v in sten))
    # (iii) chain rule against the canonical copy
    if trans:
        ls += ["copy h g", "cleartrans h"]
        for p in probes:
            ls.append("diff h x: " + " ".join(hx(v) for v in p["x"]))
    meta = {"spec": spec, "trans": trans, "fx": fx, "fn2": fn2, "probes": probes, "extra": extra, "jacs": jacs, "n": n,
            "vscale_exact": max([1.0] + [abs(v) for v in vals]), "kind": kind, "kinks": kinks}
    return ls, meta


def fam_key(spec):
    fam = spec["family"]
    if fam == "localp":
        o = spec["order"]
        oc = "order%d" % o if o in (0, 1, 2, 3) else ("order-1" if o < 0 else "order>3")
        return "localp:%s:%s" % (spec["rule"], oc)
    if fam == "wavelet":
        return "wavelet:order%d" % spec["order"]
    if fam in ("global", "sequence"):
        return "%s:%s" % (fam, spec["rule"])
    return fam


def judge_case(res, cid, script, meta, steps, stats):
    spec, trans, fx, probes, extra, jacs = meta["spec"], meta["trans"], meta["fx"], meta["probes"], meta["extra"], meta["jacs"]
    fam, d, outs = spec["family"], spec["dims"], spec["outs"]
    lo, hi = gl.canonical_domain(spec)
    fk = fam_key(spec)
    replay = {"kind": "impl-counterexample", "script": script}

    def viol(key, what):
        stats["violations"] += 1
        res.violation(key, "%s [%s%s]" % (what, script[1], (" ; " + script[2]) if trans else ""), dict(replay, detail=what, case=cid, tier=stats["tier"]))

    for st in steps:
        if st.exc is not None:
            t = st.cmd.split()
            if st.exc[0] == "hang":      # running time is not part of the statement: the case ends, counted
                stats["cases_cut_short_by_a_slow_call"] = stats.get("cases_cut_short_by_a_slow_call", 0) + 1
                return
            if st.exc[0].startswith("crash") or st.exc[0].startswith("other"):
                viol("crash:" + t[0] + ":" + fam, "%s -> %s" % (st.cmd[:80], st.exc))
                return
            if t[0] in ("diff", "evalb", "load", "loadraw", "make", "trans", "copy"):
                viol("unexpected-exception:%s:%s" % (t[0], fam), "%s -> %s" % (st.cmd[:80], st.exc))
                return
    it = iter(steps)
    st = next(it)                       # make
    if trans:
        st = next(it)
    st = next(it)                       # load exact
    pa = probes + extra
    ev = next(it).obs.get("evalb", [])
    diffs = [next(it).obs.get("diff", []) for _ in pa]
    widths = [(hi - lo) / jacs[j] for j in range(d)]
    st = next(it)                       # load fn2
    values = next(it).obs.get("values", [])
    vscale = max([1.0] + [abs(v) for v in values])
    diffs2 = [next(it).obs.get("diff", []) for _ in probes]
    sten = next(it).obs.get("evalb", [])
    diffs3 = []
    if trans:
        next(it)
        next(it)
        diffs3 = [next(it).obs.get("diff", []) for _ in probes]

    # ---- (i) exactness
    def route_exact():
        if len(ev) != len(pa) * outs:
            return
        vs = meta["vscale_exact"]
        for pi_, p in enumerate(pa):
            for k in range(outs):
                f = f_exact(fx, spec, p["y"], p["x"], k)
                vs = max(vs, abs(f))
        for pi_, p in enumerate(pa):
            for k in range(outs):
                f = f_exact(fx, spec, p["y"], p["x"], k)
                if not abs(ev[pi_ * outs + k] - f) <= 1e-9 * vs:
                    stats["exact_not_reproduced"][fk + ":" + fx["kind"]] = stats["exact_not_reproduced"].get(fk + ":" + fx["kind"], 0) + 1
                    return
        stats["exact_cases"] += 1
        stats["exact_by_family"][fam] = stats["exact_by_family"].get(fam, 0) + 1
        seen = set()
        for pi_, p in enumerate(pa):
            if fx["kind"] == "hat" and any(abs(p["x"][j]) < 1e-9 for j in range(d)):
                continue
            dv = diffs[pi_]
            if len(dv) != outs * d:
                viol("differentiate-size:" + fam, "differentiate returned %d numbers for %d outputs x %d dimensions" % (len(dv), outs, d))
                return
            for k in range(outs):
                g = g_exact(fx, spec, p["y"], p["x"], k, jacs)
                for j in range(d):
                    scale = max(abs(g[j]), vs / widths[j], max(abs(t) for t in g))
                    e = abs(dv[k * d + j] - g[j]) / scale
                    stats["exact_evals"] += 1
                    if not e <= TOL_EXACT:
                        key = "exactness:" + fk
                        if fam == "wavelet" and spec["order"] == 3 and any(kink_distance(meta["kinks"][q], p["x"][q]) < 1e-13 for q in range(d)):
                            # input class: a coordinate of x lies exactly on a node of the interpolation table of the cubic wavelets
                            key = "exactness:wavelet:order3:x-on-interpolation-table-node"
                        stats["max"]["violating:" + key] = max(stats["max"].get("violating:" + key, 0.0), e)
                        if key not in seen:
                            seen.add(key)
                            viol(key, "differentiate of the exactly reproduced %s function is %r, analytic %r (relative %.3g) for output %d, dimension %d at x=%s"
                                 % (fx["kind"], dv[k * d + j], g[j], e, k, j, p["y"]))
                    else:
                        stats["max"]["exact:" + fam] = max(stats["max"].get("exact:" + fam, 0.0), e)

    # ---- (ii) finite differences
    def route_fd():
        pos = 0
        case_fd = 0
        bad = False
        for pi_, p in enumerate(probes):
            for j in range(d):
                D = []
                for s in range(NSTEP):
                    hh = p["h"][j] * (0.5 ** s)
                    block = sten[pos:pos + 6 * outs]
                    pos += 6 * outs
                    if len(block) < 6 * outs:
                        return
                    Ds = []
                    for k in range(outs):
                        vals = {off: block[oi * outs + k] for oi, off in enumerate((-3, -2, -1, 1, 2, 3))}
                        Ds.append(fd_value(vals, hh))
                    D.append(Ds)
                for k in range(outs):
                    ests = [abs(D[s][k] - D[s + 1][k]) for s in range(NSTEP - 1)]
                    sb = min(range(NSTEP - 1), key=lambda s: ests[s])
                    est, fd = ests[sb], D[sb + 1][k]
                    dv = diffs2[pi_][k * d + j] if len(diffs2[pi_]) == outs * d else float("nan")
                    scale = max(abs(fd), abs(dv) if dv == dv else 0.0, vscale / widths[j])
                    if not est < EST_MAX * scale:
                        stats["fd_skipped_estimate"] += 1
                        stats["fd_skipped_by"][fk + ":" + meta["fn2"]] = stats["fd_skipped_by"].get(fk + ":" + meta["fn2"], 0) + 1
                        continue
                    e = abs(fd - dv) / scale
                    stats["fd_evals"] += 1
                    case_fd += 1
                    if not e <= TOL_FD:
                        if not bad:
                            viol("finite-difference:" + fk, "differentiate = %r but the 6th-order central difference of evaluateBatch is %r (estimate %.2g, relative difference %.3g) output %d dimension %d at x=%s, values %s"
                                 % (dv, fd, est, e, k, j, p["y"], meta["fn2"]))
                        bad = True
                    else:
                        stats["max"]["fd:" + fam] = max(stats["max"].get("fd:" + fam, 0.0), e)
        if case_fd:
            stats["fd_cases"] += 1
            stats["fd_by_family"][fam] = stats["fd_by_family"].get(fam, 0) + 1

    # ---- (iii) chain rule
    def route_chain():
        for pi_, p in enumerate(probes):
            dh, dg = diffs3[pi_], diffs2[pi_]
            if len(dh) != outs * d or len(dg) != outs * d:
                continue
            for k in range(outs):
                for j in range(d):
                    want = dh[k * d + j] * jacs[j]
                    scale = max(abs(want), abs(dg[k * d + j]), vscale / widths[j])
                    e = abs(dg[k * d + j] - want) / scale
                    stats["chain_evals"] += 1
                    if not e <= TOL_CHAIN:
                        viol("chain-rule:%s:%s" % (fam, meta["kind"]), "differentiate on the transformed grid gives %r, canonical gradient x Jacobian factor gives %r (relative %.3g) output %d dimension %d at y=%s"
                             % (dg[k * d + j], want, e, k, j, p["y"]))
                        return
                    stats["max"]["chain:" + fam] = max(stats["max"].get("chain:" + fam, 0.0), e)
        stats["chain_cases"] += 1

    route_exact()
    route_fd()
    if trans:
        route_chain()


# ------------------------------------------------------------------------------------------- correspondence (model vs C++ templates)
def lp_node_support(rule, p):
    if rule in ("localp", "semilocalp"):
        node = 0.0 if p == 0 else (-1.0 if p == 1 else (1.0 if p == 2 else (2 * p - 1) / float(1 << intlog2(p - 1)) - 3.0))
        if rule == "localp":
            sup = 1.0 if p == 0 else 1.0 / float(1 << intlog2(p - 1))
        else:
            sup = 1.0 if p == 0 else (2.0 if p <= 2 else 1.0 / float(1 << intlog2(p - 1)))
    elif rule == "localp0":
        node = (2 * p + 3) / float(1 << intlog2(p + 1)) - 3.0
        sup = 1.0 / float(1 << intlog2(p + 1))
    else:
        node = -1.0 if p == 0 else (1.0 if p == 1 else (0.0 if p == 2 else (2 * p - 1) / float(1 << intlog2(p - 1)) - 3.0))
        sup = 2.0 if p <= 1 else 1.0 / float(1 << intlog2(p - 1))
    return node, sup


def rlq_cases(r, tier):
    maxp = {"quick": 220, "thorough": 1000}[tier]
    lines = []
    for rule in ("localp", "semilocalp", "localp0", "localpb"):
        for order in (-1, 1, 2, 3, 4, 5, 6):
            if rule == "semilocalp" and order == 1:
                continue
            pts = list(range(0, 40)) + sorted(r.sample(range(40, maxp * 8), maxp - 40))
            for p in pts:
                node, sup = lp_node_support(rule, p)
                ts = [-1.25, -1.0, -0.875, -0.5, -0.25, 0.0, 0.125, 0.375, 0.75, 0.9375, 1.0, 1.5]
                xs = [node + t * sup for t in ts] + [r.randrange(-64, 65) / 64.0]
                xs = [x for x in xs if -1.0 <= x <= 1.0]
                lines.append("rlq %s %d %d %d x: %s" % (rule, order, p, p, " ".join(hx(x) for x in xs)))
    return lines


def run(res, tier, seed, only=None):
    props = vlib.coq_props(PID)
    vlib.proof_coverage(res, PID, props, "cd coq && make Props/Properties_C05.vo && coqc -Q . TV Props/Properties_C05.v", TRUSTED)
    proof_broken = (not props["ok"]) or bool(res.coverage["forbidden_tokens"])
    ok_ext, elog = vlib.coq_make(["Extract/ExtractCore.vo"])
    runner = vlib.ocaml_runner("core") if ok_ext else None
    udrv, uerr = vlib.try_build_driver("unitdrv")
    drv = vlib.build_driver("tsgdrv")
    wd = os.path.join(vlib.BUILD, "work", PID)
    os.makedirs(wd, exist_ok=True)
    r = vlib.rng(seed, PID)
    mism, agree = [], 0

    # ---- tie: RuleLocal model vs the C++ templates
    ucases = rlq_cases(r, tier)      # always drawn: the case stream below must not depend on the mode
    if not only:
        if udrv is None:
            mism.append("white-box driver unitdrv no longer compiles against the source: " + uerr[-400:])
        else:
            import concurrent.futures as cf
            nchunk = max(1, min(vlib.NCPU, 16))
            chunks = [ucases[i::nchunk] for i in range(nchunk)]

            def one(ci):
                ucf = os.path.join(wd, "rlq%d.txt" % ci)
                open(ucf, "w").write("\n".join(chunks[ci]) + "\n")
                rc, so, se = vlib.run([udrv, ucf], timeout=900)
                open(os.path.join(wd, "rlq%d.out" % ci), "w").write(so)
                if rc != 0:
                    return ("crash", "unitdrv exited with %d %s" % (rc, se[-300:]), ucf)
                if not runner:
                    return ("ok", "", ucf)
                rc2, mo, me = vlib.run([runner, ucf, os.path.join(wd, "rlq%d.out" % ci)], timeout=1500)
                return ("ran", mo + ("\nMISMATCH core runner failed on the rlq cases: " + me[-300:] if rc2 != 0 else ""), ucf)
            with cf.ThreadPoolExecutor(nchunk) as ex:
                for kind_, text, ucf in ex.map(one, range(nchunk)):
                    if kind_ == "crash":
                        res.violation("unitdrv-crash", text, {"kind": "impl-counterexample", "cases": ucf})
                    for line in text.split("\n"):
                        if line.startswith("MISMATCH"):
                            mism.append(line[:400])
                        elif line.startswith("agree"):
                            agree += int(line.split()[1])
    vlib.log("[C05] tie done agree=%d mism=%d t=%.1fs" % (agree, len(mism), __import__("time").time() - res.t0))
    # ---- direct evaluation
    ncase = {"quick": 1600, "thorough": 10000}[tier] * (3 if proof_broken else 1)
    cases = {}
    fams = gl.FAMILIES
    p1 = []
    for cid, spec, trans, force in CORPUS:
        if only and cid != only:
            continue
        cases[cid] = {"spec": spec, "trans": trans, "force": force}
        p1 += pass1_lines(cid, spec, trans)
    for i in range(ncase):
        cid = "d%d" % i
        fam = fams[i % len(fams)] if i < 3 * len(fams) else r.choice(["global", "sequence", "localp", "localp", "wavelet", "fourier"])
        spec, trans = gen_case(r, cid, tier, fam)
        if only and cid != only:
            continue
        cases[cid] = {"spec": spec, "trans": trans}
        p1 += pass1_lines(cid, spec, trans)
    # size guard: grids with more than MAXPTS points are skipped (counted), before anything large is printed
    p0 = []
    for cid, c in cases.items():
        p0 += ["case " + cid, gl.make_cmd(c["spec"]), "dump g meta"]
    rc, obs0, so, se = gl.run_scripts(drv, p0, wd, "pass0", timeout=1500, case_timeout=30)
    too_large = 0
    keep = set()
    for cid in cases:
        st0 = obs0.get(cid, [])
        m0 = st0[1].obs.get("meta") if len(st0) > 1 else None
        if m0 is not None and int(m0["points"]) > MAXPTS:
            too_large += 1
        else:
            keep.add(cid)
    cases = {cid: c for cid, c in cases.items() if cid in keep}
    p1 = []
    for cid, c in cases.items():
        p1 += pass1_lines(cid, c["spec"], c["trans"])
    rc, obs1, so, se = gl.run_scripts(drv, p1, wd, "pass1", timeout=1500, case_timeout=30)
    if rc != 0:
        res.violation("tsgdrv-crash", "tsgdrv exited with %d: %s" % (rc, se[-400:]), {"kind": "impl-counterexample", "script": p1[-20:]})
    vlib.log("[C05] pass1 done t=%.1fs" % (__import__("time").time() - res.t0))
    p2, metas, scripts = [], {}, {}
    for cid, c in cases.items():
        steps = obs1.get(cid, [])
        rr = vlib.rng(seed, PID, cid)
        built = build_case(rr, cid, c["spec"], c["trans"], steps, tier, c.get("force"))
        if built is None:
            bad = [s for s in steps if s.exc is not None]
            if bad and (bad[0].exc[0] == "hang" or bad[0].exc[0].startswith("crash")):
                res.violation("crash:make:" + c["spec"]["family"], "%s -> %s" % (bad[0].cmd, bad[0].exc), {"kind": "impl-counterexample", "script": pass1_lines(cid, c["spec"], c["trans"])})
            continue
        ls, meta = built
        scripts[cid], metas[cid] = ls, meta
        p2 += ls
    rc, obs2, so, se = gl.run_scripts(drv, p2, wd, "pass2", timeout=2400, case_timeout=60)
    if rc != 0:
        res.violation("tsgdrv-crash", "tsgdrv exited with %d: %s" % (rc, se[-400:]), {"kind": "impl-counterexample", "script": p2[-20:]})
    vlib.log("[C05] pass2 done t=%.1fs" % (__import__("time").time() - res.t0))
    stats = {"tier": tier, "violations": 0, "exact_cases": 0, "exact_evals": 0, "exact_not_reproduced": {}, "exact_by_family": {}, "fd_cases": 0, "fd_evals": 0,
             "fd_skipped_estimate": 0, "fd_skipped_by": {}, "fd_by_family": {}, "chain_cases": 0, "chain_evals": 0, "max": {}}
    dist, nontrivial = {}, 0
    for cid, meta in metas.items():
        steps = obs2.get(cid, [])
        if not steps:
            continue
        before = (stats["exact_evals"], stats["fd_evals"])
        try:
            judge_case(res, cid, scripts[cid], meta, steps, stats)
        except StopIteration:
            res.violation("incomplete-output:" + meta["spec"]["family"], "the driver did not complete the case %s" % scripts[cid][1],
                          {"kind": "impl-counterexample", "script": scripts[cid]})
        k = fam_key(meta["spec"])
        dist[k] = dist.get(k, 0) + 1
        if stats["exact_evals"] > before[0] and stats["fd_evals"] > before[1]:
            nontrivial += 1

    # the tree walk of differentiate / derivative sparse rows (walkTree modes 3 and 4): visited sequences and gradients vs the extracted model
    if not only:
        c04treewalk.run_diff(res, tier, seed)
    # getNode / getSupport / scaleDiffX re-translated from the current header, re-proved equal to the model (scaleDiffX = 1 / support is the chain-rule factor)
    rlq_break = rlqtie.run(res, PID) if not only else None
    if mism and not res.violations:
        res.violation("correspondence", "RuleLocal model and implementation disagree on %d points, e.g. %s" % (len(mism), mism[0][:300]),
                      {"kind": "correspondence-break", "correspondence": "Model.RuleLocal getNode/getSupport/scaleDiffX/evalRaw/evalSupport/diffSupport vs RuleLocal:: templates",
                       "examples": mism[:10]}, no_input=True)
    if rlq_break is not None:
        rlqtie.report(res, rlq_break)
    if proof_broken and not res.violations:
        res.violation("proof", "proof obligations of Properties_C05.v no longer check (%d/%d) %s" % (props["discharged"], props["obligations"], res.coverage["forbidden_tokens"][:2]),
                      {"kind": "proof-break", "theorems": props["theorems"], "log": props["log"][-3000:]}, no_input=True)
    if not ok_ext and not res.violations:
        res.violation("extraction", "extraction of the model failed", {"kind": "proof-break", "log": elog[-2000:]}, no_input=True)

    res.coverage.update({
        "evaluations": len(metas), "distinct_nontrivial": nontrivial,
        "rule": "case = make (family round-robin then random; random rule/dims 1-3/outputs 1-3/depth/order incl. -1, 0, 4, 5, 6; half of the cases with a random "
                "linear domain transform); probe points are drawn in kink-free intervals of the surrogate (Local Polynomial: node, node +- support; Wavelet: the dyadic "
                "lattice of the piecewise definitions) plus nodes and node +- support points for the exactness route; three routes per case: (i) load a member of the "
                "reproduced space and compare differentiate with the analytic gradient (only when evaluateBatch reproduces the function at the probes), (ii) load "
                "smooth/poly/hash values and compare with 6th-order central differences of evaluateBatch (5 step sizes, accepted when two consecutive steps agree to 1e-7), "
                "(iii) transformed grid vs canonical copy times Jacobian factor; non-trivial = at least one accepted exactness comparison AND one accepted finite-difference comparison; "
                "cases are distinct by construction (different random grid / probes)",
        "samples": [scripts[c][:6] for c in list(scripts)[:2]],
        "programs": len(metas), "traces_validated_against_impl": agree, "disagreements_checked": len(mism),
        "correspondence": {"rule_local_point_records_agreeing": agree, "mismatches": len(mism)},
        "input_distribution": dist, "skipped_grid_too_large": too_large,
        "exactness": {"cases_reproduced": stats["exact_cases"], "comparisons": stats["exact_evals"], "by_family": stats["exact_by_family"],
                      "not_reproduced_skipped": stats["exact_not_reproduced"], "tolerance": TOL_EXACT},
        "finite_differences": {"cases": stats["fd_cases"], "comparisons": stats["fd_evals"], "by_family": stats["fd_by_family"],
                               "skipped_error_estimate_too_large": stats["fd_skipped_estimate"], "skipped_by_class": stats["fd_skipped_by"], "tolerance": TOL_FD, "estimate_bound": EST_MAX},
        "chain_rule": {"cases": stats["chain_cases"], "comparisons": stats["chain_evals"], "tolerance": TOL_CHAIN},
        "max_relative_difference": stats["max"], "direct_property_violations": stats["violations"],
    })
    res.assumptions = [
        "exactness is judged only when evaluateBatch reproduces the loaded function at the probe points to 1e-9 (membership in the reproduced space is C03's subject)",
        "finite differences: a comparison counts only when two consecutive step sizes agree to 1e-7 relative; otherwise it is skipped and counted",
        "relative differences are scaled by max(|gradient entry|, max|loaded value| / domain width)",
        "points on the domain boundary are excluded (the property speaks of interior points); conformal transforms are not part of this property",
    ]


def replay(path):
    import json
    rp = json.load(open(path))
    tier = rp.get("tier", "quick")
    res = vlib.Result(PID, tier, rp.get("seed", 1), LEVEL)
    if rp.get("driver") == "walkdrv":
        c04treewalk.run_diff(res, "quick", rp.get("seed", 1), replay_script=rp.get("script"))
        return res.finish()
    run(res, tier, rp.get("seed", 1), only=rp.get("case"))
    return res.finish()
