"""C01 — the interpolant reproduces the loaded model values at every loaded point.

Theorems: coq/Props/Properties_C01.v — generic hierarchical interpolation over any commutative ring reproduces its nodal
values (hier_reproduces); the Local Polynomial instance UNBOUNDED: every well-formed parent-complete point set of every binary
rule, order and dimension reproduces (c01_localpoly_complete_unbounded), every grid of makeLocalPolynomialGrid is such a set
(c01_standard_grids_unbounded, the model of the point set is compared with the implementation's points); the decidable certificate
hier_cert for any other point set (evaluated by the extracted model on every implementation grid); Sequence grids for every index
set and node sequence; value association over all histories (from C07).
Ties: exact surpluses / evaluation of the extracted model (rationals) vs getHierarchicalCoefficients / evaluate of the
implementation on the same indexes and values.  Direct evaluation: evaluate / evaluateBatch / evaluateFast at every
loaded point vs the loaded values, all five families, after load / refinement / construction histories."""
import os

import gridlib as gl
import rltie
import c01global
import c01dag
import c02bridge
import vlib

LEVEL = "proof"
PID = "C01"

TRUSTED = [
    "Coq 8.16.1 kernel; no native_compute",
    "axioms: none (Print Assumptions: Closed under the global context)",
    "extraction: ExtrOcamlBasic + ExtrOcamlZBigInt (Z/positive/N -> zarith Big_int_Z with the Extract Inductive/Constant directives of that standard-library file) for the runner only; Qc is extracted as Q with Qred",
    "OCaml glue ocaml/corefast_main.ml, Python orchestration, C++ driver harness/tsgdrv.cpp",
    "modelled, not verified: GridLocalPolynomial surplus computation (computeDAGup links to the nearest present ancestor + ancestor walk: Model/LocalGridUp.v, "
    "proved equal to the simpler Model/LocalGrid.v on every parent-complete set; the Kronecker path for d>=3 is tied numerically only), "
    "RuleLocal basis functions; Global/Sequence/Wavelet/Fourier mechanisms are NOT modelled: for them only the statement is evaluated on the implementation",
    "the hypotheses of the reproduction theorem (unit diagonal, zero outside the visited ancestors, topological order) are PROVED for every parent-complete "
    "set of the binary rules (all orders, dimensions); for incomplete sets and the order-0 rule they are checked by the extracted certificate on every grid the run visits",
    "translator translator/rulelocal.py (clang JSON AST of tsgRuleLocalPolynomial.hpp / tsgMathUtils.hpp -> coq/gen/RuleLocalGen.v; rules R1-R6 in the generated header; stops on unknown shapes): "
    "the integer hierarchy functions are regenerated on every run and proved equal to Model/RuleLocal.v for all non-negative points (Props/Properties_RuleLocalGen.v)",
]

TOL = {"global": 1e-9, "sequence": 1e-9, "localp": 1e-11, "wavelet": 1e-8, "fourier": 1e-9}
RULE_MAP = {"localp": "localp", "semi-localp": "semilocalp", "localp-zero": "localp0", "localp-boundary": "localpb"}


def wavelet_parent(order, p):
    if order == 1:
        if p <= 2:
            return -1
        if p <= 4:
            return -2
    else:
        if p <= 4:
            return -1
        if p <= 8:
            return -2
    return (p + 1) // 2


def wavelet_complete(order, d, pidx):
    """every point has its hierarchical parents (RuleWavelet::getParent; -2 = all level-0 nodes) in the set"""
    pts = set(tuple(pidx[i:i + d]) for i in range(0, len(pidx), d))
    lvl0 = range(3) if order == 1 else range(5)
    for p in pts:
        for j in range(d):
            pa = wavelet_parent(order, p[j])
            if pa == -1:
                continue
            need = list(lvl0) if pa == -2 else [pa]
            for q in need:
                if p[:j] + (q,) + p[j + 1:] not in pts:
                    return False
    return True


def local_parents(rule, p):
    """RuleLocal::getParent and getStepParent of the effective rule (orders != 0): the points whose presence the statement asks for"""
    if rule in ("localp", "semi-localp"):
        if p == 0:
            return []
        dad = (p + 1) // 2 - (1 if p < 4 else 0)
        return [dad] + ([2] if (rule == "semi-localp" and p == 3) else [1] if (rule == "semi-localp" and p == 4) else [])
    if rule == "localp-zero":
        return [] if p == 0 else [(p - 1) // 2]
    if p < 2:       # localp-boundary
        return []
    return [(p + 1) // 2] + ([0] if p == 2 else [])


def local_missing_parents(rule, order, d, pidx):
    """number of (point, direction, parent) triples whose parent / step-parent is not loaded; 0 = the hypothesis of the statement holds"""
    if rule == "semi-localp" and order < 2:
        rule = "localp"     # GridLocalPolynomial uses the localp effective rule
    pts = set(tuple(pidx[i:i + d]) for i in range(0, len(pidx), d))
    return sum(1 for p in pts for j in range(d) for q in local_parents(rule, p[j]) if p[:j] + (q,) + p[j + 1:] not in pts)


# Fixed histories (task I1): adaptive refinement of a peaked function.  The non-'stable' criteria leave points whose parents are not loaded; on such
# sets GridLocalPolynomial::updateSurpluses walks computeDAGup's links to the nearest PRESENT ancestor and misses ancestors whose basis does not
# vanish at the node, so the loaded values are NOT reproduced (1e-6 .. 2e-3) for every rule (d >= 3) and, through the dropped step-parent of the
# semi-local rule, already in 2-d.  The statement of C01 excludes these sets (Local Polynomial: "whenever every loaded point has all of its
# hierarchical parents loaded"), so they are not violations: they are judged as the statement says (complete states must reproduce; incomplete
# states must agree with the faithful model Model/LocalGridUp.v, whose certificate must be false when the implementation does not reproduce) and
# the observed non-reproduction is counted in the coverage.  (cid, dims, depth, order, rule, criterion, rounds)
WITNESS = [
    ("w-semi2-fds", 2, 3, 2, "semi-localp", "fds", 3),          # 221 points, (3,15) misses its present step-parent (2,15): error 2.1e-3
    ("w-semi2-dir", 2, 4, 2, "semi-localp", "direction", 2),
    ("w-semi2-classic", 2, 3, 2, "semi-localp", "classic", 3),
    ("w-semi2-o3", 2, 3, 3, "semi-localp", "fds", 3),
    ("w-semi3-classic", 3, 4, 2, "semi-localp", "classic", 3),  # the history of the observation (3-d, depth 4, order 2, 3 x classic 1e-3)
    ("w-semi3-o3-fds", 3, 3, 3, "semi-localp", "fds", 3),
    ("w-semi3-stable", 3, 4, 2, "semi-localp", "stable", 2),    # complete: must reproduce
    ("w-localp3-fds", 3, 3, 3, "localp", "fds", 3),
    ("w-localp3-stable", 3, 3, 3, "localp", "stable", 2),
    ("w-localp3-o1", 3, 4, 1, "localp", "classic", 3),
    ("w-localp0-3", 3, 3, 1, "localp-zero", "direction", 3),
    ("w-localpb3", 3, 2, 1, "localp-boundary", "direction", 3),
    ("w-localpb3-o2", 3, 3, 2, "localp-boundary", "parents", 3),
    ("w-localpb3-stable", 3, 3, 2, "localp-boundary", "stable", 2),
]


def witness_script(cid, d, depth, order, rule, crit, rounds):
    obs = "dump g meta pidx points values coef"
    ev = "evalb g x: " + " ".join(vlib.hexf(v) for v in [0.3, -0.45, 0.7][:d])
    ls = ["case " + cid, "make localp g %d 1 %d %d %s" % (d, depth, order, rule), "load g peak", obs, "evalpts g", ev]
    for _ in range(rounds):
        ls += ["refsurp g %s %s -1" % (vlib.hexf(1e-3), crit), "load g peak", obs, "evalpts g", ev]
    return {"family": "localp", "dims": d, "outs": 1, "rule": rule, "order": order, "depth": depth}, ls


def gen_case(r, cid, tier):
    fam = r.choice(gl.FAMILIES)
    spec = gl.rand_spec(r, family=fam, max_dims=3 if tier == "quick" else 4)
    if spec["outs"] == 0:
        spec["outs"] = 1
    if fam == "global" and spec["rule"] in gl.GLOBAL_NONNESTED:
        spec["rule"] = r.choice(gl.GLOBAL_NESTED)
        spec.pop("ab", None)
    lines = ["case " + cid, gl.make_cmd(spec)]
    trans = None
    if r.random() < 0.2:
        trans = gl.rand_transform(r, spec)
        lines.append(gl.trans_cmd(trans))
    fn = lambda: r.choice(["smooth", "poly", "hash", "affine"])
    OBS = "dump g meta pidx points values coef"
    xs = gl.rand_points(r, spec, 4, trans)
    ev = "evalb g x: " + " ".join(vlib.hexf(v) for v in xs)
    mode = r.random()
    if mode < 0.7:
        lines += ["load g " + fn(), OBS, "evalpts g", ev]
        for _ in range(r.randint(0, 3)):
            k = r.random()
            if k < 0.6:
                c = gl.refine_cmds(r, spec)
                if spec["family"] == "localp" and r.random() < 0.5:
                    c = c.replace(" classic ", " stable ").replace(" parents ", " stable ").replace(" direction ", " stable ").replace(" fds ", " stable ")
                lines += [c, "load g " + fn(), OBS, "evalpts g", ev]
            elif k < 0.75:
                u = gl.update_cmd(r, spec)
                if u:
                    lines += [u, "load g " + fn(), OBS, "evalpts g", ev]
            else:
                lines += ["load g " + fn(), OBS, "evalpts g", ev]
    else:
        # dynamic construction: deliver candidates in random order and batches
        f = fn()
        lines += ["begin g"]
        for rnd in range(r.randint(1, 3)):
            if spec["family"] in ("localp", "wavelet"):
                lines.append("cand g surp %s %s -1" % (vlib.hexf(r.choice([0.0, 1e-3, 1e-1])), r.choice(["classic", "stable", "fds"])))
            else:
                ty = r.choice(["level", "iptotal", "ipcurved", "iphyperbolic"])
                lines.append("cand g aw %s aw: %s" % (ty, " ".join(map(str, gl.rand_aw(r, spec["dims"], ty)))))
            lines.append("@deliver %s %d" % (f, r.randint(1, 4)))   # expanded after the first pass (needs the candidate count)
        lines += ["finish g", OBS, "evalpts g", ev]
    return spec, lines


def expand_deliveries(r, drv, wd, specs, scripts):
    """the number of candidates is only known at run time: first pass to get the candidate lists, then expand '@deliver'."""
    out_scripts = {}
    todo = {cid: ls for cid, ls in scripts.items() if any(l.startswith("@deliver") for l in ls)}
    done = {cid: ls for cid, ls in scripts.items() if cid not in todo}
    rounds = 0
    while todo and rounds < 4:
        rounds += 1
        lines = []
        for cid, ls in todo.items():
            cut = next(i for i, l in enumerate(ls) if l.startswith("@deliver"))
            lines += ls[:cut]
        rc, cases, so, se = gl.run_scripts(drv, lines, wd, "expand%d" % rounds, timeout=600)
        nxt = {}
        for cid, ls in todo.items():
            cut = next(i for i, l in enumerate(ls) if l.startswith("@deliver"))
            steps = cases.get(cid, [])
            cand = [s for s in steps if s.cmd.startswith("cand") and "cand" in s.obs]
            d = specs[cid]["dims"]
            ncand = len(cand[-1].obs["cand"]) // d if cand else 0
            t = ls[cut].split()
            f, nb = t[1], int(t[2])
            idx = list(range(ncand))
            r.shuffle(idx)
            keep = idx[:max(1, int(len(idx) * r.choice([0.5, 0.8, 1.0])))] if idx else []
            new = []
            if keep:
                bs = max(1, len(keep) // nb)
                for b in range(0, len(keep), bs):
                    new.append("deliver g %s idx: %s" % (f, " ".join(map(str, keep[b:b + bs]))))
            ls2 = ls[:cut] + new + ls[cut + 1:]
            if any(l.startswith("@deliver") for l in ls2):
                nxt[cid] = ls2
            else:
                done[cid] = ls2
        todo = nxt
    for cid, ls in todo.items():
        done[cid] = [l for l in ls if not l.startswith("@deliver")]
    return done


def note_incomplete(stats, err, what):
    """outside the statement (a parent is not loaded): observed, counted, not a violation"""
    stats["incomplete_not_reproduced"] = stats.get("incomplete_not_reproduced", 0) + 1
    if err > stats.get("incomplete_not_reproduced_max", 0.0):
        stats["incomplete_not_reproduced_max"] = err
        stats["incomplete_not_reproduced_worst"] = what


def run(res, tier, seed, replay_script=None):
    props = vlib.coq_props(PID)
    vlib.proof_coverage(res, PID, props, "cd coq && make Props/Properties_C01.vo && coqc -Q . TV Props/Properties_C01.v", TRUSTED)
    rl_break = rltie.run(res, PID)      # the RuleLocal integer functions re-translated from the header and re-proved equal to the model
    ok_ext, elog = vlib.coq_make(["Extract/ExtractCoreFast.vo"])
    # the model of computeDAGup that the runner evaluates (links to the nearest PRESENT ancestor, faithful on sets with holes) and its theorems
    props_up = vlib.coq_props("C01_up")
    res.coverage["faithful_dagup_model"] = {"props_file": "coq/Props/Properties_C01_up.v", "obligations": props_up["obligations"], "discharged": props_up["discharged"],
                                            "theorems": props_up["theorems"], "print_assumptions": props_up["assumptions"]}
    proof_broken = (not props["ok"]) or bool(res.coverage["forbidden_tokens"]) or (not props_up["ok"])
    # Global grids with nested rules: the combination surrogate reproduces the values at every grid point (unbounded; Properties_C01_global.v)
    c01global.run(res)
    if replay_script is None:
        # computeDAGup (links to the nearest present ancestor, is_complete = choice of the Kronecker path), levels and surpluses on given point sets: white-box tie
        c01dag.run(res, tier, seed)
    # the weights form the code assembles (sum of w(t) x tensor rule) equals the difference form of the theorems (Properties_C02_bridge.v)
    c02bridge.run(res)
    runner = vlib.ocaml_runner("corefast") if ok_ext else None
    drv = vlib.build_driver("tsgdrv")
    wd = os.path.join(vlib.BUILD, "work", PID)
    os.makedirs(wd, exist_ok=True)
    r = vlib.rng(seed, PID)
    n = {"quick": 220, "thorough": 3000}[tier] * (3 if proof_broken else 1)
    specs, scripts = {}, {}
    if replay_script:
        cid = replay_script[0].split()[1]
        scripts[cid] = list(replay_script)
        mk = [l for l in replay_script if l.startswith("make")][0].split()
        specs[cid] = {"family": mk[1], "dims": int(mk[3]), "outs": int(mk[4]), "rule": mk[7] if mk[1] == "localp" else "", "order": int(mk[6]) if mk[1] in ("localp", "wavelet") else 0}
    else:
        for i in range(n):
            cid = "r%d" % i
            specs[cid], scripts[cid] = gen_case(r, cid, tier)
        scripts = expand_deliveries(r, drv, wd, specs, scripts)
        # one large wavelet grid per run: the iterative solver needs restarts only for systems of this size
        specs["bigwav"] = {"family": "wavelet", "dims": 1, "outs": 1, "order": 1, "depth": 10}
        scripts["bigwav"] = ["case bigwav", "make wavelet g 1 1 10 1", "load g smooth", "dump g meta pidx points values", "evalpts g"]
        specs["bigwav2"] = {"family": "wavelet", "dims": 2, "outs": 1, "order": 1, "depth": 6}
        scripts["bigwav2"] = ["case bigwav2", "make wavelet g 2 1 6 1", "load g smooth", "dump g meta pidx points values", "evalpts g"]
        for w in (WITNESS if tier == "thorough" else [w for w in WITNESS if w[0] in ("w-semi2-fds", "w-semi3-classic", "w-semi3-stable", "w-localpb3")]):
            specs[w[0]], scripts[w[0]] = witness_script(*w)
    lines = [l for cid in scripts for l in scripts[cid]]
    rc, cases, so, se = gl.run_scripts(drv, lines, wd, "hist", timeout=1500, case_timeout=20)
    if rc != 0:
        res.violation("tsgdrv-crash", "tsgdrv exited with %d: %s" % (rc, se[-400:]), {"kind": "impl-counterexample", "script": lines[-40:]})

    stats = {"states": 0, "skipped_incomplete": 0, "violations": 0, "max_err": {}, "local_grids": 0}
    lg_lines, lg_meta = [], {}
    sq_lines, sg_lines, sgres = [], [], {}
    fam_count, nontrivial = {}, 0
    big_local = []
    for cid, steps in cases.items():
        spec = specs[cid]
        fam, d, outs = spec["family"], spec["dims"], spec["outs"]
        fam_count[fam] = fam_count.get(fam, 0) + 1
        cur = None
        nstates = 0
        last_evalx = None
        for si, st in enumerate(steps):
            t = st.cmd.split()
            if st.exc is not None and st.exc[0] == "hang":
                # the statement says nothing about running time or termination (that is C08's clause): a call that does not return within the
                # case limit (huge proposals from noisy data, greedy node optimisation of hundreds of sequence nodes) ends the case, counted
                stats["slow_calls_skipped"] = stats.get("slow_calls_skipped", 0) + 1
                break
            if st.exc is not None and st.exc[0] in ("hang",) or (st.exc is not None and st.exc[0].startswith("crash")):
                res.violation("no-return:" + t[0] if st.exc[0] == "hang" else "crash:" + t[0], "%s -> %s [%s]" % (st.cmd, st.exc, scripts[cid][1]),
                              {"kind": "impl-counterexample", "script": scripts[cid]})
                stats["violations"] += 1
                break
            if t[0] == "dump" and "meta" in st.obs and fam == "localp" and "sg_done" not in spec:
                # the point set of a fresh makeLocalPolynomialGrid (no level limits) vs Model.StdGrid.std_grid (proved complete for all d, depth)
                spec["sg_done"] = True
                mk = scripts[cid][1].split()
                before = scripts[cid][2:scripts[cid].index(st.cmd)] if st.cmd in scripts[cid] else ["?"]
                if "ll:" not in mk and spec.get("order", 1) != 0 and all(l.split()[0] in ("trans", "load", "conformal") for l in before) and st.obs.get("pidx") is not None \
                        and int(st.obs["meta"]["points"]) <= 20000:
                    sg_lines.append("sg %s %s %s %s pidx: %s" % (cid, RULE_MAP[spec["rule"]], mk[3], mk[5], " ".join(map(str, st.obs["pidx"]))))
            if t[0] == "dump" and "meta" in st.obs:
                cur = {"pidx": st.obs.get("pidx", []), "values": st.obs.get("values", []), "coef": st.obs.get("coef", []),
                       "n": int(st.obs["meta"]["loaded"]), "step": si, "points": st.obs.get("points", []),
                       "ta": st.obs.get("ta"), "tb": st.obs.get("tb")}
            elif t[0] == "evalpts" and cur is not None and st.exc is None and cur["n"] > 0:
                nstates += 1
                stats["states"] += 1
                vals = cur["values"]
                scale = max([1.0] + [abs(v) for v in vals])
                lid = None
                if fam == "localp" and spec.get("order", 1) != 0 and cur["n"] <= 260 and d <= 3:
                    lid = "%s.%d" % (cid, si)
                    lg_meta[lid] = (cid, si, scale)
                if fam == "localp":
                    cur["lid"] = lid
                    cur["evalpts"] = st
                    if lid is None and spec.get("order", 1) != 0 and cur["pidx"]:
                        big_local.append((cid, cur))    # too large for the exact model: the parent test of the statement is evaluated here
                    continue    # judged after the model has classified the grid (parent completeness)
                if fam == "sequence" and cur["n"] <= 70 and not cur.get("ta") and cur["coef"] and len(cur["points"]) == cur["n"] * d:
                    # exact Newton surpluses from the implementation's own nodes (node of index m = coordinate of any point with that index)
                    nodes = {}
                    for i in range(cur["n"]):
                        for j in range(d):
                            nodes.setdefault(cur["pidx"][i * d + j], cur["points"][i * d + j])
                    if nodes and max(nodes) + 1 == len(nodes):
                        sq_lines.append("sq %s.%d %d %d nodes: %s pidx: %s vals: %s coef: %s" % (
                            cid, si, d, outs, " ".join(nodes[m].hex() for m in range(len(nodes))), " ".join(map(str, cur["pidx"])),
                            " ".join(v.hex() for v in cur["values"]), " ".join(v.hex() for v in cur["coef"])))
                for tag in ("eval", "evalb", "evalf"):
                    y = st.obs.get(tag, [])
                    if len(y) != len(vals):
                        res.violation("evaluate-size", "%s returned %d numbers for %d values" % (tag, len(y), len(vals)), {"kind": "impl-counterexample", "script": scripts[cid]})
                        stats["violations"] += 1
                        continue
                    err = max([abs(a - b) for a, b in zip(y, vals)] + [0.0]) / scale
                    if not (err == err):
                        err = float("inf")
                    stats["max_err"][fam] = max(stats["max_err"].get(fam, 0.0), err)
                    if err > TOL[fam] and fam in ("global", "sequence") and err == err and err != float("inf"):
                        # polynomial interpolation can be arbitrarily ill-conditioned (the Lebesgue constant of the 255 Gauss-Patterson nodes is
                        # 1e28): under a domain transform the loaded point maps back to the canonical node only up to rounding and that
                        # perturbation is amplified enormously.  The amplification is measured with the grid's own interpolation weights at the
                        # failing point moved by one ulp; an error below 64 x that change is the conditioning of the problem, not a defect.
                        ibad = max(range(len(y)), key=lambda q: abs(y[q] - vals[q])) // max(outs, 1)
                        xbad = cur["points"][ibad * d:(ibad + 1) * d]
                        pre = scripts[cid][:si + 1] if len(scripts[cid]) > si + 1 and scripts[cid][si + 1] == st.cmd else []     # case line + the si commands before this one
                        leb = None
                        if pre and xbad:
                            import math
                            cmds = []
                            for sgn in (1.0, -1.0):       # the loaded point moved by one unit in the last place in every coordinate
                                cmds.append("iw g x: " + " ".join(math.nextafter(v, v + sgn * (abs(v) + 1.0)).hex() for v in xbad))
                            rcx, cx, _, _ = gl.run_scripts(drv, pre + cmds, wd, "lebesgue", timeout=600, case_timeout=60)
                            for stp in cx.get(cid, []):
                                if stp.cmd.startswith("iw g") and "iw" in stp.obs and len(stp.obs["iw"]) == cur["n"]:
                                    w = stp.obs["iw"]
                                    leb = max(leb or 0.0, sum(abs(w[q] - (1.0 if q == ibad else 0.0)) for q in range(cur["n"])))
                        # leb = change of the interpolation weights for a one-ulp move of the point: what rounding in the transform costs
                        if leb is not None and err <= 64.0 * leb:
                            stats["skipped_ill_conditioned"] = stats.get("skipped_ill_conditioned", 0) + 1
                            stats["max_lebesgue_sum_skipped"] = max(stats.get("max_lebesgue_sum_skipped", 0.0), leb)
                            continue
                    if err > TOL[fam]:
                        stats["violations"] += 1
                        key = "not-reproduced:%s:%s" % (fam, tag)
                        if fam == "wavelet" and cur.get("ta") and spec.get("order") in (1, 3):
                            # which loaded points fail?  (known finding: boundary nodes of a transformed domain)
                            bad = [i for i in range(cur["n"]) if max(abs(y[i * outs + k] - vals[i * outs + k]) for k in range(outs)) / scale > TOL[fam]]
                            onb = lambda i: any(cur["points"][i * d + j] in (cur["ta"][j], cur["tb"][j]) for j in range(d))
                            if bad and all(onb(i) for i in bad):
                                key = "wavelet-order%d-boundary-node-under-transform" % spec.get("order")
                        if fam == "wavelet" and key.startswith("not-reproduced") and not wavelet_complete(spec.get("order", 1), d, cur["pidx"]):
                            key = "wavelet-incomplete-hierarchy-not-reproduced"
                        res.violation(key, "%s differs from the loaded values by %.3g (relative) at a loaded point [%s]" % (tag, err, scripts[cid][1]),
                                      {"kind": "impl-counterexample", "script": scripts[cid], "error": err})
                        break
            elif t[0] == "evalb" and cur is not None and cur.get("lid") and st.exc is None and "evalb" in st.obs:
                # random evaluation points for the model correspondence of local grids
                xs = [float.fromhex(v) if v not in ("inf", "nan") else float(v) for v in t[t.index("x:") + 1:]]
                lid = cur["lid"]
                rule = RULE_MAP[spec["rule"]]
                if rule == "semilocalp" and spec["order"] < 2:
                    rule = "localp"   # GridLocalPolynomial: semi-localp with order < 2 (including -1) uses the localp effective rule
                if "trans" in " ".join(scripts[cid]):
                    xs, ys = [], []
                else:
                    ys = st.obs["evalb"]
                lg_lines.append("lg %s %s %d %d %d pidx: %s vals: %s coef: %s xs: %s ys: %s" % (
                    lid, rule, spec["order"], d, outs, " ".join(map(str, cur["pidx"])), " ".join(v.hex() for v in cur["values"]),
                    " ".join(v.hex() for v in cur["coef"]), " ".join(v.hex() for v in xs), " ".join(v.hex() for v in ys)))
                lg_meta[lid] = lg_meta[lid] + (cur,)
                cur["lid"] = None
        if nstates >= 2 or any(l.startswith(("refsurp", "refaniso", "refsimple", "deliver")) for l in scripts[cid]):
            nontrivial += 1

    # ---- local polynomial grids: classify with the model, compare model and implementation
    mism = []
    lgres = {}
    sqres = {}
    if runner and (lg_lines or sq_lines or sg_lines):
        lf = os.path.join(wd, "local.txt")
        open(lf, "w").write("\n".join(sg_lines + lg_lines + sq_lines) + "\n")
        rc2, mo, me = vlib.run([runner, lf], timeout=1500)
        for line in mo.split("\n"):
            t = line.split()
            if not t:
                continue
            if t[0] == "lg":
                lgres[t[1]] = dict(x.split("=") for x in t[2:])
            elif t[0] == "sq":
                sqres[t[1]] = dict(x.split("=") for x in t[2:])
            elif t[0] == "sg":
                sgres[t[1]] = dict(x.split("=") for x in t[2:])
            elif t[0] == "MISMATCH":
                mism.append(line[:300])
        if rc2 != 0:
            mism.append("core runner failed: " + me[-300:])
    for lid, meta in lg_meta.items():
        if len(meta) < 4:
            continue
        cid, si, scale, cur = meta
        st = cur["evalpts"]
        rr = lgres.get(lid)
        if rr is None:
            continue
        stats["local_grids"] += 1
        complete = rr["complete"] == "true"
        cert = rr["cert"] == "true"
        coeferr, evalerr, nodeerr = float.fromhex(rr["coeferr"]), float.fromhex(rr["evalerr"]), float.fromhex(rr["nodeerr"])
        constructed = any(l.startswith("begin") for l in scripts[cid])
        if constructed and not complete:
            # incremental construction of a parent-incomplete set: the surpluses legitimately depend on the arrival order
            stats["skipped_incomplete_construction"] = stats.get("skipped_incomplete_construction", 0) + 1
        elif coeferr > 1e-9 or evalerr > 1e-9:
            mism.append("local grid %s: model surpluses/evaluation differ from the implementation (coef %.3g, eval %.3g) [%s]" % (lid, coeferr, evalerr, scripts[cid][1]))
        if complete and not cert:
            mism.append("local grid %s is parent-complete but fails the certificate of the reproduction theorem [%s]" % (lid, scripts[cid][1]))
        if cert and nodeerr > 0.0:
            mism.append("local grid %s: certified but the model does not reproduce exactly (%.3g)" % (lid, nodeerr))
        vals = cur["values"]
        if not complete:
            stats["skipped_incomplete"] += 1
            ierr = max([max([abs(a - b) for a, b in zip(st.obs.get(tag, []), vals)] + [0.0]) for tag in ("eval", "evalb", "evalf")]) / scale
            if ierr > TOL["localp"]:
                note_incomplete(stats, ierr, scripts[cid][1])
                if cert:
                    # the certificate is the hypothesis of the reproduction theorem: a certified set must be reproduced whatever its parents
                    stats["violations"] += 1
                    res.violation("not-reproduced:localp-certified", "a loaded value of a parent-incomplete grid that passes the certificate of the reproduction theorem "
                                  "is missed by %.3g [%s]" % (ierr, scripts[cid][1]), {"kind": "impl-counterexample", "script": scripts[cid], "error": ierr})
            continue
        for tag in ("eval", "evalb", "evalf"):
            y = st.obs.get(tag, [])
            err = max([abs(a - b) for a, b in zip(y, vals)] + [0.0]) / scale if len(y) == len(vals) else float("inf")
            stats["max_err"]["localp"] = max(stats["max_err"].get("localp", 0.0), err)
            if err > TOL["localp"]:
                stats["violations"] += 1
                res.violation("not-reproduced:localp:" + tag, "%s differs from the loaded values by %.3g at a loaded point of a parent-complete grid [%s]" % (tag, err, scripts[cid][1]),
                              {"kind": "impl-counterexample", "script": scripts[cid], "error": err})
                break
    for cid, cur in big_local:
        spec = specs[cid]
        st = cur["evalpts"]
        vals = cur["values"]
        scale = max([1.0] + [abs(v) for v in vals])
        miss = local_missing_parents(spec["rule"], spec["order"], spec["dims"], cur["pidx"])
        errs = {tag: (max([abs(a - b) for a, b in zip(st.obs.get(tag, []), vals)] + [0.0]) / scale if len(st.obs.get(tag, [])) == len(vals) else float("inf"))
                for tag in ("eval", "evalb", "evalf")}
        worst = max(errs.values())
        if miss:
            stats["skipped_incomplete"] += 1
            if worst > TOL["localp"]:
                note_incomplete(stats, worst, scripts[cid][1])
            continue
        stats["large_complete_local_states"] = stats.get("large_complete_local_states", 0) + 1
        stats["max_err"]["localp"] = max(stats["max_err"].get("localp", 0.0), worst)
        if worst > TOL["localp"]:
            tag = max(errs, key=errs.get)
            stats["violations"] += 1
            res.violation("not-reproduced:localp:" + tag, "%s differs from the loaded values by %.3g at a loaded point of a parent-complete grid of %d points [%s]"
                          % (tag, worst, cur["n"], scripts[cid][1]), {"kind": "impl-counterexample", "script": scripts[cid], "error": worst})
    for gid, rr in sgres.items():
        stats["standard_grids"] = stats.get("standard_grids", 0) + 1
        if rr.get("same") != "true":
            mism.append("the point set of %s differs from Model.StdGrid.std_grid (%s model points)" % (scripts[gid][1], rr.get("n")))
    for sid, rr in sqres.items():
        ce, ne = float.fromhex(rr["coeferr"]), float.fromhex(rr["nodeerr"])
        stats["sequence_grids"] = stats.get("sequence_grids", 0) + 1
        if ce > 1e-9:
            mism.append("sequence grid %s: exact Newton surpluses differ from getHierarchicalCoefficients by %.3g [%s]" % (sid, ce, scripts[sid.split(".")[0]][1]))
        if ne > 0.0:
            mism.append("sequence grid %s: the model does not reproduce exactly (%.3g)" % (sid, ne))
    # local grids too large for the model: judged by the implementation's own parent table? (skipped and counted)
    if mism and not res.violations:
        res.violation("correspondence", "model and implementation disagree on %d local grids, e.g. %s" % (len(mism), mism[0][:300]),
                      {"kind": "correspondence-break", "correspondence": "Model.LocalGrid.surpluses/evalAt/hier_cert vs GridLocalPolynomial", "examples": mism[:10]}, no_input=True)
    rltie.report(res, rl_break)
    if proof_broken and not res.violations:
        res.violation("proof", "proof obligations of Properties_C01.v no longer check (%d/%d) %s" % (props["discharged"], props["obligations"], res.coverage["forbidden_tokens"][:2]),
                      {"kind": "proof-break", "theorems": props["theorems"], "log": props["log"][-3000:]}, no_input=True)
    if not ok_ext and not res.violations:
        res.violation("extraction", "extraction of the model failed", {"kind": "proof-break", "log": elog[-2000:]}, no_input=True)

    res.coverage["calls_not_returning_within_the_case_limit_not_judged"] = stats.get("slow_calls_skipped", 0)
    res.coverage["states_skipped_ill_conditioned_polynomial_interpolation"] = stats.get("skipped_ill_conditioned", 0)
    res.coverage["largest_one_ulp_weight_change_of_a_skipped_state"] = stats.get("max_lebesgue_sum_skipped", 0.0)
    res.coverage.update({
        "evaluations": stats["states"], "distinct_nontrivial": nontrivial,
        "rule": "case = make (random family/rule/dims/depth/order/limits/transform; Global restricted to nested rules) then either load + up to 3 "
                "(refinement of a random strategy | updateGrid | overwriting reload) each followed by a load, or a dynamic construction with candidates "
                "delivered in random order and batches; after every load evaluate/evaluateBatch/evaluateFast at all loaded points; "
                "non-trivial = at least 2 checked states or a refinement/construction step; local polynomial grids are judged only when the model's parent_complete holds",
        "samples": [scripts[c] for c in list(scripts)[:2]],
        "programs": len(cases), "traces_validated_against_impl": stats["local_grids"], "disagreements_checked": len(mism),
        "family_distribution": fam_count, "max_relative_error_by_family": stats["max_err"], "tolerance_by_family": TOL,
        "local_grids_modelled": stats["local_grids"], "sequence_grids_modelled": stats.get("sequence_grids", 0), "standard_grids_compared_with_std_grid_model": stats.get("standard_grids", 0), "local_grids_skipped_parent_incomplete": stats["skipped_incomplete"],
        "direct_property_violations": stats["violations"],
        "local_states_too_large_for_the_model_judged_with_the_parent_test_here": stats.get("large_complete_local_states", 0),
        "local_parent_incomplete_states_not_reproducing_outside_the_statement": {
            "count": stats.get("incomplete_not_reproduced", 0), "largest_relative_error": stats.get("incomplete_not_reproduced_max", 0.0),
            "worst": stats.get("incomplete_not_reproduced_worst", ""),
            "why": "updateSurpluses follows computeDAGup's links to the nearest present ancestor; with a parent missing, an ancestor whose basis does not vanish at "
                   "the node can be unreachable (semi-localp: the step-parent of points 3/4 is dropped once the walk has passed them). The faithful model "
                   "Model/LocalGridUp.v computes the same surpluses and its certificate is false on these sets"},
        "fixed_witness_histories": [w[0] for w in WITNESS if w[0] in specs],
    })
    res.assumptions = ["floating-point rounding enters only through the tolerances (relative to max(1, max|value|))",
                       "Global/Sequence/Wavelet/Fourier: no mechanistic model; the executable statement is evaluated on their observations"]


def replay(path):
    import json
    rp = json.load(open(path))
    res = vlib.Result(PID, "quick", rp.get("seed", 1), LEVEL)
    run(res, "quick", rp.get("seed", 1), replay_script=rp.get("script"))
    return res.finish()
