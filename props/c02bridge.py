"""C02 / C03 / C01, bridge between the tensor WEIGHTS form the implementation computes (computeTensorWeights; GridGlobal::evaluate /
getInterpolationWeights / getQuadratureWeights: sum over the tensors of w(t) * tensor rule of level t) and the DIFFERENCE form the
exactness and interpolation theorems are stated in (comb_exact, Aop).

Theorems: coq/Props/Properties_C02_bridge.v (proofs coq/Proofs/TensorWeightsBridge.v, on top of Proofs/TensorWeightsProofs.v,
Proofs/CombinationProofs.v and Proofs/GlobalNestedInterp.v):
  (B) any commutative ring, any one-dimensional families, every duplicate-free lower set:  sum_t inj(w(t)) prod_j f_j(t_j) = sum_t prod_j
      (f_j(t_j) - f_j(t_j - 1)), with w = the inclusion-exclusion value = the computed weight; hence comb_exact for the weights form;
  (C) the same for the Lagrange tensor interpolants: the weights form of GridGlobal::evaluate equals Aop and reproduces the loaded values;
  (A) tw_cpp = tw_lines only for D = 1 (partial); for D >= 2 checked by vm_compute on every sub-list of small boxes (Examples) and by the
      executable tie of props/c02weights.py.
No executable tie of its own: the tie of the weights is props/c02weights.py (tw_cpp, tw_lines against the implementation).

Used through run(res); stand-alone:  python3 props/c02bridge.py   (exit 0/1, nothing written under evidence/)."""
import json
import os
import re
import sys
import time

sys.path.insert(0, os.path.join(os.path.dirname(os.path.dirname(os.path.abspath(__file__))), "tools"))
import vlib  # noqa: E402

PID = "C02"
SUB = "C02_bridge"
WORK = "tw2"
FILES = ["coq/Proofs/TensorWeightsBridge.v", "coq/Props/Properties_C02_bridge.v"]
REQUIRED = ["c02b_index_conversion", "c02b_weights_are_computed", "c02b_weights_form_is_difference_form", "c02b_weights_form_dprod",
            "c02b_weights_form_exact", "c02b_evaluate_weights_form_is_difference_form", "c02b_evaluate_weights_form_reproduces",
            "c02b_tw_cpp_eq_tw_lines_partial"]
REQUIRED_EXAMPLES = ["c02b_cpp_eq_lines_box_2x2", "c02b_cpp_eq_lines_box_3x2", "c02b_cpp_eq_lines_box_1x1x1", "c02b_cpp_eq_lines_box_2x1x1",
                     "c02b_cpp_incl_excl_lower_sets", "c02b_ex_hyps", "c02b_ex_ring_Z", "c02b_ex_by_theorem", "c02b_ex_global_off_grid",
                     "c02b_ex_global_grid_points", "c02b_ex_global_by_theorem"]
FORBIDDEN = re.compile(r"\b(Axiom|Axioms|Parameter|Parameters|Conjecture|Admitted|admit|Abort|Unset\s+Guard|Unset\s+Positivity|bypass_check)\b")

TRUSTED = [
    "Coq 8.16.1 kernel (vm_compute in the Examples only); axioms: none (Print Assumptions: closed under the global context)",
    "the reading of GridGlobal::evaluate / getQuadratureWeights as sum over the tensors of w(t) * tensor product of the one-dimensional rules "
    "of level t_j; exact ring arithmetic (any commutative ring; Qc for the interpolant), not binary64; `int` overflow of the weights not modelled",
    "hypotheses of the theorems: Theta duplicate free, of one dimension, lower; for (C) pairwise distinct nested nodes, n(0) >= 1, n strictly increasing",
    "tw_cpp = tw_lines is proved only for D = 1; for D >= 2: vm_compute on all sub-lists of the boxes named in the Examples, and the executable tie of "
    "props/c02weights.py",
]


def strip_comments(txt):
    out, depth, i = [], 0, 0
    while i < len(txt):
        if txt.startswith("(*", i):
            depth += 1
            i += 2
        elif txt.startswith("*)", i) and depth:
            depth -= 1
            i += 2
        else:
            if depth == 0:
                out.append(txt[i])
            elif txt[i] == "\n":
                out.append("\n")
            i += 1
    return "".join(out)


def forbidden_tokens():
    hits = []
    for rel in FILES:
        p = os.path.join(vlib.ROOT, rel)
        if not os.path.exists(p):
            hits.append(rel + ": missing")
            continue
        for i, line in enumerate(strip_comments(open(p, errors="replace").read()).split("\n"), 1):
            if FORBIDDEN.search(line):
                hits.append("%s:%d: %s" % (rel, i, line.strip()[:120]))
    return hits


def run(res, tier="quick", seed=1):
    t0 = time.time()
    cov = {}
    res.coverage["weights_bridge"] = cov
    props = vlib.coq_props(SUB)
    src = strip_comments(open(os.path.join(vlib.ROOT, FILES[1])).read())
    examples = re.findall(r"^\s*Example\s+(\w+)", src, re.M)
    bad_axioms = {k: v for k, v in props["assumptions"].items() if not v.startswith("Closed under the global context")}
    missing = [t for t in REQUIRED if t not in props["theorems"]] + [e for e in REQUIRED_EXAMPLES if e not in examples]
    unprinted = [t for t in props["theorems"] if t not in props["assumptions"]] if props["ok"] else []
    forb = forbidden_tokens()
    # statements only in the Props file: every Theorem is closed by  Proof. exact <lemma>. Qed.
    not_exact = [m.group(1) for m in re.finditer(r"Theorem\s+(\w+)\b(.*?)\bQed\.", src, re.S)
                 if not re.search(r"Proof\.\s*exact\s+[\w.']+\.\s*$", m.group(2).strip())]
    cov.update({"props_file": FILES[1], "proof_file": FILES[0], "obligations": props["obligations"], "discharged": props["discharged"],
                "theorems": props["theorems"], "examples": examples, "print_assumptions": props["assumptions"],
                "forbidden_tokens": forb, "trusted_base": TRUSTED,
                "checker_cmd": "cd coq && make Props/Properties_C02_bridge.vo && coqc -Q . TV Props/Properties_C02_bridge.v",
                "executable_tie": "none of its own; the weights are tied by props/c02weights.py (tw_cpp and tw_lines against computeTensorWeights)"})
    broken = (not props["ok"]) or bool(bad_axioms) or bool(missing) or bool(unprinted) or bool(forb) or bool(not_exact) \
        or props["discharged"] != props["obligations"]
    if broken:
        why = []
        if not props["ok"]:
            why.append("Properties_C02_bridge.v does not compile (%d/%d)" % (props["discharged"], props["obligations"]))
        if bad_axioms:
            why.append("not closed under the global context: %s" % sorted(bad_axioms)[:3])
        if missing:
            why.append("missing statements: %s" % missing[:4])
        if unprinted:
            why.append("no Print Assumptions for: %s" % unprinted[:4])
        if forb:
            why.append("forbidden constructs: %s" % forb[:3])
        if not_exact:
            why.append("theorems not closed by `exact`: %s" % not_exact[:3])
        res.violation("weights-bridge-theorems-broken", "the theorems of the weights-form / difference-form bridge no longer check: " + "; ".join(why),
                      {"kind": "proof-break", "theorems": props["theorems"], "log": props["log"][-3000:]}, no_input=True)
    cov["wall_s"] = round(time.time() - t0, 1)
    return not broken


def main():
    res = vlib.Result(PID, "quick", int(os.environ.get("VERIF_SEED", "1") or 1), "proof")
    try:
        run(res)
    except vlib.BuildError as e:
        res.violation("weights-bridge-theorems-broken", "build failed: " + str(e)[:1500], {"kind": "build-failure", "detail": str(e)}, no_input=True)
    cov = res.coverage.get("weights_bridge", {})
    wd = os.path.join(vlib.BUILD, "work", WORK)
    os.makedirs(wd, exist_ok=True)
    with open(os.path.join(wd, "evidence-standalone.json"), "w") as fh:
        json.dump({"property_id": PID, "part": "weights_bridge", "coverage": cov, "violations": len(res.violations),
                   "known": [k for k, _ in res.known_hit]}, fh, indent=1, default=str)
    for key, text in res.known_hit:
        print("KNOWN-FINDING: property=%s key=%s %s" % (PID, key, text))
    for v in res.violations:
        print("DETAIL property=%s key=%s %s" % (PID, v["key"], v["what"][:600].replace("\n", " ")))
        print("VIOLATION property=%s replay=%s%s" % (PID, v["replay"], " no-failing-input-found" if v["no_input"] else ""))
    print("SUMMARY " + json.dumps({k: cov.get(k) for k in ("obligations", "discharged", "theorems", "examples", "forbidden_tokens", "wall_s")}, default=str))
    print("closed: %d/%d" % (sum(1 for v in cov.get("print_assumptions", {}).values() if v.startswith("Closed under the global context")),
                             cov.get("obligations", 0)))
    sys.stdout.flush()
    return 1 if res.violations else 0


if __name__ == "__main__":
    sys.exit(main())
