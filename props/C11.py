"""C11 — copies are complete, equal to the source and independent of it.

Theorems: coq/Props/Properties_C11.v (output-range split of strip arrays, restriction of parked construction samples,
the hierarchical transform commutes with the restriction of the outputs).  Tie: split2D / restrict_data of the extracted
model vs the value, coefficient and parked-sample arrays of every sub-range copy made by the implementation (exact).
"Shares no state" is decided at run time: for sources reached by random histories (all families, pending refinement,
active construction with parked samples, transforms, limits, zero outputs, empty grid) x copy constructor / assignment /
copyGrid(b, e) for all sub-ranges: the full query API of the copy equals the source restricted to [b, e) bit for bit, the
binary image of a full copy is byte-identical; then EACH side is put through every mutating API call while the other
side is re-observed after every call (must stay bit-identical); the same scripts run under ASan/UBSan.
"Complete" also means: the SAME continuation (refinement, updateGrid to a larger depth, polynomial space, load, evaluate, integrate, write + read in
both formats, construction candidates) run on the source and on the copy gives the same observations restricted to the output range (K cases).
Global grids with a CUSTOM-TABULATED rule (Gauss-Legendre levels tabulated by this file) are always among the sources: their copies must carry the
one dimensional table, which only later calls on the copy need."""
import concurrent.futures as cf
import hashlib
import os

import gridlib as gl
import vlib
import C09 as con

LEVEL = "other"
PID = "C11"

TRUSTED = [
    "Coq 8.16.1 kernel (vm_compute in two Examples); axioms: none (Print Assumptions: Closed under the global context for all 6 theorems)",
    "extraction: ExtrOcamlBasic only; OCaml glue ocaml/construct_main.ml; Python orchestration props/C11.py",
    "C++ driver harness/condrv.cpp (= harness/tsgdrv.cpp + read-only white-box dump of dynamic_values), g++ -O1, and the same driver built with "
    "-fsanitize=address,undefined -fno-sanitize-recover=all",
    "modelled, not verified: spltVector2D / Data2D::splitData / StorageSet::splitValues / restrictData; the per-family copy constructors are NOT modelled: "
    "completeness of a copy and independence from its source are decided by observation (query API digests, mutation of either side)",
]

KEY_SELF = "self-assignment-clears-grid"
KEY_END = "copygrid-outputs-end-beyond-range"
KEY_CDATA = "subrange-copy-construction-data-keeps-source-outputs"
OUT_TAGS = ("values", "coef", "evalb", "eval", "evalf", "integ", "cpvals")


def hx(v):
    return vlib.hexf(v)


# ------------------------------------------------------------------------------------------------ custom tabulated rule
CUSTOM_FILE = "c11gl.table"
CUSTOM_LEVELS = 12


def gauss_legendre(n):
    """nodes and weights of the n point Gauss-Legendre rule (Newton iteration on the three term recurrence; pure Python)"""
    import math
    xs, ws = [], []

    def pn(x):
        p0, p1 = 1.0, x
        for k in range(2, n + 1):
            p0, p1 = p1, ((2 * k - 1) * x * p1 - (k - 1) * p0) / k
        return p1, n * (x * p1 - p0) / (x * x - 1.0)
    for i in range(n):
        x = math.cos(math.pi * (i + 0.75) / (n + 0.5))
        for _ in range(100):
            p, dp = pn(x)
            dx = p / dp
            x -= dx
            if abs(dx) < 1e-16:
                break
        p, dp = pn(x)
        xs.append(x)
        ws.append(2.0 / ((1.0 - x * x) * dp * dp))
    order = sorted(range(n), key=lambda i: xs[i])
    xs, ws = [xs[i] for i in order], [ws[i] for i in order]
    if n % 2 == 1:
        xs[n // 2] = 0.0
    return xs, ws


def custom_table_text(levels=CUSTOM_LEVELS):
    """CustomTabulated ascii file: level l = Gauss-Legendre rule with l+1 nodes, quadrature exactness 2l+1"""
    out = ["description: verif C11 Gauss-Legendre table (level l has l+1 nodes)", "levels: %d" % levels]
    rules = [gauss_legendre(l + 1) for l in range(levels)]
    for l in range(levels):
        out.append("%d %d" % (l + 1, 2 * l + 1))
    for xs, ws in rules:
        for x, w in zip(xs, ws):
            out.append("%s %s" % (repr(w), repr(x)))
    return "\n".join(out) + "\n"


def is_custom(spec):
    return spec.get("family") == "global" and spec.get("rule") == "custom-tabulated"


def mkcmd(spec, slot="g"):
    """gl.make_cmd plus the spelling of condrv for Global grids with a custom tabulated rule"""
    if is_custom(spec):
        return "make custom %s %d %d %d %s %s%s%s" % (slot, spec["dims"], spec["outs"], spec["depth"], spec["type"], spec.get("custom", CUSTOM_FILE),
                                                  gl.kv("aw:", spec.get("aw", [])), gl.kv("ll:", spec.get("ll", [])))
    return gl.make_cmd(spec, slot)


def custom_sources(r, n):
    """Global grids with rule_customtabulated: fresh / loaded / updated (pending points) / updated and loaded again; 1-2 dimensions, several outputs"""
    out = []
    fixed = [(2, 2, 2, "level", "loaded"), (1, 3, 3, "level", "updated"), (2, 3, 1, "iptotal", "fresh"), (2, 4, 2, "qptotal", "reloaded"),
             (1, 2, 2, "level", "loaded-trans"), (2, 1, 2, "hyperbolic", "loaded")]
    for i in range(n):
        if i < len(fixed):
            d, outs, depth, ty, kind = fixed[i]
            aw, ll = [], []
        else:
            d, outs = r.choice([1, 2, 2]), r.choice([1, 2, 2, 3, 4])
            ty = r.choice(["level", "level", "iptotal", "qptotal", "hyperbolic", "tensor", "curved"])
            depth = r.randint(1, 3) if ty not in ("iptotal", "qptotal") else r.randint(1, 5)
            if ty == "tensor":
                depth = r.randint(1, 2)
            aw = gl.rand_aw(r, d, ty) if r.random() < 0.3 else []
            ll = gl.rand_limits(r, d, 0.2, hi=4)
            kind = r.choice(["fresh", "loaded", "loaded", "updated", "reloaded", "loaded-trans"])
        spec = {"family": "global", "dims": d, "outs": outs, "ll": ll, "rule": "custom-tabulated", "type": ty, "depth": depth, "aw": aw, "custom": CUSTOM_FILE}
        lines = [mkcmd(spec, "a")]
        trans = None
        if kind == "loaded-trans":
            trans = gl.rand_transform(r, spec)
            lines.append(gl.trans_cmd(trans, "a"))
        fn = r.choice(["hash", "smooth", "poly"])
        if kind != "fresh":
            lines.append("load a " + fn)
        if kind in ("updated", "reloaded"):
            lines.append("update a %d %s" % (depth + r.randint(1, 2), r.choice(["level", "iptotal"]) if ty != "tensor" else "level"))
        if kind == "reloaded":
            lines.append("load a " + r.choice(["hash", "poly"]))
        out.append({"id": "t%d" % i, "spec": spec, "kind": {"loaded-trans": "loaded", "updated": "refined", "reloaded": "refined-loaded"}.get(kind, kind),
                    "lines": lines, "trans": trans, "cand": None, "fn": fn, "seed": 3000 + i + (r.randint(0, 10 ** 9) if i >= len(fixed) else 0)})
    return out


def continuation(s, slot, outs_here, boff, loaded):
    """the same further history for the source (slot a, output boff) and for a copy (slot b, output 0 of the range): every call is deterministic and
    depends only on the outputs of the range, so the observations must agree on the range (exceptions included)"""
    spec, fam, d = s["spec"], s["spec"]["family"], s["spec"]["dims"]
    X = slot
    c = []
    j = boff if slot == "a" else 0          # the output of the range that steers the refinement
    joff = 0 if slot == "a" else boff       # the copy is loaded with the values of its own outputs
    if outs_here > 0 and loaded:
        if fam in ("localp", "wavelet"):
            c.append("refsurp %s 0x1p-7 classic %d" % (X, j))
        elif fam == "sequence":
            c.append("refsimple %s 0x1p-7 %d" % (X, j))
        else:
            c.append("refaniso %s iptotal 1 %d" % (X, j))
        c.append("dump %s meta needed nidx" % X)
    upd = fam in ("sequence", "fourier") or (fam == "global" and spec["rule"] not in gl.GLOBAL_NONNESTED)
    if upd:
        c.append("update %s %d level" % (X, min(spec["depth"] + 2, 5 if d < 3 else 3)))
    c.append("dump %s meta allpoints needed pidx nidx" % X)
    if fam in ("global", "fourier"):
        c.append("dump %s tensors" % X)
    if fam in ("global", "sequence"):
        c += ["dump %s polyi" % X, "dump %s polyq" % X]
    if is_custom(spec):
        c.append("xdump %s custom" % X)
    px = " ".join(hx(v) for v in s["probes"])
    if outs_here > 0:
        c += ["loadoff %s poly %d" % (X, joff), "dump %s meta allpoints" % X, "dump %s values" % X, "dump %s coef" % X, "evalb %s x: %s" % (X, px)] + (["integ %s" % X] if s["kind"] != "construct" else [])
    for fmt in ("bin", "ascii"):
        Y = fmt[0] + X
        c += ["write %s %s stream w%s%s" % (X, fmt, fmt[0], X), "read %s %s stream w%s%s" % (Y, fmt, fmt[0], X), "dump %s meta allpoints needed pidx nidx" % Y,
              "dump %s values" % Y, "dump %s coef" % Y] + (["integ %s" % Y] if outs_here > 0 and s["kind"] != "construct" else [])
        if fam in ("global", "sequence"):
            c.append("dump %s polyi" % Y)
        if is_custom(spec):
            c.append("xdump %s custom" % Y)
        if upd:
            c += ["update %s %d level" % (Y, min(spec["depth"] + 3, 6 if d < 3 else 3)), "dump %s meta needed nidx" % Y]
    c.append("begin %s" % X)
    if fam in ("localp", "wavelet"):
        c.append("cand %s surp 0x1p-7 classic %d" % (X, j if outs_here > 0 else -1))
    else:
        c.append("cand %s aw level aw: %s" % (X, " ".join("1" for _ in range(d))))
    c += ["finish %s" % X, "dump %s meta needed nidx" % X]
    if is_custom(spec):
        c += ["update %s %d level" % (X, CUSTOM_LEVELS + 2), "dump %s meta needed nidx" % X]     # beyond the table: refused on both sides, nothing changes
    return c


# ------------------------------------------------------------------------------------------------ sources
def gen_source(r, si):
    fam = r.choice(gl.FAMILIES)
    outs = r.choice([0, 1, 2, 2, 3, 4])
    spec = gl.rand_spec(r, family=fam, max_dims=3, outs=outs, limits_prob=0.3)
    if fam == "global" and spec["rule"] in gl.GLOBAL_NONNESTED and r.random() < 0.6:
        spec["rule"] = r.choice(gl.GLOBAL_NESTED)
        spec.pop("ab", None)
    d = spec["dims"]
    # keep the grids small: the digests are taken many times
    if fam in ("global", "sequence", "fourier"):
        spec["depth"] = min(spec["depth"], 3 if d < 3 else 2)
    if fam == "localp":
        spec["depth"] = min(spec["depth"], 3 if d < 3 else 2)
    nested = not (fam == "global" and spec["rule"] in gl.GLOBAL_NONNESTED)
    kinds = ["fresh", "loaded", "loaded", "refined", "refined", "refined-loaded", "merged", "setcoef", "construct", "construct", "construct-empty"]
    kind = r.choice(kinds) if outs > 0 else r.choice(["fresh", "fresh", "empty"])
    if not nested and kind in ("refined", "refined-loaded", "merged", "construct", "construct-empty"):
        kind = "loaded"
    if r.random() < 0.04:
        kind = "empty"
    lines = []
    trans = None
    if kind != "empty":
        lines.append(gl.make_cmd(spec, "a"))
        if r.random() < 0.25:
            trans = gl.rand_transform(r, spec)
            lines.append(gl.trans_cmd(trans, "a"))
        if r.random() < 0.12 and not (fam == "global" and spec["rule"].startswith(("gauss-laguerre", "gauss-hermite"))) and fam != "fourier":
            lines.append("conformal a " + " ".join(str(r.choice([2, 4, 6])) for _ in range(d)))
    fn = r.choice(["hash", "smooth", "poly"])
    ref = gl.refine_cmds(r, spec, "a") if outs > 0 else None
    if kind in ("loaded", "refined", "refined-loaded", "merged", "setcoef"):
        lines.append("load a " + fn)
    if kind in ("refined", "refined-loaded", "merged"):
        lines.append(ref)
    if kind == "refined-loaded":
        lines.append("load a " + r.choice(["hash", "poly"]))
        lines.append(gl.refine_cmds(r, spec, "a"))
    if kind == "merged":
        lines.append("merge a")
    if kind == "setcoef":
        lines.append("setcoef a " + r.choice(["poly", "hash"]))
    cand = None
    if kind in ("construct", "construct-empty"):
        if kind == "construct":
            lines.append("load a " + fn)
        lines.append("begin a")
        lines = [l for l in lines if not l.startswith("conformal")]
        cand = con.cand_cmd(r, dict(spec, outs=max(outs, 1))).replace("cand g ", "cand a ")
        lines.append(cand)
        lines.append("@DELIVER@")
    return {"id": "s%d" % si, "spec": spec, "kind": kind, "lines": lines, "trans": trans, "cand": cand, "fn": fn,
            "seed": r.randint(0, 10 ** 9)}


def corpus_sources():
    """always-run sources: a grid without outputs of every family (the local polynomial one caches its parent graph, which write() emits),
    and a Global grid under construction with parked samples (sub-range copies of its construction data)"""
    out = []
    specs = [{"family": "localp", "dims": 2, "outs": 0, "ll": [], "rule": "localp", "order": 1, "depth": 2},
             {"family": "localp", "dims": 1, "outs": 0, "ll": [], "rule": "semi-localp", "order": 2, "depth": 3},
             {"family": "global", "dims": 2, "outs": 0, "ll": [], "rule": "clenshaw-curtis", "type": "level", "depth": 2, "aw": []},
             {"family": "sequence", "dims": 2, "outs": 0, "ll": [1, 2], "rule": "leja", "type": "level", "depth": 2, "aw": []},
             {"family": "wavelet", "dims": 1, "outs": 0, "ll": [], "order": 1, "depth": 2},
             {"family": "fourier", "dims": 1, "outs": 0, "ll": [], "type": "level", "depth": 2, "aw": []}]
    for i, sp in enumerate(specs):
        out.append({"id": "z%d" % i, "spec": sp, "kind": "fresh", "lines": [gl.make_cmd(sp, "a")], "trans": None, "cand": None, "fn": "hash", "seed": 1000 + i})
    for i, (fam, rule) in enumerate([("global", "clenshaw-curtis"), ("global", "leja"), ("fourier", None), ("sequence", "rleja"), ("localp", "localp"), ("wavelet", None)]):
        sp = {"family": fam, "dims": 2, "outs": 3, "ll": [], "depth": 1, "type": "level", "aw": []}
        if rule:
            sp["rule"] = rule
        if fam in ("localp", "wavelet"):
            sp["order"] = 1
        cand = ("cand a surp 0x0p+0 classic -1" if fam in ("localp", "wavelet") else "cand a aw level aw: 1 1")
        out.append({"id": "y%d" % i, "spec": sp, "kind": "construct-empty", "lines": [gl.make_cmd(sp, "a"), "begin a", cand, "@DELIVER@"],
                    "trans": None, "cand": cand, "fn": "hash", "seed": 2000 + i, "deliver": "parked"})
    return out


def probes_for(r, src):
    spec = src["spec"]
    if src["kind"] == "empty":
        return []
    return gl.rand_points(r, spec, 3, src["trans"])


def digest_cmds(slot, src, probes, evals=True):
    """the read-only query API of the grid in <slot>"""
    spec, d = src["spec"], src["spec"]["dims"]
    if src["kind"] == "empty":
        return ["dump %s meta" % slot, "xdump %s parked" % slot]
    if evals:
        cmds = ["dump %s meta points needed pidx nidx values" % slot, "dump %s coef" % slot, "dump %s qw" % slot, "xdump %s parked" % slot]
    elif src["kind"] == "construct-empty":
        # construction started from an empty grid and nothing loaded yet: the grid has no points at all, the weight / basis queries are not
        # defined on it (getQuadratureWeights dereferences the empty sets): only the sets and the construction data are observed
        return ["dump %s meta needed pidx nidx" % slot, "xdump %s parked" % slot]
    else:   # no loaded values (or no outputs): getLoadedPoints / getLoadedValues are not meaningful
        cmds = ["dump %s meta allpoints needed pidx nidx" % slot, "dump %s qw" % slot, "xdump %s parked" % slot]
    if spec["family"] in ("localp", "wavelet"):
        cmds.append("dump %s hsupport" % slot)
    if spec["family"] in ("global", "sequence") and src["kind"] not in ("construct", "construct-empty"):
        cmds.append("dump %s polyi" % slot)
    if spec["family"] in ("global", "fourier"):
        cmds.append("dump %s tensors" % slot)
    px = " ".join(hx(v) for v in probes)
    p1 = " ".join(hx(v) for v in probes[:d])
    cmds.append("iw %s x: %s" % (slot, p1))
    cmds.append("hbasis %s x: %s" % (slot, px))
    if evals:
        cmds += ["evalb %s x: %s" % (slot, px), "eval %s x: %s" % (slot, p1), "integ %s" % slot]
        if spec["family"] != "wavelet" or True:
            cmds.append("diff %s x: %s" % (slot, p1))
    return cmds


def mutations(r, src, slot, outs):
    spec, fam, d = src["spec"], src["spec"]["family"], src["spec"]["dims"]
    if src["kind"] == "empty":
        return [gl.make_cmd(dict(spec, outs=1), slot), "load %s hash" % slot, "begin %s" % slot]
    m = []
    constructing = src["kind"] in ("construct", "construct-empty")
    candc = con.cand_cmd(r, dict(spec, outs=max(outs, 1))).replace("cand g ", "cand %s " % slot)
    conf = any(l.startswith("conformal") for l in src["lines"])
    if constructing and outs > 0:
        m += [candc, "deliver %s poly idx: 0" % slot, "deliver %s poly idx: 1 2" % slot, "finish %s" % slot]
    if outs > 0:
        m.append("load %s poly" % slot)
        sp2 = dict(spec, outs=outs)
        m.append(gl.refine_cmds(r, sp2, slot))
        m.append("load %s smooth" % slot)
        m.append(gl.refine_cmds(r, sp2, slot))
        m.append("merge %s" % slot)
        m.append("setcoef %s hash" % slot)
        if fam == "localp":
            m.append("remtol %s 0x1p-3 -1" % slot)
        nested = not (fam == "global" and (spec["rule"] in gl.GLOBAL_NONNESTED or is_custom(spec)))     # (the tabulated levels are Gauss-Legendre rules)
        if not conf and nested:   # (the conformal map is inverted numerically: node recognition under it belongs to C10; construction needs nested rules)
            m += ["begin %s" % slot, candc, "deliver %s hash idx: 0" % slot, "deliver %s hash idx: 2 1" % slot, "finish %s" % slot]
    u = gl.update_cmd(r, spec, slot)
    if u:
        m.append(u)
    t2 = gl.rand_transform(r, spec)
    m.append(gl.trans_cmd(t2, slot))
    if fam != "fourier" and not (fam == "global" and spec["rule"].startswith(("gauss-laguerre", "gauss-hermite"))):
        m.append("conformal %s %s" % (slot, " ".join("4" for _ in range(d))))
        m.append("clearconformal %s" % slot)
    m += ["cleartrans %s" % slot, "clearlimits %s" % slot, "clearref %s" % slot]
    other = r.choice([f for f in gl.FAMILIES if f != fam])
    m.append(gl.make_cmd(gl.rand_spec(r, family=other, max_dims=2, outs=1), slot))
    return m


def copy_cmd(kind, b=None, e=None):
    if kind == "cctor":
        return ["cctor b a"]
    if kind == "assign":
        return ["assign b a"]
    if kind == "assign-over":
        return ["make localp b 2 2 1 1 localp", "load b hash", "refsurp b 0x1p-10 classic -1", "assign b a"]
    if kind == "copy":
        return ["copy b a"]
    if kind == "copy-over":
        return ["make sequence b 1 1 3 level leja", "load b poly", "begin b", "copy b a"]
    return ["copy b a %d %d" % (b, e)]


# ------------------------------------------------------------------------------------------------ comparison
def restrict(vals, stride, b, e, mult=1):
    """entries b*mult .. e*mult of every strip of length stride*mult"""
    if stride == 0:
        return []
    n = len(vals) // (stride * mult) if stride * mult else 0
    out = []
    for i in range(n):
        out += vals[i * stride * mult + b * mult:i * stride * mult + e * mult]
    return out


def bits(v):
    return [float(x).hex() if isinstance(x, float) else x for x in v]


def compare_steps(sa, sb, outs, b, e, d):
    """sa: steps of the source digest, sb: steps of the copy digest (same commands on another slot); returns list of differences"""
    diffs = []
    if len(sa) != len(sb):
        return ["digest lengths differ (%d vs %d)" % (len(sa), len(sb))]
    full = (b == 0 and e == outs)
    for x, y in zip(sa, sb):
        cx = x.cmd.split()
        name = cx[0] + (" " + cx[2] if cx[0] in ("dump", "xdump") and len(cx) > 2 else "")
        if (x.exc is None) != (y.exc is None) or (x.exc and y.exc and x.exc[0] != y.exc[0]):
            # a call that needs outputs legitimately differs only when the copy has none
            diffs.append("%s: source %s, copy %s" % (name, x.exc, y.exc))
            continue
        if x.exc:
            continue
        for tag in set(x.obs) | set(y.obs):
            vx, vy = x.obs.get(tag), y.obs.get(tag)
            if vx is None or vy is None:
                diffs.append("%s/%s present on one side only" % (name, tag))
                continue
            if tag == "meta":
                for k in vx:
                    ex = vx[k]
                    if k == "outs":
                        ex = str(e - b)
                    if vy.get(k) != ex:
                        diffs.append("meta %s: source %s copy %s" % (k, vx[k], vy.get(k)))
                continue
            if not full:
                if tag in OUT_TAGS:
                    vx = restrict(vx, outs, b, e)
                elif tag == "diff":
                    vx = restrict(vx, outs, b, e, mult=d)
            if bits(vx) != bits(vy):
                diffs.append("%s/%s differs (%d vs %d entries)" % (name, tag, len(vx), len(vy)))
    return diffs


def same_steps(sa, sb):
    """bit-identical observations (for the 'other side unchanged' test)"""
    if len(sa) != len(sb):
        return "digest lengths differ"
    for x, y in zip(sa, sb):
        if (x.exc or None) != (y.exc or None):
            return "%s: %s vs %s" % (x.cmd.split()[0], x.exc, y.exc)
        for tag in set(x.obs) | set(y.obs):
            vx, vy = x.obs.get(tag), y.obs.get(tag)
            if tag == "meta":
                if vx != vy:
                    return "meta changed: %s" % sorted(k for k in vx if vy is None or vx[k] != vy.get(k))
            elif vx is None or vy is None or bits(vx) != bits(vy):
                return "%s/%s changed" % (x.cmd.split()[0] + (" " + x.cmd.split()[2] if x.cmd.split()[0] in ("dump", "xdump") else ""), tag)
    return None


# ------------------------------------------------------------------------------------------------ the check
def run(res, tier, seed, replay_sources=None):
    props = vlib.coq_props(PID)
    vlib.proof_coverage(res, PID, props, "cd coq && make Props/Properties_C11.vo && coqc -Q . TV Props/Properties_C11.v", TRUSTED)
    ok_ext, elog = vlib.coq_make(["Extract/ExtractConstruct.vo"])
    proof_broken = (not props["ok"]) or bool(res.coverage["forbidden_tokens"])
    runner = vlib.ocaml_runner("construct") if ok_ext else None
    th = hashlib.sha256(open(os.path.join(vlib.HARNESS, "tsgdrv.cpp"), "rb").read()).hexdigest()[:12]
    flags = ['-DTSGDRV_SRC_HASH="%s"' % th]
    drv = vlib.build_driver("condrv", extra_flags=flags)
    drv_asan = vlib.build_driver("condrv", "asan", extra_flags=flags)
    wd = os.path.join(vlib.BUILD, "work", PID)
    os.makedirs(wd, exist_ok=True)
    r = vlib.rng(seed, PID)
    nsrc = {"quick": 110, "thorough": 900}[tier] * (3 if proof_broken else 1)
    open(os.path.join(wd, CUSTOM_FILE), "w").write(custom_table_text())
    ncust = {"quick": 10, "thorough": 80}[tier]
    sources = replay_sources if replay_sources is not None else (corpus_sources() + custom_sources(vlib.rng(seed, PID, "custom"), ncust)
                                                                 + [gen_source(r, i) for i in range(nsrc)])
    stats = {"sources": 0, "equality_cases": 0, "mutation_cases": 0, "mutations_applied": 0, "redigests": 0, "violations": 0, "asan_cases": 0,
             "subrange_copies": 0, "split_arrays": 0, "byte_images_compared": 0, "sources_skipped": 0, "special_cases": 0}

    # ---- pass 1: number of construction candidates of each source (to deliver samples that get parked)
    p1 = []
    for s in sources:
        ls = ["case %s.p" % s["id"]] + [l for l in s["lines"] if l != "@DELIVER@"] + ["dump a meta"]
        p1.append(ls)
    out1, errs = con.run_parallel(drv, p1, wd, "p1", case_timeout=20)
    live = []
    for s in sources:
        st = out1.get(s["id"] + ".p", [])
        bad = [x for x in st if x.exc is not None]
        if not st or bad:
            stats["sources_skipped"] += 1     # a configuration the library rejects (e.g. a refinement not available for the rule)
            continue
        rr = vlib.rng(s["seed"], "deliver")
        if "@DELIVER@" in s["lines"]:
            cs = [x for x in st if x.cmd.startswith("cand")]
            n = len(cs[0].obs.get("cand", [])) // s["spec"]["dims"] if cs else 0
            if n < 3:
                stats["sources_skipped"] += 1
                continue
            k = rr.randint(1, min(4, n - 1))
            idx = [n - 1 - j for j in range(k)]           # the least important candidates first: they wait for their parents
            if s.get("deliver") == "parked":
                idx = [n - 1, n - 2]                       # (corpus: certainly parked, the roots are not delivered)
            elif rr.random() < 0.5:
                idx.append(0)
            s["script"] = [("deliver a %s idx: %s" % (s["fn"], " ".join(map(str, idx)))) if l == "@DELIVER@" else l for l in s["lines"]]
        else:
            s["script"] = list(s["lines"])
        meta = [x for x in st if x.cmd.startswith("dump")][-1].obs.get("meta", {})
        s["outs"] = int(meta.get("outs", 0)) if s["kind"] != "empty" else 0
        s["loaded"] = int(meta.get("loaded", 0)) > 0
        s["probes"] = probes_for(rr, s)
        live.append(s)
    stats["sources"] = len(live)

    # ---- pass 2: equality / restriction, independence, special cases
    scripts, plan = [], {}
    for s in live:
        rr = vlib.rng(s["seed"], "plan")
        outs = s["outs"]
        ev = s["loaded"] and outs > 0
        kinds = [("cctor", 0, outs), ("assign", 0, outs), ("copy", 0, outs), (rr.choice(["assign-over", "copy-over"]), 0, outs)]
        ranges = [(b, e) for b in range(outs) for e in range(b + 1, outs + 1) if not (b == 0 and e == outs)]
        for (b, e) in ranges:
            kinds.append(("range", b, e))
        for ki, (kind, b, e) in enumerate(kinds):
            cid = "%s.k%d.E" % (s["id"], ki)
            ls = ["case " + cid] + s["script"] + copy_cmd(kind, b, e)
            da, db = digest_cmds("a", s, s["probes"], ev), digest_cmds("b", s, s["probes"], ev)
            ls += da + db
            tail = []
            if s["cand"] and outs > 0 and kind != "range":    # (surplus-based candidates legitimately depend on the outputs present)
                tail = [s["cand"], s["cand"].replace("cand a ", "cand b ")]
            if kind != "range":
                tail += ["dump a bytes", "dump b bytes"]
            ls += tail
            scripts.append(ls)
            plan[cid] = ("E", s, kind, b, e, len(s["script"]) + len(copy_cmd(kind, b, e)), len(da), tail)
        # independence: a full copy kind and (if any) one sub-range
        mk = [kinds[rr.randrange(4)]] + ([rr.choice(kinds[4:])] if len(kinds) > 4 else [])
        for mi, (kind, b, e) in enumerate(mk):
            for side in ("a", "b"):
                cid = "%s.m%d.%s" % (s["id"], mi, side)
                other = "b" if side == "a" else "a"
                so = dict(s)
                oo = outs if other == "a" else (e - b)
                evo = s["loaded"] and oo > 0
                dg = digest_cmds(other, s, s["probes"], evo)
                # the mutated object is observed too (cheap digest): after the same calls a full copy must behave like its source
                if (outs if side == "a" else e - b) == 0:
                    ds = ["dump %s meta" % side]     # (grids without outputs: only the meta data is observed on the mutated object)
                else:
                    ds = ["dump %s meta allpoints needed nidx pidx values" % side, "dump %s coef" % side, "xdump %s parked" % side]
                muts = mutations(vlib.rng(s["seed"], "mut", mi), s, side, outs if side == "a" else (e - b))
                ls = ["case " + cid] + s["script"] + copy_cmd(kind, b, e) + dg
                for m in muts:
                    ls += [m] + dg + ds
                scripts.append(ls)
                plan[cid] = ("M", s, kind, b, e, len(s["script"]) + len(copy_cmd(kind, b, e)), len(dg), muts, side, len(ds))
                _ = so
        # continuation: the same further history on the source and on the copy (custom tabulated rule: every copy path; otherwise one full copy
        # path and one sub-range; sub-ranges of a grid under construction are left to the M cases, see KEY_CDATA)
        if s["kind"] not in ("empty", "construct-empty"):
            if is_custom(s["spec"]):
                kk = list(kinds)
            else:
                kk = [kinds[rr.randrange(4)]] + ([rr.choice(kinds[4:])] if len(kinds) > 4 and s["kind"] != "construct" else [])
            for ci, (kind, b, e) in enumerate(kk):
                cid = "%s.c%d.K" % (s["id"], ci)
                ca, cb = continuation(s, "a", outs, b, s["loaded"]), continuation(s, "b", e - b, b, s["loaded"])
                scripts.append(["case " + cid] + s["script"] + copy_cmd(kind, b, e) + ca + cb)
                plan[cid] = ("K", s, kind, b, e, len(s["script"]) + len(copy_cmd(kind, b, e)), len(ca), len(cb))
    # special cases: self-assignment, documented outputs_end beyond the range
    for s in live[:max(6, len(live) // 3)]:
        if s["kind"] == "empty":
            continue
        ev = s["loaded"] and s["outs"] > 0
        dg = digest_cmds("a", s, s["probes"], ev)
        cid = "%s.self" % s["id"]
        scripts.append(["case " + cid] + s["script"] + dg + ["selfassign a"] + dg)
        plan[cid] = ("S", s, len(s["script"]), len(dg))
        if s["outs"] >= 2:
            cid = "%s.end" % s["id"]
            da, db = digest_cmds("a", s, s["probes"], ev), digest_cmds("b", s, s["probes"], ev)
            scripts.append(["case " + cid] + s["script"] + ["copyx b a 1 %d" % (s["outs"] + 3)] + da + db)
            plan[cid] = ("X", s, len(s["script"]) + 1, len(da))

    out2, errs2 = con.run_parallel(drv, scripts, wd, "c", case_timeout=40)
    for e_ in errs + errs2:
        res.violation("driver-crash", e_, {"kind": "impl-counterexample", "detail": e_})

    def viol(key, what, cid, s, extra=None):
        stats["violations"] += 1
        rp = {"kind": "impl-counterexample", "source": {k: v for k, v in s.items() if k in ("id", "spec", "kind", "lines", "trans", "cand", "fn", "seed", "deliver")},
              "case": cid, "script": next((x for x in scripts if x[0] == "case " + cid), [])[:300]}
        if extra:
            rp.update(extra)
        res.violation(key, "%s [%s; state %s; case %s]" % (what, mkcmd(s["spec"], "a") if s["kind"] != "empty" else "empty grid", s["kind"], cid), rp)

    tr = []
    for cid, pl in plan.items():
        steps = out2.get(cid)
        s = pl[1]
        fam = s["spec"]["family"]
        if steps is None:
            viol("no-output", "the case produced no output", cid, s)
            continue
        crash = [x for x in steps if x.exc is not None and x.exc[0].startswith("crash")]
        if any(x.exc is not None and x.exc[0] == "hang" for x in steps) and not crash:
            # a call that does not return within the case limit (wavelet re-solves of large 3-d grids under the sanitizers, huge proposals) says
            # nothing about copies: the statement has no running-time clause; counted, the case is not judged beyond that call
            stats["cases_cut_short_by_a_slow_call"] = stats.get("cases_cut_short_by_a_slow_call", 0) + 1
        if pl[0] == "E":
            _, s, kind, b, e, npre, nd, tail = pl
            stats["equality_cases"] += 1
            if crash:
                viol("crash-after-copy:%s" % fam, "%s -> %s" % (crash[0].cmd[:60], crash[0].exc), cid, s)
                continue
            pre = steps[:npre]
            if any(x.exc for x in pre[len(s["script"]):]):
                viol("copy-raised:%s" % kind, "the copy raised %s" % ([x.exc for x in pre if x.exc][0],), cid, s)
                continue
            sa, sb = steps[npre:npre + nd], steps[npre + nd:npre + 2 * nd]
            diffs = compare_steps(sa, sb, s["outs"], b, e, s["spec"]["dims"])
            if diffs:
                what = "copy (%s%s) is not the source restricted to the range: %s" % (kind, " %d %d" % (b, e) if kind == "range" else "", "; ".join(diffs[:4]))
                site = diffs[0].split(":")[0].split(" differs")[0].split(" present")[0]
                viol("copy-differs:%s:%s" % (fam, site.replace(" ", "-")), what, cid, s)
            rest = steps[npre + 2 * nd:]
            ti = 0
            if s["cand"] and s["outs"] > 0 and kind != "range" and len(rest) >= 2:
                ca, cb = rest[0], rest[1]
                if (ca.exc or None) != (cb.exc or None) or bits(ca.obs.get("cand", [])) != bits(cb.obs.get("cand", [])):
                    viol("copy-differs:%s:candidates" % fam, "construction candidates of the copy differ from the source's", cid, s)
                ti = 2
            if kind != "range" and len(rest) >= ti + 2:
                stats["byte_images_compared"] += 1
                if rest[ti].obs.get("bytes") != rest[ti + 1].obs.get("bytes") or rest[ti].obs.get("bytes") is None:
                    viol("copy-differs:%s:binary-image" % fam, "binary write of the copy is not byte-identical to the source's (%s vs %s)"
                         % (rest[ti].obs.get("bytes"), rest[ti + 1].obs.get("bytes")), cid, s)
            if kind == "range":
                stats["subrange_copies"] += 1
                # model tie: values / coefficients / parked samples of the copy = split2D / restrict_data of the source's
                for tag, cmdname in (("values", "dump a meta"), ("coef", "dump a coef")):
                    xa = next((x for x in sa if x.cmd.startswith(cmdname)), None)
                    xb = next((x for x in sb if x.cmd.startswith(cmdname.replace(" a ", " b "))), None)
                    if xa is None or xb is None or xa.exc or xb.exc or tag not in xa.obs or not xa.obs[tag]:
                        continue
                    stats["split_arrays"] += 1
                    tr.append("split %s.%s %d %d %d x: %s y: %s" % (cid, tag, s["outs"], b, e, " ".join(bits(xa.obs[tag])), " ".join(bits(xb.obs.get(tag, [])))))
                xa = next((x for x in sa if x.cmd.startswith("xdump")), None)
                xb = next((x for x in sb if x.cmd.startswith("xdump")), None)
                if xa is not None and xb is not None and xa.obs.get("cparked"):
                    stats["split_arrays"] += 1
                    tr.append("rdata %s.parked %d %d %d %d idx: %s vals: %s ridx: %s rvals: %s" % (
                        cid, s["spec"]["dims"], s["outs"], b, e, " ".join(map(str, xa.obs["cparked"])), " ".join(bits(xa.obs.get("cpvals", []))),
                        " ".join(map(str, xb.obs.get("cparked", []))), " ".join(bits(xb.obs.get("cpvals", [])))))
        elif pl[0] == "M":
            _, s, kind, b, e, npre, nd, muts, side, nself = pl
            stats["mutation_cases"] += 1
            sib = out2.get(cid[:-1] + ("b" if side == "a" else "a"), [])
            base = steps[npre:npre + nd]
            pos = npre + nd
            last_cand = next((x.obs.get("cand") for x in reversed(steps[:npre]) if x.cmd.startswith("cand") and x.exc is None), None)
            for mi, m in enumerate(muts):
                if pos >= len(steps):
                    break
                ms = steps[pos]
                if ms.exc is not None and ms.exc[0] == "hang":
                    break    # slow call (counted above): the rest of the case was not executed
                if ms.exc is not None and ms.exc[0].startswith("crash"):
                    sm = sib[pos] if pos < len(sib) else None
                    if sm is not None and sm.exc is not None and sm.exc[0] == ms.exc[0]:
                        stats["mutations_failing_on_both_sides"] = stats.get("mutations_failing_on_both_sides", 0) + 1
                        break    # the call fails in the same way on the source and on the copy: not a property of the copy
                    viol("crash-mutating-%s:%s:%s" % ("source" if side == "a" else "copy", fam, m.split()[0]),
                         "%s after a copy (%s) -> %s" % (m[:60], kind, ms.exc), cid, s)
                    break
                stats["mutations_applied"] += 1
                cur = steps[pos + 1:pos + 1 + nd]
                mine = steps[pos + 1 + nd:pos + 1 + nd + nself]
                theirs = sib[pos + 1 + nd:pos + 1 + nd + nself]
                mpos = pos
                pos += 1 + nd + nself
                if len(cur) < nd and any(x.exc is not None and x.exc[0] == "hang" for x in cur):
                    break    # the observation itself hit the case limit
                if len(cur) < nd:
                    cr = [x for x in cur if x.exc is not None and x.exc[0].startswith("crash")]
                    viol("crash-observing-%s:%s:%s" % ("copy" if side == "a" else "source", fam, m.split()[0]),
                         "observing the other side after %s -> %s" % (m[:60], cr[0].exc if cr else "output truncated"), cid, s)
                    break
                stats["redigests"] += 1
                mt = m.split()
                if mt[0] == "cand" and ms.exc is None:
                    last_cand = ms.obs.get("cand", [])
                if mt[0] == "deliver" and ms.exc is None and len(mine) == nself and mine[0].exc is None and last_cand is not None:
                    # samples delivered to this object must be stored with the values supplied (also on a sub-range copy under construction)
                    d_ = s["spec"]["dims"]
                    no_ = (s["outs"] if side == "a" else e - b)
                    ids = [int(v) for v in mt[mt.index("idx:") + 1:]]
                    want = {}
                    for q in ids:
                        co = last_cand[q * d_:(q + 1) * d_]
                        if len(co) == d_:
                            want[tuple(float(v + 0.0).hex() for v in co)] = [con.gl.fn_value(mt[2], list(co), j) for j in range(no_)]
                    mm = mine[0].obs.get("meta", {})
                    nl = int(mm.get("loaded", 0))
                    pts, vals = mine[0].obs.get("allpoints", []), mine[0].obs.get("values", [])
                    stats["delivered_values_checked"] = stats.get("delivered_values_checked", 0) + 1
                    if nl > 0 and len(pts) >= nl * d_ and len(vals) == nl * no_ and int(mm.get("needed", 0)) == 0:
                        for j in range(nl):
                            kk = tuple(float(v + 0.0).hex() for v in pts[j * d_:(j + 1) * d_])
                            if kk in want and bits(vals[j * no_:(j + 1) * no_]) != bits(want[kk]):
                                key = ("%s:%s" % (KEY_CDATA, fam)) if (kind == "range" and side == "b" and fam in ("global", "fourier")) else \
                                      "delivered-value-misstored-after-copy:%s" % fam
                                viol(key, "after %s on the %s (copy kind %s%s) the loaded value at %s is %s, supplied %s"
                                     % (m[:50], "source" if side == "a" else "copy", kind, " %d %d" % (b, e) if kind == "range" else "",
                                        pts[j * d_:(j + 1) * d_], vals[j * no_:(j + 1) * no_], want[kk]), cid, s)
                                break
                    elif len(vals) != nl * no_ and nl > 0:
                        key = ("%s:%s" % (KEY_CDATA, fam)) if (kind == "range" and side == "b" and fam in ("global", "fourier")) else "values-size-after-copy:%s" % fam
                        viol(key, "after %s on the %s the value array has %d entries for %d points x %d outputs" % (m[:50], "source" if side == "a" else "copy", len(vals), nl, no_), cid, s)
                if kind != "range" and side == "a" and len(mine) == nself and len(theirs) == nself and mpos < len(sib):
                    # the same call on the source (this case) and on a full copy (sibling case) must have the same effect
                    stats["behaviour_compared"] = stats.get("behaviour_compared", 0) + 1
                    w2 = same_steps([ms] + mine, [sib[mpos]] + theirs)
                    if w2:
                        viol("copy-behaves-differently:%s:%s" % (fam, m.split()[0]),
                             "after %s the copy (%s) and the source differ: %s" % (m[:60], kind, w2), cid, s)
                        break
                why = same_steps(base, cur)
                if why:
                    viol("shared-state:%s:%s:%s" % (fam, "source-changes-copy" if side == "a" else "copy-changes-source", m.split()[0]),
                         "%s on the %s changed the %s (%s; copy kind %s%s)" % (m[:60], "source" if side == "a" else "copy", "copy" if side == "a" else "source",
                                                                           why, kind, " %d %d" % (b, e) if kind == "range" else ""), cid, s)
                    break
        elif pl[0] == "K":
            _, s, kind, b, e, npre, na, nb = pl
            famk = "global-custom" if is_custom(s["spec"]) else fam
            path = kind if kind != "range" else "range"
            stats["continuation_cases"] = stats.get("continuation_cases", 0) + 1
            if any(x.exc is not None and x.exc[0] == "hang" for x in steps):
                continue
            if any(x.exc for x in steps[len(s["script"]):npre]):
                continue     # the copy itself raised: reported by the equality case
            sa, sb = steps[npre:npre + na], steps[npre + na:npre + na + nb]
            if len(sa) < na or any(x.exc is not None and x.exc[0].startswith("crash") for x in sa):
                stats["continuations_failing_on_the_source"] = stats.get("continuations_failing_on_the_source", 0) + 1
                continue     # the call fails on the source itself: not a property of the copy
            thrown = next(((x, y) for x, y in zip(sa, sb) if y.exc is not None and x.exc is None), None)
            if thrown:
                viol("copy-continuation-throws:%s" % famk, "'%s' succeeds on the source, on the copy (%s%s) '%s' raises %s"
                     % (thrown[0].cmd[:60], kind, " %d %d" % (b, e) if kind == "range" else "", thrown[1].cmd[:60], thrown[1].exc), cid, s)
                continue
            cb_ = [x for x in sb if x.exc is not None and x.exc[0].startswith("crash")]
            if cb_ or len(sb) < nb:
                viol("copy-continuation-throws:%s" % famk, "the continuation runs on the source, on the copy (%s%s) it ends at '%s' with %s"
                     % (kind, " %d %d" % (b, e) if kind == "range" else "", (cb_[0].cmd if cb_ else "?")[:60], cb_[0].exc if cb_ else "truncated output"), cid, s)
                continue
            full = (b == 0 and e == s["outs"])
            if not full:
                for x in sa + sb:
                    x.obs.pop("written", None)      # (the image of a sub-range copy holds fewer values)
            diffs = compare_steps(sa, sb, s["outs"], b, e, s["spec"]["dims"])
            if full:
                diffs += ["%s: message on the source '%s', on the copy '%s'" % (x.cmd.split()[0], x.exc[1][:80], y.exc[1][:80])
                          for x, y in zip(sa, sb) if x.exc and y.exc and x.exc[0] == y.exc[0] and x.exc[1] != y.exc[1]]
            stats["continuation_steps_compared"] = stats.get("continuation_steps_compared", 0) + len(sa)
            if diffs:
                viol("copy-continuation-differs:%s:%s" % (famk, path), "the same continuation on the source and on the copy (%s%s) gives different observations: %s"
                     % (kind, " %d %d" % (b, e) if kind == "range" else "", "; ".join(diffs[:4])), cid, s)
        elif pl[0] == "S":
            _, s, npre, nd = pl
            stats["special_cases"] += 1
            before, after = steps[npre:npre + nd], steps[npre + nd + 1:npre + 2 * nd + 1]
            why = "crash %s" % (crash[0].exc,) if crash else same_steps(before, after)
            if why:
                viol(KEY_SELF, "g = g changed the grid: %s" % why, cid, s)
        elif pl[0] == "X":
            _, s, npre, nd = pl
            stats["special_cases"] += 1
            cp = steps[npre - 1] if len(steps) >= npre else None
            if crash or cp is None or cp.exc is not None:
                viol(KEY_END, "copyGrid(source, 1, outputs+3): documented to copy the outputs from 1 to the end, observed %s"
                     % (crash[0].exc if crash else (cp.exc if cp else "no output"),), cid, s)
            else:
                diffs = compare_steps(steps[npre:npre + nd], steps[npre + nd:npre + 2 * nd], s["outs"], 1, s["outs"], s["spec"]["dims"])
                if diffs:
                    viol(KEY_END, "copyGrid(source, 1, outputs+3) is documented to copy the outputs from 1 to the end; the copy differs: %s" % "; ".join(diffs[:3]), cid, s)

    # ---- the same scripts under ASan/UBSan (a sample in the quick tier)
    rs = vlib.rng(seed, PID, "asan")
    def must(x):
        pl = plan.get(x[0][5:])
        return pl is not None and pl[0] == "M" and pl[2] == "range" and pl[1]["kind"] in ("construct", "construct-empty")
    asel = [x for x in scripts if must(x) or rs.random() < ({"quick": 0.3, "thorough": 0.4}[tier])]
    asan_env = dict(os.environ, ASAN_OPTIONS="detect_leaks=0:abort_on_error=0:exitcode=99", UBSAN_OPTIONS="print_stacktrace=1")
    nproc = max(1, min(vlib.NCPU, len(asel)))
    chunks = [[] for _ in range(nproc)]
    for i, x in enumerate(asel):
        # (getLoadedValues() of a grid without loaded points forms &values[0] of an empty vector: harmless, but UBSan stops on it;
        #  the value arrays of the mutated object are only compared in the plain build)
        chunks[i % nproc] += [l.replace(" nidx pidx values", " nidx pidx") for l in x if not (l.startswith("dump ") and l.endswith(" values") and len(l.split()) == 3)]

    def one(i):
        return con.run_scripts(drv_asan, chunks[i], wd, "asan_%d" % i, timeout=1700, case_timeout=120, env=asan_env)
    with cf.ThreadPoolExecutor(nproc) as ex:
        for rc, cases, so, se in ex.map(one, range(nproc)):
            stats["asan_cases"] += len(cases)
            for cid, steps in cases.items():
                bad = [x for x in steps if x.exc is not None and x.exc[0].startswith("crash")]
                if bad and cid in plan:
                    s = plan[cid][1]
                    if plan[cid][0] == "S":
                        viol(KEY_SELF, "sanitizer: the grid is unusable after g = g (%s at '%s')" % (bad[0].exc, bad[0].cmd[:50]), cid, s)
                        continue
                    if plan[cid][0] == "X":
                        viol(KEY_END, "sanitizer: copyGrid(source, 1, outputs+3) reads beyond the value arrays (%s)" % (bad[0].exc,), cid, s)
                        continue
                    pl = plan[cid]
                    if (pl[0] == "M" and pl[2] == "range" and pl[8] == "b" and s["spec"]["family"] in ("global", "fourier")
                            and bad[0].cmd.split()[0] == "deliver" and "ejectCompleteTensor" in se):
                        viol("%s:%s" % (KEY_CDATA, s["spec"]["family"]), "sanitizer: loadConstructedPoints on a sub-range copy of a grid under construction reads beyond the "
                             "restricted value blocks in DynamicConstructorDataGlobal::ejectCompleteTensor (num_outputs of the source is kept) at '%s'" % bad[0].cmd[:50], cid, s)
                        continue
                    rep = ""
                    k = se.find("ERROR: AddressSanitizer")
                    if k < 0:
                        k = se.find("runtime error")
                    if k >= 0:
                        rep = se[max(0, k - 100):k + 600]
                    viol("sanitizer-report:%s:%s" % (s["spec"]["family"], bad[0].cmd.split()[0]), "ASan/UBSan stopped the case at '%s' (%s) %s"
                         % (bad[0].cmd[:60], bad[0].exc, rep[:400]), cid, s, {"sanitizer": rep})

    # ---- model tie
    mism, okc = [], 0
    if runner:
        tf = os.path.join(wd, "transcript.txt")
        open(tf, "w").write("\n".join(tr) + "\n")
        rc, mo, me = vlib.run([runner, tf], timeout=1200)
        for line in mo.split("\n"):
            if line.startswith("ok "):
                okc += 1
            elif line.startswith("MISMATCH"):
                mism.append(line[:500])
        if rc != 0:
            mism.append("runner exit %d %s" % (rc, me[-300:]))
    if mism and not res.violations:
        res.violation("correspondence", "split2D / restrict_data model and implementation disagree on %d arrays, e.g. %s" % (len(mism), mism[0][:300]),
                      {"kind": "correspondence-break", "correspondence": "Model.Construct.split2D / restrict_data vs copyGrid(b, e)", "examples": mism[:10]}, no_input=True)
    if proof_broken and not res.violations:
        res.violation("proof", "proof obligations of Properties_C11.v no longer check (%d/%d) %s" %
                      (props["discharged"], props["obligations"], res.coverage["forbidden_tokens"][:2]),
                      {"kind": "proof-break", "theorems": props["theorems"], "log": props["log"][-3000:]}, no_input=True)
    if not ok_ext and not res.violations:
        res.violation("extraction", "extraction of the model failed", {"kind": "proof-break", "log": elog[-2000:]}, no_input=True)

    dist = {}
    for s in live:
        k = "%s/%s/outs%d" % (s["spec"]["family"], s["kind"], s["outs"])
        dist[k] = dist.get(k, 0) + 1
    nontrivial = sum(1 for cid, pl in plan.items() if pl[0] in ("E", "M", "K") and pl[1]["kind"] not in ("fresh", "empty"))
    res.coverage.update({
        "explanation": "The restriction algebra of copyGrid(source, b, e) is proved in Coq (6 theorems: split of strip arrays, restriction of parked samples, the "
                       "hierarchical transform and the surrogate commute with the restriction of the outputs) and tied to the implementation's arrays exactly. "
                       "Completeness of the per-family copy constructors and 'shares no state' are NOT theorems: they are decided by observation on this run's "
                       "sources - digest of the query API of every copy vs the restricted source, byte-identical binary image, and mutation of each side with every "
                       "mutating API call while the other side is re-observed, also under ASan/UBSan.",
        "evaluations": len(scripts), "distinct_nontrivial": nontrivial,
        "rule": "source = random history (family, rule, dims 1-3, outputs 0-4, limits, transforms; state fresh / loaded / pending refinement / merged / setcoef / "
                "active construction with parked samples / empty); per source: copy constructor, assignment, copyGrid, assignment or copyGrid over a non-empty "
                "object, copyGrid(b,e) for ALL sub-ranges (equality cases), and for one full and one sub-range copy two mutation cases (mutate source / mutate "
                "copy with every mutating call, re-observing the other side after each); non-trivial = the source has loaded values, a pending refinement or "
                "construction data; distinct by (source, copy kind, range, side); K cases: the same continuation (refinement by one output of the range, "
                "updateGrid to a larger depth, polynomial space, load, evaluate, integrate, write+read in both formats with a digest and a further update of the "
                "grid read back, begin/candidates/finish) on the source and on the copy must give the same observations on the range, exceptions included; "
                "%d Global grids with a custom tabulated rule (Gauss-Legendre levels, table of %d levels) are always among the sources and are copied "
                "through every path" % (ncust, CUSTOM_LEVELS),
        "samples": [scripts[min(5, len(scripts) - 1)][:14]] if scripts else [],
        "programs": len(live), "traces_validated_against_impl": okc, "disagreements_checked": len(mism),
        "sources": stats["sources"], "sources_skipped_config": stats["sources_skipped"], "equality_cases": stats["equality_cases"],
        "subrange_copies": stats["subrange_copies"], "byte_images_compared": stats["byte_images_compared"],
        "mutation_cases": stats["mutation_cases"], "mutations_applied": stats["mutations_applied"], "other_side_reobserved": stats["redigests"],
        "source_vs_copy_behaviour_compared": stats.get("behaviour_compared", 0), "mutations_failing_on_both_sides": stats.get("mutations_failing_on_both_sides", 0),
        "continuation_cases": stats.get("continuation_cases", 0), "continuation_steps_compared": stats.get("continuation_steps_compared", 0),
        "continuations_failing_on_the_source": stats.get("continuations_failing_on_the_source", 0),
        "custom_tabulated_sources": sum(1 for s in live if is_custom(s["spec"])),
        "special_cases": stats["special_cases"], "sanitizer_cases": stats["asan_cases"], "split_arrays_vs_model": stats["split_arrays"],
        "input_distribution": dist, "direct_property_violations": stats["violations"],
    })
    res.assumptions = [
        "observational identity is judged through the public query API (points, needed, indexes, values, coefficients, weights, basis values, evaluate, "
        "integrate, differentiate, transforms, limits, candidates, binary image) plus the white-box dump of the parked construction samples",
        "acceleration settings are documented as not copied and are not compared",
    ]


def replay(path):
    import json
    rp = json.load(open(path))
    res = vlib.Result(PID, "quick", rp.get("seed", 1), LEVEL)
    if "source" in rp:
        run(res, "quick", rp.get("seed", 1), replay_sources=[rp["source"]])
    else:
        run(res, "quick", rp.get("seed", 1))
    return res.finish()
