"""C04, the evaluation TREE WALK of Local Polynomial grids (evaluate / sparse hierarchical basis share walkTree):
the forest built by GridLocalPolynomial::buildTree() and the walk of walkTree<mode> visit exactly the points whose
basis function is supported at x, hence  evaluate(x) = sum over ALL points of surplus x basis value  and the sparse row of
evaluateSparseHierarchicalFunctions equals the dense row of evaluateHierarchicalFunctions entry by entry - for every
rule, order, dimension and every point set (holes after removePointsByHierarchicalCoefficient, partial construction).

Theorems: coq/Props/Properties_C04_treewalk.v about the model coq/Model/TreeWalk.v.
Tie: harness/walkdrv.cpp (white-box, read-only) dumps the multi-indexes, the private roots/pntr/indx, the surpluses and
for probe points the private walkTree<1> output, the public sparse and dense rows and evaluate(); the extracted model
(ocaml/treewalk_main.ml) rebuilds the forest and the walk in exact rationals and must agree EXACTLY on the forest and on the
visited index sequences, within 1e-12 on values.

Used by props/C04.py through run(res, tier, seed); stand-alone:  python3 props/c04treewalk.py quick 1"""
import json
import os
import re
import sys
import time

sys.path.insert(0, os.path.join(os.path.dirname(os.path.dirname(os.path.abspath(__file__))), "tools"))
import gridlib as gl  # noqa: E402
import vlib  # noqa: E402

PID = "C04"
SUB = "C04_treewalk"
WD = "C04w"
KINDS = [("localp", None), ("semi-localp", None), ("localp-zero", None), ("localp-boundary", None), ("localp", 0)]
FNS = ["hash", "smooth", "peak", "poly"]
CRITS = ["classic", "parents", "direction", "fds", "stable"]

TRUSTED = [
    "Coq 8.16.1 kernel (vm_compute in the Examples); axioms: none",
    "extraction: ExtrOcamlBasic only; OCaml glue ocaml/treewalk_main.ml (binary64 -> exact rational, comparison); C++ driver harness/walkdrv.cpp "
    "(white-box, read-only: points/needed, roots, pntr, indx, surpluses, private walkTree<1>)",
    "modelled: computeDAGDown, computeLevels, buildTree (depth-first first-visit assignment, root choice), evalBasisSupported, walkTree modes 0/1; "
    "MultiIndexSet::getSlot is modelled by its specification (position in a duplicate-free set); binary64 rounding is not modelled "
    "(probe points are mostly on the 2^-40 lattice where the scaled coordinates are exact; points within 1e-10 of a support threshold are skipped and counted)",
]

MISMATCH_KEYS = {
    "forest": "treewalk-forest-differs", "visited": "treewalk-visited-differs", "value": "treewalk-value-differs",
    "dense-value": "treewalk-value-differs", "evaluate": "treewalk-evaluate-differs", "sparse-dense": "treewalk-sparse-dense-differs",
    "public-sparse": "treewalk-public-sparse-differs", "model-visits-not-supported-set": "treewalk-model-statement-fails",
    "hypothesis": "treewalk-hypothesis-fails",
}


def gen_case(r, cid, tier):
    d = r.choice([1, 2, 2, 3, 3, 4])
    rule, order = r.choice(KINDS)
    if order is None:
        order = r.choice([2, 3, -1, 4]) if rule == "semi-localp" else r.choice([1, 1, 2, 3, -1, 4])
        cap = {1: 6, 2: 4, 3: 3, 4: 2}[d]
        if rule == "localp-zero":
            cap = {1: 5, 2: 3, 3: 2, 4: 2}[d]
    else:
        cap = {1: 4, 2: 3, 3: 2, 4: 1}[d]
    depth = r.randint(1, cap)
    outs = r.choice([1, 1, 2, 3])
    ll = gl.kv("ll:", [r.choice([-1, -1, 1, 2, 3]) for _ in range(d)]) if r.random() < 0.1 else ""
    lines = ["case " + cid, "make localp g %d %d %d %d %s%s" % (d, outs, depth, order, rule, ll)]
    obs = lambda: "wdump g %d %d %d" % (r.randint(3, 7), r.randint(1, 10 ** 6), 500 if tier == "quick" else 900)
    if r.random() < 0.3:
        lines.append(obs())                       # nothing loaded: the tree of the needed set
    lines += ["load g " + r.choice(FNS), obs()]
    loaded = True
    for _ in range(r.randint(1, 4)):
        k = r.random()
        if k < 0.35:
            tol = r.choice([1e-4, 1e-3, 1e-2, 5e-2, 2e-1])
            lines.append("refsurp g %s %s %d" % (vlib.hexf(tol), r.choice(CRITS), r.choice([-1] + list(range(outs)))))
            k2 = r.random()
            if k2 < 0.6:
                lines.append("load g " + r.choice(FNS))
            elif k2 < 0.8:
                lines.append("merge g")
            else:
                lines.append(obs())               # refinement pending: the tree is the one of the loaded points
                lines.append("load g " + r.choice(FNS))
            lines.append(obs())
        elif k < 0.7:
            # holes: removal by coefficient (points whose parents are gone become extra roots)
            if r.random() < 0.5:
                lines.append("remtol g %s %d" % (vlib.hexf(r.choice([1e-3, 1e-2, 5e-2, 2e-1])), r.choice([-1] + list(range(outs)))))
            else:
                lines.append("remcount g %d %d" % (r.randint(2, 40), r.choice([-1] + list(range(outs)))))
            lines.append(obs())
        elif k < 0.85:
            lines += ["begin g", "cand g surp %s %s -1" % (vlib.hexf(r.choice([0.0, 1e-3])), r.choice(["stable", "classic", "fds"])),
                      "deliver g %s idx: %s" % (r.choice(FNS), " ".join(map(str, r.sample(range(8), r.randint(1, 5))))), obs(),
                      "finish g", obs()]
        else:
            lines += ["setcoef g " + r.choice(FNS), obs()]
    return lines


def matrix_cases():
    """every rule x dims 1..3, complete grid then two removals: always exercised, whatever the seed"""
    out = []
    i = 0
    for rule, order in KINDS:
        for d in (1, 2, 3):
            o = 0 if order == 0 else (2 if rule == "semi-localp" else (1 if d != 2 else 3))
            depth = {1: 4, 2: 3, 3: 2}[d] if order != 0 else {1: 3, 2: 2, 3: 1}[d]
            cid = "mx%d" % i
            i += 1
            out.append(["case " + cid, "make localp g %d 2 %d %d %s" % (d, depth, o, rule), "wdump g 3 %d" % (11 + i), "load g peak", "wdump g 4 %d" % (23 + i),
                        "remcount g %d -1" % {1: 9, 2: 15, 3: 12}[d], "wdump g 4 %d" % (37 + i), "remcount g 4 0", "wdump g 4 %d" % (41 + i)])
    return out


def corpus_cases():
    cdir = os.path.join(vlib.ROOT, "corpus", "C04")
    out = {}
    for f in sorted(os.listdir(cdir)) if os.path.isdir(cdir) else []:
        try:
            w = json.load(open(os.path.join(cdir, f)))
        except (OSError, ValueError):
            continue
        if isinstance(w, dict) and w.get("driver") == "walkdrv" and w.get("script"):
            cid = "corpus_" + re.sub(r"[^A-Za-z0-9]", "_", f[:-5])
            out[cid] = ["case " + cid] + [l for l in w["script"] if not l.startswith("case ")]
    return out


def run_model_parallel(runner, drv_out, wd):
    """the extracted model works in exact rationals with unary/binary Coq numbers: the driver log is split by case into chunks that
    are checked by concurrent runner processes"""
    import concurrent.futures
    blocks, cur = [], []
    for line in drv_out.split("\n"):
        if line.startswith("case ") and cur:
            blocks.append(cur)
            cur = []
        cur.append(line)
    if cur:
        blocks.append(cur)
    nproc = max(1, min(vlib.NCPU, 16, len(blocks)))
    files = []
    for j in range(nproc):
        fn = os.path.join(wd, "walk.part%d.out" % j)
        with open(fn, "w") as fh:
            for b in blocks[j::nproc]:
                fh.write("\n".join(b) + "\n")
        files.append(fn)
    with concurrent.futures.ThreadPoolExecutor(max_workers=nproc) as ex:
        results = list(ex.map(lambda fn: vlib.run([runner, fn], timeout=2400), files))
    rc = max([r[0] for r in results] + [0])
    return rc, "".join(r[1] for r in results), "".join(r[2] for r in results)


def run(res, tier, seed, replay_script=None):
    t0 = time.time()
    cov = {}
    res.coverage["treewalk"] = cov
    props = vlib.coq_props(SUB)
    bad_axioms = {k: v for k, v in props["assumptions"].items() if not v.startswith("Closed under the global context")}
    cov.update({"props_file": "coq/Props/Properties_C04_treewalk.v", "obligations": props["obligations"], "discharged": props["discharged"],
                "theorems": props["theorems"], "print_assumptions": props["assumptions"], "trusted_base": TRUSTED})
    proof_broken = (not props["ok"]) or bool(bad_axioms) or len(props["assumptions"]) != props["obligations"]
    ok_ext, elog = vlib.coq_make(["Extract/ExtractTreeWalk.vo"])
    runner = vlib.ocaml_runner("treewalk") if ok_ext else None
    drv, derr = vlib.try_build_driver("walkdrv")
    wd = os.path.join(vlib.BUILD, "work", WD)
    os.makedirs(wd, exist_ok=True)
    r = vlib.rng(seed, SUB)
    nv0 = len(res.violations)

    scripts = {}
    if replay_script:
        cid = replay_script[0].split()[1] if replay_script[0].startswith("case ") else "replay"
        scripts[cid] = list(replay_script) if replay_script[0].startswith("case ") else ["case replay"] + list(replay_script)
    else:
        scripts.update(corpus_cases())
        for ls in matrix_cases():
            scripts[ls[0].split()[1]] = ls
        for i in range({"quick": 400, "thorough": 5000}[tier] * (2 if proof_broken else 1)):
            cid = "w%d" % i
            scripts[cid] = gen_case(r, cid, tier)
    lines = [l for ls in scripts.values() for l in ls]
    stats = {"crashes": 0, "exceptions": 0}
    totals, mism = {}, []
    if drv is None:
        res.violation("treewalk-correspondence", "white-box driver walkdrv no longer compiles/links against the source: " + derr[-600:],
                      {"kind": "correspondence-break", "correspondence": "walkdrv (roots, pntr, indx, walkTree<1>)"}, no_input=True)
    else:
        sp = os.path.join(wd, "walk.txt")
        with open(sp, "w") as fh:
            fh.write("\n".join(lines) + "\n")
        rc, so, se = vlib.run([drv, sp, wd, "30"], timeout=2400)
        outp = os.path.join(wd, "walk.out")
        with open(outp, "w") as fh:
            fh.write(so)
        if rc != 0:
            res.violation("treewalk-driver-crash", "walkdrv exited with %d: %s" % (rc, se[-400:]), {"kind": "impl-counterexample", "driver": "walkdrv", "script": lines[-40:]})
        cid, cmd, emptied = None, "", False
        seen_exc = set()
        for line in so.split("\n"):
            if line.startswith("case "):
                cid, emptied = line[5:].strip(), False
            elif line.startswith("c "):
                cmd = line[2:]
            elif line.startswith("o wskip"):
                stats["too_large"] = stats.get("too_large", 0) + 1
            elif line.startswith("x "):
                t = line.split(None, 2)
                kind = t[1]
                if emptied:
                    continue
                if kind == "driver" and "needs a local polynomial grid" in line:
                    # a removal by coefficient kept no point: the grid object is empty, the rest of the history is outside this property (C14)
                    emptied = True
                    stats["emptied"] = stats.get("emptied", 0) + 1
                    continue
                if kind == "hang":
                    stats["slow_calls"] = stats.get("slow_calls", 0) + 1      # running time is not part of the statement
                elif kind.startswith("crash") or kind.startswith("other") or (kind == "runtime_error") or (kind == "driver" and "wdump" in cmd):
                    stats["crashes"] += 1
                    key = "treewalk-%s:%s" % ("no-return" if kind == "hang" else ("crash" if kind.startswith("crash") else "unexpected-exception"), cmd.split()[0] if cmd else "?")
                    if key not in seen_exc:
                        seen_exc.add(key)
                        res.violation(key, "%s -> %s [case %s]" % (cmd, line, cid), {"kind": "impl-counterexample", "driver": "walkdrv", "script": scripts.get(cid, [])})
                else:
                    stats["exceptions"] += 1       # documented rejections (invalid_argument) and harness range errors end the step, not the case
        if runner:
            rc3, mo, me = run_model_parallel(runner, so, wd)
            with open(os.path.join(wd, "walk.model.out"), "w") as fh:
                fh.write(mo)
            for line in mo.split("\n"):
                if line.startswith("MISMATCH") or line.startswith("EXHAUSTED"):
                    mism.append(line)
                elif line.startswith("totals "):
                    for kv in line.split()[1:]:
                        if "=" in kv and not kv.startswith("by_"):
                            k, v = kv.split("=", 1)
                            if re.fullmatch(r"-?\d+", v):
                                totals[k] = totals.get(k, 0) + int(v)
                    m = re.search(r"by_rule=([\d ]+?) by_dim=([\d ]+)$", line)
                    if m:
                        for k, v in zip(["pwc", "localp", "semilocalp", "localp0", "localpb"], map(int, m.group(1).split())):
                            totals.setdefault("by_rule", {})[k] = totals.get("by_rule", {}).get(k, 0) + v
                        for i, v in enumerate(m.group(2).split()):
                            if int(v):
                                totals.setdefault("by_dim", {})[str(i)] = totals.get("by_dim", {}).get(str(i), 0) + int(v)
            if rc3 != 0 or not totals:
                mism.append("MISMATCH -#0 runner-failed " + (me or mo)[-300:])
    seen = set()
    for mline in mism:
        t = mline.split(None, 3)
        tag = t[1] if len(t) > 1 else "-#0"
        cid = tag.split("#")[0]
        what = t[2] if len(t) > 2 else "runner-failed"
        if mline.startswith("EXHAUSTED"):
            what = "fuel"
        key = MISMATCH_KEYS.get(what)
        if key is None:
            if "correspondence" not in seen:
                seen.add("correspondence")
                res.violation("treewalk-correspondence", "tree-walk model could not be evaluated: " + mline[:300],
                              {"kind": "correspondence-break", "correspondence": "TreeWalk model vs walkdrv", "examples": mism[:5], "script": scripts.get(cid, [])}, no_input=True)
            continue
        if key in seen:
            continue
        seen.add(key)
        res.violation(key, "%s [case %s, observation %s]" % (mline[:500], cid, tag),
                      {"kind": "impl-counterexample", "driver": "walkdrv", "script": scripts.get(cid, []), "observation": tag, "detail": mline[:4000]})
    if proof_broken and len(res.violations) == nv0:
        res.violation("treewalk-proof", "proof obligations of Properties_C04_treewalk.v no longer check (%d/%d) %s" %
                      (props["discharged"], props["obligations"], list(bad_axioms)[:2]),
                      {"kind": "proof-break", "theorems": props["theorems"], "log": props["log"][-3000:]}, no_input=True)
    if not ok_ext and len(res.violations) == nv0:
        res.violation("treewalk-extraction", "extraction of the tree-walk model failed", {"kind": "proof-break", "log": elog[-2000:]}, no_input=True)
    cov.update({
        "cases": len(scripts), "forests_compared_exactly": totals.get("forests", 0), "forests_with_several_roots": totals.get("multiroot", 0),
        "probe_points_compared": totals.get("probes", 0), "probe_points_skipped_borderline": totals.get("skipped_borderline", 0), "skipped_borderline_pwc": totals.get("skipped_pwc", 0), "skipped_borderline_binary_rules": totals.get("skipped_binary", 0),
        "visited_points_compared": totals.get("visited", 0), "basis_values_compared": totals.get("values", 0), "evaluate_outputs_compared": totals.get("evaluates", 0),
        "probes_with_unsupported_points": totals.get("probes_with_unsupported", 0), "probes_on_a_closed_support_boundary": totals.get("probes_with_zero_value_visit", 0),
        "disagreements": len(mism), "by_rule": totals.get("by_rule", {}), "by_dimension": totals.get("by_dim", {}),
        "histories_ended_by_a_removal_of_all_points": stats.get("emptied", 0), "observations_skipped_too_large": stats.get("too_large", 0), "crashes": stats["crashes"], "rejected_steps": stats["exceptions"], "value_tolerance": 1e-12, "wall_s": round(time.time() - t0, 1),
        "rule": "case = makeLocalPolynomialGrid (4 binary rules orders 1,2,3,4,-1 + order 0 pwc, dims 1-4, random depth/outputs/limits); load; 1-4 of: "
                "surplus refinement (5 criteria) loaded / merged / left pending, removePointsByHierarchicalCoefficient by tolerance or count (holes, several roots), "
                "partial dynamic construction, setHierarchicalCoefficients; after every step the tree and ~20 probe points (random on the 2^-40 lattice, random doubles, nodes, "
                "node +- support exactly / just inside / just outside, corners, outside the domain); plus a fixed rule x dimension matrix with two removals",
        "sample": (list(scripts.values())[len(scripts) // 2] if scripts else []),
    })
    return cov


# ---------------------------------------------------------------------------------------------------------------------------
# C05, derivative modes of the walk (walkTree<3> / walkTree<4>, differentiate): theorems coq/Props/Properties_C05_treewalk.v about
# coq/Model/TreeWalkDiff.v; tie: walkdrv `wddump` + ocaml/treewalkdiff_main.ml.  NOT called by run().
SUB_DIFF = "C05_treewalk"
WD_DIFF = "C05tw"
DIFF_KINDS = ["localp", "semi-localp", "localp-zero", "localp-boundary"]
DIFF_KEYS = {"diff-visited": "treewalk-diff-visited-differs", "diff-value": "treewalk-diff-value-differs",
             "differentiate": "treewalk-differentiate-differs", "hypothesis": "treewalk-diff-hypothesis-fails"}
TRUSTED_DIFF = [
    "Coq 8.16.1 kernel (vm_compute in the Examples); axioms: none",
    "extraction: ExtrOcamlBasic only; OCaml glue ocaml/treewalkdiff_main.ml (binary64 -> exact rational, comparison); C++ driver harness/walkdrv.cpp "
    "command wddump (white-box, read-only: points/needed, surpluses, private walkTree<4>; public GridLocalPolynomial::differentiate)",
    "modelled: diffBasisSupported (OR of the per-direction flags, product-rule accumulation), walkTree modes 3/4 on the forest of Model/TreeWalk.v; "
    "binary64 rounding is not modelled (values compared within 1e-10; probes within 1e-10 of a support threshold skipped; values at kinks not compared)",
]


def gen_diff_case(r, cid, tier):
    d = r.choice([1, 2, 2, 3, 3, 4])
    rule = r.choice(DIFF_KINDS)
    order = r.choice([2, 3, -1, 4]) if rule == "semi-localp" else r.choice([1, 1, 2, 3, -1, 4])
    cap = {1: 6, 2: 4, 3: 3, 4: 2}[d]
    if rule == "localp-zero":
        cap = {1: 5, 2: 3, 3: 2, 4: 2}[d]
    depth = r.randint(1, cap)
    outs = r.choice([1, 2, 2, 3, 3, 5])
    lines = ["case " + cid, "make localp g %d %d %d %d %s" % (d, outs, depth, order, rule)]
    obs = lambda: "wddump g %d %d %d" % (r.randint(3, 6), r.randint(1, 10 ** 6), 250 if tier == "quick" else 600)
    if r.random() < 0.15:
        lines.append(obs())                       # nothing loaded: mode 4 on the tree of the needed set
    lines += ["load g " + r.choice(FNS), obs()]
    for _ in range(r.randint(0, 2)):
        k = r.random()
        if k < 0.4:
            lines.append("refsurp g %s %s %d" % (vlib.hexf(r.choice([1e-4, 1e-3, 1e-2, 5e-2])), r.choice(CRITS), r.choice([-1] + list(range(outs)))))
            lines += ["load g " + r.choice(FNS), obs()]
        elif k < 0.85:
            if r.random() < 0.5:
                lines.append("remtol g %s %d" % (vlib.hexf(r.choice([1e-3, 1e-2, 5e-2, 2e-1])), r.choice([-1] + list(range(outs)))))
            else:
                lines.append("remcount g %d %d" % (r.randint(2, 40), r.choice([-1] + list(range(outs)))))
            lines.append(obs())
        else:
            lines += ["setcoef g " + r.choice(FNS), obs()]
    return lines


def diff_matrix_cases():
    out = []
    i = 0
    for rule in DIFF_KINDS:
        for d in (1, 2, 3):
            o = 2 if rule == "semi-localp" else {1: 1, 2: 3, 3: -1}[d]
            depth = {1: 4, 2: 3, 3: 2}[d]
            cid = "dmx%d" % i
            i += 1
            out.append(["case " + cid, "make localp g %d 3 %d %d %s" % (d, depth, o, rule), "wddump g 3 %d" % (11 + i), "load g peak", "wddump g 4 %d" % (23 + i),
                        "remcount g %d -1" % {1: 9, 2: 15, 3: 12}[d], "wddump g 4 %d" % (37 + i)])
    return out


def run_diff(res, tier, seed, replay_script=None):
    t0 = time.time()
    cov = {}
    res.coverage["treewalk_diff"] = cov
    props = vlib.coq_props(SUB_DIFF)
    bad_axioms = {k: v for k, v in props["assumptions"].items() if not v.startswith("Closed under the global context")}
    cov.update({"props_file": "coq/Props/Properties_C05_treewalk.v", "obligations": props["obligations"], "discharged": props["discharged"],
                "theorems": props["theorems"], "print_assumptions": props["assumptions"], "trusted_base": TRUSTED_DIFF})
    proof_broken = (not props["ok"]) or bool(bad_axioms) or len(props["assumptions"]) != props["obligations"]
    ok_ext, elog = vlib.coq_make(["Extract/ExtractTreeWalkDiff.vo"])
    runner = vlib.ocaml_runner("treewalkdiff") if ok_ext else None
    drv, derr = vlib.try_build_driver("walkdrv")
    wd = os.path.join(vlib.BUILD, "work", WD_DIFF)
    os.makedirs(wd, exist_ok=True)
    r = vlib.rng(seed, SUB_DIFF)
    nv0 = len(res.violations)
    scripts = {}
    if replay_script:
        cid = replay_script[0].split()[1] if replay_script[0].startswith("case ") else "replay"
        scripts[cid] = list(replay_script) if replay_script[0].startswith("case ") else ["case replay"] + list(replay_script)
    else:
        for ls in diff_matrix_cases():
            scripts[ls[0].split()[1]] = ls
        for i in range({"quick": 150, "thorough": 1500}[tier] * (2 if proof_broken else 1)):
            cid = "d%d" % i
            scripts[cid] = gen_diff_case(r, cid, tier)
    lines = [l for ls in scripts.values() for l in ls]
    stats = {"crashes": 0, "exceptions": 0}
    totals, mism = {}, []
    if drv is None:
        res.violation("treewalk-diff-correspondence", "white-box driver walkdrv no longer compiles/links against the source: " + derr[-600:],
                      {"kind": "correspondence-break", "correspondence": "walkdrv wddump (walkTree<4>, differentiate)"}, no_input=True)
    else:
        sp = os.path.join(wd, "walkd.txt")
        with open(sp, "w") as fh:
            fh.write("\n".join(lines) + "\n")
        rc, so, se = vlib.run([drv, sp, wd, "30"], timeout=2400)
        with open(os.path.join(wd, "walkd.out"), "w") as fh:
            fh.write(so)
        if rc != 0:
            res.violation("treewalk-diff-driver-crash", "walkdrv exited with %d: %s" % (rc, se[-400:]), {"kind": "impl-counterexample", "driver": "walkdrv", "script": lines[-40:]})
        cid, cmd, emptied = None, "", False
        seen_exc = set()
        for line in so.split("\n"):
            if line.startswith("case "):
                cid, emptied = line[5:].strip(), False
            elif line.startswith("c "):
                cmd = line[2:]
            elif line.startswith("o dskip"):
                stats["too_large"] = stats.get("too_large", 0) + 1
            elif line.startswith("x "):
                kind = line.split(None, 2)[1]
                if emptied:
                    continue
                if kind == "driver" and "needs a local polynomial grid" in line:
                    emptied = True
                    stats["emptied"] = stats.get("emptied", 0) + 1
                    continue
                if kind == "hang":
                    stats["slow_calls"] = stats.get("slow_calls", 0) + 1      # running time is not part of the statement
                elif kind.startswith("crash") or kind.startswith("other") or (kind == "runtime_error") or (kind == "driver" and "wddump" in cmd):
                    stats["crashes"] += 1
                    key = "treewalk-diff-%s:%s" % ("no-return" if kind == "hang" else ("crash" if kind.startswith("crash") else "unexpected-exception"), cmd.split()[0] if cmd else "?")
                    if key not in seen_exc:
                        seen_exc.add(key)
                        res.violation(key, "%s -> %s [case %s]" % (cmd, line, cid), {"kind": "impl-counterexample", "driver": "walkdrv", "script": scripts.get(cid, [])})
                else:
                    stats["exceptions"] += 1
        if runner:
            import concurrent.futures
            blocks, cur = [], []
            for line in so.split("\n"):
                if line.startswith("case ") and cur:
                    blocks.append(cur)
                    cur = []
                cur.append(line)
            if cur:
                blocks.append(cur)
            nproc = max(1, min(vlib.NCPU, 16, len(blocks)))
            files = []
            for j in range(nproc):
                fn = os.path.join(wd, "walkd.part%d.out" % j)
                with open(fn, "w") as fh:
                    for b in blocks[j::nproc]:
                        fh.write("\n".join(b) + "\n")
                files.append(fn)
            with concurrent.futures.ThreadPoolExecutor(max_workers=nproc) as ex:
                results = list(ex.map(lambda fn: vlib.run([runner, fn], timeout=2400), files))
            rc3 = max([x[0] for x in results] + [0])
            mo, me = "".join(x[1] for x in results), "".join(x[2] for x in results)
            with open(os.path.join(wd, "walkd.model.out"), "w") as fh:
                fh.write(mo)
            for line in mo.split("\n"):
                if line.startswith("MISMATCH") or line.startswith("EXHAUSTED"):
                    mism.append(line)
                elif line.startswith("totals "):
                    for kv in line.split()[1:]:
                        if "=" in kv and not kv.startswith("by_"):
                            k, v = kv.split("=", 1)
                            if re.fullmatch(r"-?\d+", v):
                                totals[k] = totals.get(k, 0) + int(v)
                    m = re.search(r"by_rule=([\d ]+?) by_dim=([\d ]+)$", line)
                    if m:
                        for k, v in zip(["pwc", "localp", "semilocalp", "localp0", "localpb"], map(int, m.group(1).split())):
                            totals.setdefault("by_rule", {})[k] = totals.get("by_rule", {}).get(k, 0) + v
                        for i, v in enumerate(m.group(2).split()):
                            if int(v):
                                totals.setdefault("by_dim", {})[str(i)] = totals.get("by_dim", {}).get(str(i), 0) + int(v)
            if rc3 != 0 or not totals:
                mism.append("MISMATCH -#0 runner-failed " + (me or mo)[-300:])
    seen = set()
    for mline in mism:
        t = mline.split(None, 3)
        tag = t[1] if len(t) > 1 else "-#0"
        cid = tag.split("#")[0]
        what = "fuel" if mline.startswith("EXHAUSTED") else (t[2] if len(t) > 2 else "runner-failed")
        key = DIFF_KEYS.get(what)
        if key is None:
            if "correspondence" not in seen:
                seen.add("correspondence")
                res.violation("treewalk-diff-correspondence", "derivative tree-walk model could not be evaluated: " + mline[:300],
                              {"kind": "correspondence-break", "correspondence": "TreeWalkDiff model vs walkdrv wddump", "examples": mism[:5], "script": scripts.get(cid, [])}, no_input=True)
            continue
        if key in seen:
            continue
        seen.add(key)
        res.violation(key, "%s [case %s, observation %s]" % (mline[:500], cid, tag),
                      {"kind": "impl-counterexample", "driver": "walkdrv", "script": scripts.get(cid, []), "observation": tag, "detail": mline[:4000]})
    if proof_broken and len(res.violations) == nv0:
        res.violation("treewalk-diff-proof", "proof obligations of Properties_C05_treewalk.v no longer check (%d/%d) %s" %
                      (props["discharged"], props["obligations"], list(bad_axioms)[:2]),
                      {"kind": "proof-break", "theorems": props["theorems"], "log": props["log"][-3000:]}, no_input=True)
    if not ok_ext and len(res.violations) == nv0:
        res.violation("treewalk-diff-extraction", "extraction of the derivative tree-walk model failed", {"kind": "proof-break", "log": elog[-2000:]}, no_input=True)
    cov.update({
        "cases": len(scripts), "forests": totals.get("forests", 0), "probe_points_compared": totals.get("probes", 0),
        "probe_points_skipped_borderline": totals.get("skipped_borderline", 0), "probe_points_on_a_kink_values_not_compared": totals.get("kink_probes", 0),
        "visited_points_compared_exactly": totals.get("visited", 0), "visits_beyond_the_value_walk": totals.get("extra_visits", 0),
        "gradient_values_compared": totals.get("values", 0), "gradient_values_nonzero": totals.get("nonzero_values", 0),
        "differentiate_entries_compared": totals.get("differentiates", 0), "probes_where_the_walk_pruned": totals.get("probes_with_pruning", 0),
        "disagreements": len(mism), "by_rule": totals.get("by_rule", {}), "by_dimension": totals.get("by_dim", {}),
        "histories_ended_by_a_removal_of_all_points": stats.get("emptied", 0), "observations_skipped_too_large": stats.get("too_large", 0),
        "crashes": stats["crashes"], "rejected_steps": stats["exceptions"], "value_tolerance": 1e-10, "wall_s": round(time.time() - t0, 1),
        "rule": "case = makeLocalPolynomialGrid (4 binary rules, orders 1,2,3,4,-1, dims 1-4, 1-5 outputs); load; 0-2 of: surplus refinement + load, "
                "removePointsByHierarchicalCoefficient (holes, several roots), setHierarchicalCoefficients; after every step ~20 probe points (as in wdump) with "
                "walkTree<4> and differentiate(); plus a fixed rule x dimension matrix with a removal",
        "sample": (list(scripts.values())[len(scripts) // 2] if scripts else []),
    })
    return cov


def main_diff(argv):
    """stand-alone: python3 props/c04treewalk.py diff quick 1  -> exit 0/1, nothing written under evidence/"""
    tier = argv[0] if argv and argv[0] in ("quick", "thorough") else "quick"
    seed = int(argv[1]) if len(argv) > 1 else int(os.environ.get("VERIF_SEED", "1") or 1)
    res = vlib.Result("C05", tier, seed, "proof")
    try:
        run_diff(res, tier, seed)
    except vlib.BuildError as e:
        res.violation("treewalk-diff-build", "build failed: " + str(e)[:1500], {"kind": "build-failure", "detail": str(e)}, no_input=True)
    cov = res.coverage.get("treewalk_diff", {})
    for key, text in res.known_hit:
        print("KNOWN-FINDING: property=C05 key=%s %s" % (key, text))
    seen = set()
    for v in res.violations:
        if v["key"] in seen:
            continue
        seen.add(v["key"])
        print("DETAIL property=C05 key=%s %s" % (v["key"], v["what"][:400].replace("\n", " ")))
        print("VIOLATION property=C05 replay=%s%s" % (v["replay"], " no-failing-input-found" if v["no_input"] else ""))
    short = {k: v for k, v in cov.items() if k not in ("rule", "sample", "trusted_base", "print_assumptions", "theorems")}
    print("SUMMARY " + json.dumps(short, default=str))
    sys.stdout.flush()
    return 1 if res.violations else 0


def finish_standalone(res):
    """print the outcome like Result.finish() but write the evidence under _build/work/C04w/ (never evidence/C04.json)"""
    wd = os.path.join(vlib.BUILD, "work", WD)
    os.makedirs(wd, exist_ok=True)
    cov = res.coverage.get("treewalk", {})
    with open(os.path.join(wd, "evidence-standalone.json"), "w") as fh:
        json.dump({"property_id": PID, "part": "treewalk", "tier": res.tier, "seed": res.seed, "coverage": cov,
                   "violations": len(res.violations), "known": [k for k, _ in res.known_hit]}, fh, indent=1, default=str)
    for key, text in res.known_hit:
        print("KNOWN-FINDING: property=%s key=%s %s" % (PID, key, text))
    seen = set()
    for v in res.violations:
        if v["key"] in seen:
            continue
        seen.add(v["key"])
        print("DETAIL property=%s key=%s %s" % (PID, v["key"], v["what"][:400].replace("\n", " ")))
        print("VIOLATION property=%s replay=%s%s" % (PID, v["replay"], " no-failing-input-found" if v["no_input"] else ""))
    short = {k: v for k, v in cov.items() if k not in ("rule", "sample", "trusted_base", "print_assumptions", "theorems")}
    print("SUMMARY " + json.dumps(short, default=str))
    sys.stdout.flush()
    return 1 if res.violations else 0


def replay(path):
    rp = json.load(open(path))
    res = vlib.Result(PID, "quick", rp.get("seed", 1), "proof")
    run(res, "quick", rp.get("seed", 1), replay_script=rp.get("script"))
    return finish_standalone(res)


def main():
    if len(sys.argv) >= 2 and sys.argv[1] == "diff":
        return main_diff(sys.argv[2:])
    if len(sys.argv) >= 3 and sys.argv[1] == "--replay":
        return replay(sys.argv[2])
    tier = sys.argv[1] if len(sys.argv) > 1 and sys.argv[1] in ("quick", "thorough") else "quick"
    seed = int(sys.argv[2]) if len(sys.argv) > 2 else int(os.environ.get("VERIF_SEED", "1") or 1)
    res = vlib.Result(PID, tier, seed, "proof")
    try:
        run(res, tier, seed)
    except vlib.BuildError as e:
        res.violation("treewalk-build", "build failed: " + str(e)[:1500], {"kind": "build-failure", "detail": str(e)}, no_input=True)
    return finish_standalone(res)


if __name__ == "__main__":
    sys.exit(main())
