#!/usr/bin/env python3
"""props/exactnessgen.py — re-check the exactness TABLES of the one-dimensional rules (OneDimensionalMeta::getNumPoints / getIExact /
getQExact, SparseGrids/tsgCoreOneDimensional.cpp) against the theorems about them, from the CURRENT source.

regenerate_and_check(res=None) -> dict
  1. translator/exactness.py: coq/gen/ExactnessGen.v from tsgCoreOneDimensional.cpp + tsgEnumerates.hpp + tsgMathUtils.hpp (clang AST);
  2. DIRECT CORRESPONDENCE on every run (validates the translator): a tiny C++ program linked with the library of the working tree
     (vlib.build_lib("plain")) prints the three tables for every rule of `onedrule` and the levels 0..NLEV (a rule stops where a value
     of the generated functions comes within a factor 4 of INT_MAX), compared entry by entry with `Eval vm_compute` of g_numPoints /
     g_iExact / g_qExact;
  3. build Props/Properties_Exactness.vo (Proofs/ExactnessProofs.v: positive and strictly increasing number of points, monotone
     exactness tables = hypothesis m_mono of the combination theorems, the n-1 and 2n-1 bounds, the instantiation of
     sparse_interpolation_exact with the table, for EVERY level >= 0); every theorem must be closed under the global context;
  4. on failure: every statement is evaluated by vm_compute on all rules x levels 0..30 and the first violating (rule, level) of each
     is returned with the values of the generated functions AND of the compiled C++ at that input.
  keys: ok, stage ('ok' | 'translator' | 'correspondence' | 'coq'), log, theorems, assumptions, source_hash, rules, omitted,
        correspondence (dict: entries compared, levels, skipped_overflow, first difference or None),
        violating_input (None or dict(property, breaks, rule, level, generated, compiled, statement, verdict)),
        violations (first violation of every property that fails), breaks (sorted set of the classes that break: 'monotonicity',
        'n-1 bound', '2n-1 bound', 'n-1 tightness', '2n-1 tightness', 'positivity', 'classification'), wall_s.
  When run on a scratch tree (VERIF_REPO) the generated file is put back to the translation of /repo afterwards.
stand-alone: python3 props/exactnessgen.py   prints the dict (json), exit 0 iff ok."""
import hashlib
import importlib
import json
import os
import re
import sys
import time

ROOT = os.path.dirname(os.path.dirname(os.path.abspath(__file__)))
for d in ("tools", "translator"):
    if os.path.join(ROOT, d) not in sys.path:
        sys.path.insert(0, os.path.join(ROOT, d))
import vlib  # noqa: E402

WORK = os.path.join(vlib.BUILD, "work", "exact")
GEN = os.path.join(vlib.COQDIR, "gen", "ExactnessGen.v")
PROOFS = os.path.join(vlib.COQDIR, "Proofs", "ExactnessProofs.v")
TARGET = "Props/Properties_Exactness.vo"
NLEV = 20            # levels of the direct correspondence
NSEARCH = 30         # levels of the violation search
NTAB = NSEARCH + 1   # the tables are evaluated up to here (a statement at level l reads level l + 1)
INT_GUARD = (2 ** 31 - 1) // 4
FNS = ["numPoints", "iExact", "qExact"]
CPPFN = {"numPoints": "getNumPoints", "iExact": "getIExact", "qExact": "getQExact"}

# the statements of Props/Properties_Exactness.v as boolean tests  (name, class, Gallina test of r l, statement)
CC0 = "match r with rule_clenshawcurtis0 => true | _ => false end"
FOU = "match r with rule_fourier => true | _ => false end"
PROPS = [
    ("exact_numPoints_pos", "positivity", "0 <? nP r l", "0 < numPoints"),
    ("exact_numPoints_ge_level", "positivity", "l + 1 <=? nP r l", "level + 1 <= numPoints"),
    ("exact_numPoints_mono", "monotonicity", "nP r l <? nP r (l + 1)", "numPoints(l) < numPoints(l+1)"),
    ("exact_tables_nonneg", "positivity", "(0 <=? iE r l) && (0 <=? qE r l)", "0 <= iExact and 0 <= qExact"),
    ("exact_iexact_mono", "monotonicity", "iE r l <=? iE r (l + 1)", "iExact(l) <= iExact(l+1)  (m_mono of the combination theorems, ip types)"),
    ("exact_qexact_mono", "monotonicity", "qE r l <=? qE r (l + 1)", "qExact(l) <= qExact(l+1)  (m_mono of the combination theorems, qp types)"),
    ("exact_iexact_strict", "monotonicity", "iE r l <? iE r (l + 1)", "iExact(l) < iExact(l+1)"),
    ("exact_iexact_vs_points", "n-1 bound", "(%s) || (iE r l <=? nP r l - 1)" % CC0, "iExact <= numPoints - 1 (every rule but rule_clenshawcurtis0)"),
    ("exact_iexact_vs_points_refuted", "classification", "negb (%s) || (iE r l =? nP r l - 1 + 3)" % CC0,
     "rule_clenshawcurtis0: iExact = (numPoints - 1) + 3, the known overstatement, no more and no less"),
    ("exact_cc0_tables", "classification", "negb (%s) || ((nP r l =? 2 ^ (l + 1) - 1) && (iE r l =? 2 ^ (l + 1) + 1))" % CC0,
     "rule_clenshawcurtis0: numPoints = 2^(l+1) - 1, iExact = 2^(l+1) + 1"),
    ("exact_fourier_tables", "classification", "negb (%s) || ((nP r l =? 3 ^ l) && (2 * iE r l + 1 =? nP r l) && (qE r l =? iE r l))" % FOU,
     "rule_fourier: numPoints = 3^l = 2 iExact + 1, qExact = iExact"),
    ("exact_interp_tight_correct", "n-1 tightness", "negb (is_interp_tight r) || (iE r l =? nP r l - 1)",
     "iExact = numPoints - 1 for the rules of is_interp_tight (premise nodes_len of sparse_interpolation_exact)"),
    ("exact_qexact_vs_points", "2n-1 bound", "qE r l <=? 2 * nP r l - 1", "qExact <= 2 numPoints - 1"),
    ("exact_gauss_tight_correct", "2n-1 tightness", "negb (is_gauss_tight r) || (qE r l =? 2 * nP r l - 1)", "qExact = 2 numPoints - 1 for the Gauss rules"),
    ("exact_qexact_interpolatory", "classification", "is_beyond_interpolatory r || (qE r l <=? nP r l - 1 + Z.rem (nP r l) 2)",
     "qExact <= numPoints - 1 + (numPoints mod 2) for every rule but the Gauss rules, Gauss-Patterson, rule_clenshawcurtis0 "
     "(interpolatory rule; one more degree by symmetry only for an odd number of nodes)"),
    ("exact_qexact_cc0", "classification", "negb (%s) || (l =? 0) || (qE r l =? nP r l + 2)" % CC0, "rule_clenshawcurtis0: qExact = numPoints + 2 for level >= 1"),
]
# the converse directions of the two classifications are proved with a witness level: tested at that level only
PROPS_AT = [
    ("exact_interp_tight_correct", "classification", 1, "is_interp_tight r || negb (iE r l =? nP r l - 1)",
     "a rule outside is_interp_tight has iExact <> numPoints - 1 at level 1"),
    ("exact_gauss_tight_correct", "classification", 2, "is_gauss_tight r || negb (qE r l =? 2 * nP r l - 1)",
     "a rule outside is_gauss_tight has qExact <> 2 numPoints - 1 at level 2"),
]


def _translate(repo):
    mod = importlib.import_module("exactness")
    cfg = os.path.join(WORK, "cfg-" + re.sub(r"\W", "_", os.path.realpath(repo))[-40:])
    saved, vlib.REPO = vlib.REPO, repo
    try:
        vlib.gen_config(cfg)
    finally:
        vlib.REPO = saved
    return mod, cfg, mod.generate(repo, cfg, WORK)


def _coqc_script(name, text, timeout=600):
    path = os.path.join(WORK, name)
    with open(path, "w") as fh:
        fh.write(text)
    with vlib.Lock("coq"):
        return vlib.run(["coqc", "-Q", vlib.COQDIR, "TV", "-w", "-notation-overridden", path], timeout=timeout)


def _coq_tables(rules):
    """{(fn, rule, level): value} of the generated functions for levels 0..NTAB, or (None, log)"""
    ok, log = vlib.coq_make(["gen/ExactnessGen.vo"], timeout=300)
    if not ok:
        return None, "gen/ExactnessGen.v does not compile:\n" + log[-2000:]
    txt = ("From TV Require Import Common.Prelude gen.ExactnessGen.\nLocal Open Scope Z_scope.\nSet Printing Width 1000000. Set Printing Depth 1000000.\n"
           "Definition upto (n : nat) : list Z := map Z.of_nat (seq 0 (S n)).\n"
           "Eval vm_compute in all_rules.\n"
           "Eval vm_compute in map (fun r => map (fun l => [g_numPoints r l; g_iExact r l; g_qExact r l]) (upto %d)) all_rules.\n" % NTAB)
    rc, so, se = _coqc_script("tables.v", txt)
    m = re.findall(r"^\s*= (\[.*?\])\s*: list", so, re.M | re.S)
    if rc != 0 or len(m) != 2:
        return None, "evaluation of the generated tables failed:\n" + (so + se)[-2000:]
    names = [x.strip() for x in m[0].strip("[] \n").replace("\n", " ").split(";")]
    if names != rules:
        return None, "all_rules of the generated file is %s, the translator reported %s" % (names, rules)
    vals = json.loads(re.sub(r"\s+", " ", m[1]).replace(";", ","))
    tab = {}
    for r, rows in zip(rules, vals):
        for l, row in enumerate(rows):
            for f, v in zip(FNS, row):
                tab[(f, r, l)] = v
    return tab, ""


def _cpp_tables(rules, maxlevel):
    """{(fn, rule, level): value} of the compiled library for levels 0..maxlevel[rule], or (None, log)"""
    try:
        info = vlib.build_lib("plain")
    except vlib.BuildError as e:
        return None, "library build failed: " + str(e)[-2000:]
    rows = ",\n".join('    {"%s", TasGrid::%s, %d}' % (r, r, maxlevel[r]) for r in rules)
    src_txt = ('#include <cstdio>\n#include "tsgEnumerates.hpp"\n#include "tsgCoreOneDimensional.hpp"\n'
               "struct Row { const char *name; TasGrid::TypeOneDRule rule; int maxlevel; };\n"
               "int main(){\n  const Row rows[] = {\n%s\n  };\n"
               "  for (const Row &r : rows) for (int l = 0; l <= r.maxlevel; l++)\n"
               '    std::printf("%%s %%d %%d %%d %%d\\n", r.name, l, TasGrid::OneDimensionalMeta::getNumPoints(l, r.rule),\n'
               "                TasGrid::OneDimensionalMeta::getIExact(l, r.rule), TasGrid::OneDimensionalMeta::getQExact(l, r.rule));\n"
               "  return 0;\n}\n" % rows)
    tag = hashlib.sha256((src_txt + info["hash"]).encode()).hexdigest()[:12]
    src, exe = os.path.join(WORK, "tables-%s.cpp" % tag), os.path.join(WORK, "tables-%s" % tag)
    with vlib.Lock("exact-tables"):
        if not os.path.exists(exe):
            for f in os.listdir(WORK):                      # keep the scratch directory small
                if f.startswith("tables-") and time.time() - os.path.getmtime(os.path.join(WORK, f)) > 6 * 3600:
                    os.remove(os.path.join(WORK, f))
            with open(src, "w") as fh:
                fh.write(src_txt)
            rc, so, se = vlib.run([info["cxx"]] + info["cflags"] + [src, info["lib"]] + info["ldflags"] + ["-o", exe + ".tmp"], timeout=600)
            if rc != 0:
                return None, "the table program does not compile against the working tree:\n" + se[-2000:]
            os.rename(exe + ".tmp", exe)
    rc, so, se = vlib.run([exe], timeout=60)
    if rc != 0:
        return None, "the table program failed (rc %d):\n%s" % (rc, (so + se)[-1000:])
    tab = {}
    for line in so.split("\n"):
        p = line.split()
        if len(p) == 5:
            for f, v in zip(FNS, p[2:]):
                tab[(f, p[0], int(p[1]))] = int(v)
    return tab, ""


def _correspondence(rules):
    """-> (coq table, cpp table, summary dict, log)"""
    coq, log = _coq_tables(rules)
    if coq is None:
        return None, None, None, log
    maxlevel = {}
    for r in rules:
        L = -1
        while L < NTAB and all(abs(coq[(f, r, L + 1)]) <= INT_GUARD for f in FNS):
            L += 1
        maxlevel[r] = L
    cpp, log = _cpp_tables(rules, maxlevel)
    if cpp is None:
        return coq, None, None, log
    compared, skipped, first, ndiff = 0, 0, None, 0
    for r in rules:
        for l in range(NLEV + 1):
            if l > maxlevel[r]:
                skipped += 1
                continue
            for f in FNS:
                compared += 1
                if cpp.get((f, r, l)) != coq[(f, r, l)]:
                    ndiff += 1
                    first = first or {"function": CPPFN[f], "rule": r, "level": l, "generated": coq[(f, r, l)], "compiled": cpp.get((f, r, l))}
    return coq, cpp, {"entries_compared": compared, "rules": len(rules), "levels": "0..%d" % NLEV, "rule_levels_skipped_overflow": skipped,
                      "differences": ndiff, "first_difference": first}, ""


def _proof_definitions():
    """the boolean classifications of Proofs/ExactnessProofs.v (text), for the search script"""
    txt = vlib._strip_coq_comments(open(PROOFS).read())
    out = []
    for nm in ("is_interp_tight", "is_gauss_tight", "is_beyond_interpolatory"):
        m = re.search(r"^Definition %s\b.*?\.\s*$" % nm, txt, re.M | re.S)
        if not m:
            return None
        out.append(m.group(0).strip())
    return "\n".join(out)


def _search(rules, coq, cpp):
    """first violating (rule, level) of every statement, levels 0..NSEARCH -> (list of violations, log)"""
    defs = _proof_definitions()
    if defs is None:
        return [], "the classifications is_interp_tight / is_gauss_tight / is_beyond_interpolatory are not in Proofs/ExactnessProofs.v"
    lines = ["From TV Require Import Common.Prelude gen.ExactnessGen.", "Local Open Scope Z_scope.", "Set Printing Width 100000.",
             "Notation nP := g_numPoints. Notation iE := g_iExact. Notation qE := g_qExact.", defs,
             "Definition upto (n : nat) : list Z := map Z.of_nat (seq 0 (S n)).",
             "Definition first_bad (ls : list Z) (t : onedrule -> Z -> bool) : option (onedrule * Z) :=",
             "  hd_error (filter (fun x => negb (t (fst x) (snd x))) (flat_map (fun r => map (fun l => (r, l)) ls) all_rules))."]
    for _n, _c, test, _s in PROPS:
        lines.append("Eval vm_compute in first_bad (upto %d) (fun r l => %s)." % (NSEARCH, test))
    for _n, _c, lev, test, _s in PROPS_AT:
        lines.append("Eval vm_compute in first_bad [%d] (fun r l => %s)." % (lev, test))
    rc, so, se = _coqc_script("search.v", "\n".join(lines) + "\n")
    answers = re.findall(r"^\s*= (None|Some\s*\(\s*(\w+)\s*,\s*(-?\d+)\s*\))\s*:\s*option", so, re.M | re.S)
    allp = [(n, c, s) for n, c, _t, s in PROPS] + [(n, c, s) for n, c, _l, _t, s in PROPS_AT]
    if rc != 0 or len(answers) != len(allp):
        return [], "search script failed (%d answers for %d statements):\n%s" % (len(answers), len(allp), (so + se)[-2000:])
    out = []
    for (name, cls, stmt), (whole, rule, lev) in zip(allp, answers):
        if whole == "None":
            continue
        l = int(lev)
        g = {"%s(%d)" % (CPPFN[f], ll): coq.get((f, rule, ll)) for ll in (l, l + 1) for f in FNS}
        c = {"%s(%d)" % (CPPFN[f], ll): cpp.get((f, rule, ll)) for ll in (l, l + 1) for f in FNS} if cpp else None
        same = c is not None and all(c[k] is None or c[k] == g[k] for k in g) and any(c[k] is not None for k in g)
        out.append({"property": name, "breaks": cls, "rule": rule, "level": l, "statement": stmt, "generated": g, "compiled": c,
                    "verdict": "the compiled library gives the same values: the TABLE violates the statement" if same else
                               "compiled values not available" if c is None else "generated and compiled values differ: see correspondence"})
    return out, "searched %d rules x levels 0..%d: %d of %d statements violated" % (len(rules), NSEARCH, len(out), len(allp))


def regenerate_and_check(res=None):
    t0 = time.time()
    os.makedirs(WORK, exist_ok=True)
    out = {"ok": False, "stage": "translator", "log": "", "theorems": [], "assumptions": {}, "source_hash": None, "rules": [], "omitted": [],
           "correspondence": None, "violating_input": None, "violations": [], "breaks": []}
    mod = importlib.import_module("exactness")
    try:
        out["source_hash"] = mod.source_hash(vlib.REPO)
        try:
            mod, cfg, (text, facts) = _translate(vlib.REPO)
        except mod.TranslatorError as e:
            out["log"] = "translator/exactness.py rejects the source: " + str(e)
            return out
        out["rules"], out["omitted"] = facts["rules"], facts["omitted"]
        with vlib.Lock("coq"):
            mod.write_if_changed(GEN, text)
        # direct correspondence generated <-> compiled
        out["stage"] = "correspondence"
        coq, cpp, summ, clog = _correspondence(facts["rules"])
        out["correspondence"] = summ
        if summ is None:
            out["log"] = clog
            return out
        corr_ok = summ["differences"] == 0 and summ["entries_compared"] > 0
        if not corr_ok:
            out["log"] = "the generated functions and the compiled library differ (translator or helper semantics): %s\n" % (summ["first_difference"],)
        # theorems
        out["stage"] = "coq" if corr_ok else "correspondence"
        props = vlib.coq_props("Exactness", timeout=900)
        out["theorems"], out["assumptions"] = props["theorems"], props["assumptions"]
        open_thms = [t for t in props["theorems"] if props["assumptions"].get(t) != "Closed under the global context"]
        forbidden = [h for h in vlib.coq_forbidden_tokens() if "Exactness" in h]
        if props["ok"] and not open_thms and not forbidden:
            if corr_ok:
                out.update(ok=True, stage="ok", log="%d theorems, all closed under the global context; %d table entries equal to the compiled library"
                           % (len(props["theorems"]), summ["entries_compared"]))
            return out
        why = "build of %s failed" % TARGET if not props["ok"] else "not closed: %s %s" % (open_thms, forbidden)
        viol, slog = _search(facts["rules"], coq, cpp)
        out.update(violations=viol, violating_input=viol[0] if viol else None, breaks=sorted({v["breaks"] for v in viol}))
        if not viol:
            slog += "\nNO violating (rule, level) found: the proof script no longer goes through although every statement holds on the searched levels"
        out["log"] += why + "\n" + slog + "\n--- coq log (tail) ---\n" + props["log"][-2500:]
        return out
    finally:
        if vlib._SCRATCH:                       # never leave the translation of a scratch tree in coq/gen
            try:
                _m, _c, (text0, _f) = _translate("/repo")
                with vlib.Lock("coq"):
                    mod.write_if_changed(GEN, text0)
            except Exception as e:              # noqa: BLE001
                out["log"] += "\n(restoring gen/ExactnessGen.v from /repo failed: %s)" % e
        out["wall_s"] = round(time.time() - t0, 2)
        if res is not None and hasattr(res, "coverage"):
            res.coverage["exactnessgen"] = {k: out[k] for k in ("ok", "stage", "source_hash", "theorems", "correspondence", "violating_input",
                                                               "breaks", "wall_s")}


if __name__ == "__main__":
    r = regenerate_and_check(None)
    print(json.dumps(r, indent=1))
    sys.exit(0 if r["ok"] else 1)
