"""C08 (points; also C01, C07): which points a Global / Fourier grid holds, and "needed = new points minus loaded".

Theorems: coq/Props/Properties_C08_points.v about the model coq/Model/NestedPoints.v (`delta_block`, `nested_points`, `full_points`,
`active_tensors`, `needed_points`, `accepted_points`, `max_indexes`): for every dimension, every strictly increasing point count with
n(0) >= 1 (proved for every generated table g_numPoints r) and every list of tensors (lower or not): membership by the vector of
minimal levels, disjoint delta blocks, lower set = union of the full blocks of any dominating subset (the active tensors), sorted /
duplicate free / number of points, monotone, needed = new minus loaded and loaded + needed = new, the points of a lower set are lower.
Tie (exact comparison of integer sets): harness/nptsdrv.cpp calls MultiIndexManipulations::generateNestedPoints directly on arbitrary
tensor sets with l -> OneDimensionalMeta::getNumPoints(l, rule), and reads tensors / active_tensors / active_w / points / needed /
updated_* of real GridGlobal and GridFourier objects after make, loadNeededValues, updateGlobalGrid / updateFourierGrid /
setAnisotropicRefinement and the second load; the extracted model (ocaml/nestedpoints_main.ml) recomputes every set with the GENERATED
point counts (coq/gen/ExactnessGen.v).  The hypothesis "every tensor is below an active tensor" of the active-tensor theorem is
evaluated on the implementation's weights.
NOT covered: generateNonNestedPoints (Global grids with non-nested rules are skipped), rule_customtabulated, overflow of int.

Stand-alone:  python3 props/c08points.py quick 1   (exit 0/1, evidence under _build/work/C08p/, never evidence/C08.json)."""
import json
import os
import sys
import time

sys.path.insert(0, os.path.join(os.path.dirname(os.path.dirname(os.path.abspath(__file__))), "tools"))
import vlib  # noqa: E402

PID = "C08"
SUB = "C08_points"
WORK = "C08p"
TYPES = ["level", "iptotal", "qptotal", "tensor", "iptensor", "qptensor"]
ALL_RULES = ["clenshaw-curtis", "clenshaw-curtis-zero", "fejer2", "chebyshev", "chebyshev-odd", "leja", "leja-odd", "rleja",
             "rleja-double2", "rleja-double4", "rleja-odd", "rleja-shifted", "rleja-shifted-even", "rleja-shifted-double",
             "max-lebesgue", "max-lebesgue-odd", "min-lebesgue", "min-lebesgue-odd", "min-delta", "min-delta-odd",
             "gauss-legendre", "gauss-legendre-odd", "gauss-patterson", "gauss-chebyshev1", "gauss-chebyshev1-odd",
             "gauss-chebyshev2", "gauss-chebyshev2-odd", "gauss-gegenbauer", "gauss-gegenbauer-odd", "gauss-jacobi",
             "gauss-jacobi-odd", "gauss-laguerre", "gauss-laguerre-odd", "gauss-hermite", "gauss-hermite-odd", "fourier"]
# nested rules whose nodes are tabulated or in closed form (the greedy sequences are optimised node by node: kept for small depths only)
NESTED_FAST = ["clenshaw-curtis", "clenshaw-curtis-zero", "fejer2", "rleja", "rleja-double2", "rleja-double4", "rleja-odd",
               "rleja-shifted", "rleja-shifted-even", "rleja-shifted-double", "gauss-patterson"]
NESTED_GREEDY = ["leja", "leja-odd", "max-lebesgue", "min-lebesgue", "min-delta", "min-delta-odd", "max-lebesgue-odd", "min-lebesgue-odd"]
EXPONENTIAL = {"clenshaw-curtis", "clenshaw-curtis-zero", "fejer2", "rleja-shifted-double", "gauss-patterson", "fourier"}

TRUSTED = [
    "Coq 8.16.1 kernel (vm_compute in Examples only); axioms: none",
    "extraction: ExtrOcamlBasic only; OCaml glue ocaml/nestedpoints_main.ml; C++ driver harness/nptsdrv.cpp (white-box, read-only: members "
    "tensors / active_tensors / active_w / points / needed / updated_tensors / updated_active_tensors / updated_active_w of GridGlobal and "
    "GridFourier, private selectTensors for the size guard)",
    "point counts: coq/gen/ExactnessGen.v (g_numPoints) generated from tsgCoreOneDimensional.cpp by translator/exactness.py and checked against "
    "the compiled library by props/exactnessgen.py; here the same table drives the model and every difference to the compiled point set is reported",
    "unionSets (pairwise += tree) is written as a fold of the sorted merge (merge is associative and commutative on sorted sets, IndexSetsProofs); "
    "the decoding loop + sorting constructor of one block is proved equal to the nested product (c08p_delta_block_is_product)",
    "the tensor weights are those of the implementation (computeTensorWeights is modelled elsewhere); the domination hypothesis of "
    "c08p_points_of_active_tensors is checked on them at run time",
    "NOT modelled: generateNonNestedPoints' use by grids with non-nested rules (skipped), rule_customtabulated, overflow of int / size_t",
]


# ------------------------------------------------------------------------------------------------ case generation
def lower_closure(ts):
    s = set()
    stack = [tuple(t) for t in ts]
    while stack:
        t = stack.pop()
        if t in s:
            continue
        s.add(t)
        for j, v in enumerate(t):
            if v > 0:
                stack.append(t[:j] + (v - 1,) + t[j + 1:])
    return sorted(s)


def gen_np(r, cid, tier):
    rule = r.choice(ALL_RULES)
    d = r.choice([1, 2, 2, 3, 3, 4])
    top = (4 if d <= 2 else 3) if rule in EXPONENTIAL else (7 if d <= 2 else 5 if d == 3 else 3)
    k = r.randint(1, 6)
    ts = [tuple(r.randint(0, top) if r.random() < 0.8 else 0 for _ in range(d)) for _ in range(k)]
    kind = r.random()
    if kind < 0.45:
        ts = lower_closure(ts)                      # a lower set
    elif kind < 0.6:
        low = lower_closure(ts)                     # a lower set with a few holes
        ts = [t for t in low if r.random() < 0.8] or low
    # else: an arbitrary set (duplicates allowed: the set constructor removes them)
    flat = " ".join(str(v) for t in ts for v in t)
    return "np %s %s %d maxpts: %d t: %s" % (cid, rule, d, 6000 if tier == "quick" else 20000, flat)


def gen_grid(r, cid, tier):
    fam = r.choice(["global", "global", "global", "fourier"])
    k = r.random()
    rule = "fourier" if fam == "fourier" else (r.choice(NESTED_FAST) if k < 0.85 else r.choice(NESTED_GREEDY))
    ty = r.choice(TYPES)
    d = r.choice([1, 2, 2, 3, 3, 4])
    big = rule in EXPONENTIAL
    depth = r.randint(0, 3 if (big and d >= 3) or fam == "fourier" else 5)
    if rule == "gauss-patterson":
        depth = min(depth, 4)

    def weights():
        k = r.random()
        return [] if k < 0.4 else ([r.choice([1, 2])] * d if k < 0.5 else [r.choice([1, 1, 2, 2, 3]) for _ in range(d)])
    w, w2 = weights(), weights()
    k = r.random()
    ll = [] if k < 0.5 else ([-1] * d if k < 0.6 else [r.choice([-1, -1, 1, 2, 3, 4]) for _ in range(d)])
    mode = r.choice(["none", "update", "update", "update", "aniso"])
    ty2 = r.choice(TYPES)
    if mode == "aniso":
        ty2 = r.choice(["iptotal", "qptotal", "level", "ipcurved"])
        depth2 = r.randint(1, 8)
        if depth < 2:
            depth = 2                                  # the anisotropic estimate needs a few points
    else:
        depth2 = max(0, depth + r.choice([-1, 0, 1, 1, 2]))
        if rule == "gauss-patterson":
            depth2 = min(depth2, 5)
    return "grid %s %s %s %s %d %d maxpts: %d w: %s ll: %s mode: %s type2: %s depth2: %d w2: %s" % (
        cid, fam, rule, ty, d, depth, 4000 if tier == "quick" else 12000, " ".join(map(str, w)), " ".join(map(str, ll)), mode, ty2, depth2,
        " ".join(map(str, w2)))


def fixed_cases():
    out = [
        "np f0 clenshaw-curtis 2 maxpts: 6000 t: 0 0 0 1 1 0",
        "np f1 clenshaw-curtis 2 maxpts: 6000 t: 1 2",
        "np f2 clenshaw-curtis 3 maxpts: 6000 t: 0 0 0 0 0 1 0 1 0 1 0 0 2 0 0",
        "np f3 clenshaw-curtis 2 maxpts: 6000 t: 1 1 2 1 1 2 3 0",
        "np f4 leja 3 maxpts: 6000 t: 1 1 1 2 0 3",
        "np f5 fourier 2 maxpts: 6000 t: 0 0 1 0 0 1 1 1 2 0",
        "np f6 rleja-double4 2 maxpts: 6000 t: 1 1 4 1 1 5 6 0 7 7",
        "np f7 gauss-legendre-odd 2 maxpts: 6000 t: 1 1 2 3 3 2",
        "np f8 clenshaw-curtis 1 maxpts: 6000 t: 1",
        "np f9 fejer2 4 maxpts: 6000 t: 1 1 1 1 1 0 2 1",
    ]
    i = 0
    for fam, rule in (("global", "clenshaw-curtis"), ("global", "rleja"), ("global", "fejer2"), ("global", "rleja-double2"), ("fourier", "fourier")):
        for ty, d, depth, w, ll, mode, ty2, depth2, w2 in (
                ("level", 2, 2, [], [], "update", "level", 3, []),
                ("iptotal", 2, 4 if fam == "global" else 3, [1, 2], [], "update", "qptotal", 5 if fam == "global" else 3, [2, 1]),
                ("level", 3, 2, [], [-1, 2, 1], "update", "tensor", 2, []),
                ("tensor", 2, 2, [], [], "update", "level", 1, []),
                ("level", 2, 3, [], [], "aniso", "iptotal", 3, []),
                ("qptotal", 3, 3 if fam == "global" else 2, [2, 1, 1], [], "none", "level", 0, [])):
            out.append("grid g%d %s %s %s %d %d maxpts: 6000 w: %s ll: %s mode: %s type2: %s depth2: %d w2: %s" % (
                i, fam, rule, ty, d, depth, " ".join(map(str, w)), " ".join(map(str, ll)), mode, ty2, depth2, " ".join(map(str, w2))))
            i += 1
    return out


# ------------------------------------------------------------------------------------------------ run
KEY_TEXT = {
    "nested-points-differ": "the point set is not the union over the tensors of the delta blocks {offset(t_j) <= p_j < n(t_j)}",
    "needed-not-new-minus-loaded": "the needed points after an update are not generateNestedPoints(updated_tensors) minus the loaded points",
    "active-tensors-differ": "active_tensors / active_w are not the tensors with a non-zero weight / the non-zero weights, in order",
    "active-not-dominating": "a tensor of the set is below no active tensor (hypothesis of c08p_points_of_active_tensors fails for the implementation's weights)",
    "points-not-full-blocks-of-active": "the points of a lower tensor set are not the union of the full blocks of its active tensors",
    "loaded-points-differ": "the loaded points / tensors after loadNeededValues are not loaded + needed / the updated tensors",
}


def run(res, tier, seed, replay_cases=None):
    t0 = time.time()
    cov = {}
    res.coverage["grid_point_sets"] = cov
    props = vlib.coq_props(SUB)
    bad_axioms = {k: v for k, v in props["assumptions"].items() if not v.startswith("Closed under the global context")}
    cov.update({"props_file": "coq/Props/Properties_C08_points.v", "obligations": props["obligations"], "discharged": props["discharged"],
                "theorems": props["theorems"], "print_assumptions": props["assumptions"], "trusted_base": TRUSTED})
    proof_broken = (not props["ok"]) or bool(bad_axioms) or len(props["assumptions"]) != props["obligations"]
    ok_ext, elog = vlib.coq_make(["Extract/ExtractNestedPoints.vo"])
    runner = None
    if ok_ext:
        try:
            runner = vlib.ocaml_runner("nestedpoints")
        except vlib.BuildError as e:
            ok_ext, elog = False, str(e)
    drv, derr = vlib.try_build_driver("nptsdrv")
    wd = os.path.join(vlib.BUILD, "work", WORK)
    os.makedirs(wd, exist_ok=True)
    r = vlib.rng(seed, SUB)
    nv0 = len(res.violations)

    if replay_cases:
        lines = list(replay_cases)
    else:
        lines = []
        cdir = os.path.join(vlib.ROOT, "corpus", "C08")
        for f in sorted(os.listdir(cdir)) if os.path.isdir(cdir) else []:
            try:
                w = json.load(open(os.path.join(cdir, f)))
            except (OSError, ValueError):
                continue
            if isinstance(w, dict) and w.get("driver") == "nptsdrv":
                lines += [l for l in w.get("cases", []) if l.startswith(("np ", "grid "))]
        lines += fixed_cases()
        n = {"quick": 300, "thorough": 4000}[tier] * (2 if proof_broken else 1)
        for i in range(n):
            lines.append(gen_np(r, "n%d" % i, tier) if i % 2 == 0 else gen_grid(r, "s%d" % i, tier))
    by_id = {l.split()[1]: l for l in lines}
    cf = os.path.join(wd, "cases.txt")
    with open(cf, "w") as fh:
        fh.write("\n".join(lines) + "\n")
    stats = {"ok": 0, "skipped": 0, "skip_reasons": {}, "np": 0, "grid": 0, "lower": 0, "not_lower": 0, "updated": 0, "nontrivial": 0, "points": 0,
             "by_rule": {}, "by_mode": {}}
    mism, agree = [], 0
    if drv is None:
        res.violation("correspondence-points", "white-box driver nptsdrv no longer compiles/links against the source: " + (derr or "")[-600:],
                      {"kind": "correspondence-break", "correspondence": "nptsdrv (generateNestedPoints, GridGlobal / GridFourier members)"}, no_input=True)
    else:
        rc, so, se = vlib.run([drv, cf], timeout=300 if tier == "quick" else 3000)
        of = os.path.join(wd, "cases.out")
        with open(of, "w") as fh:
            fh.write(so)
        if rc != 0:
            done = [l.split()[1] for l in so.split("\n") if l.startswith(("r ", "x "))]
            nxt = lines[len(done)] if len(done) < len(lines) else ""
            res.violation("nptsdrv-crash", "nptsdrv exited with %d (%s) at case: %s" % (rc, se[-300:].strip(), nxt),
                          {"kind": "impl-counterexample", "driver": "nptsdrv", "cases": [nxt] if nxt else lines[-5:]})
        if runner:
            rc2, mo, me = vlib.run([runner, cf, of], timeout=600 if tier == "quick" else 3000)
            with open(os.path.join(wd, "runner.out"), "w") as fh:
                fh.write(mo)
            for line in mo.split("\n"):
                t = line.split()
                if line.startswith("MISMATCH"):
                    mism.append(line)
                elif line.startswith("agree"):
                    agree += int(t[1])
                elif line.startswith("skip"):
                    stats["skipped"] += 1
                    reason = " ".join(t[2:5])
                    stats["skip_reasons"][reason] = stats["skip_reasons"].get(reason, 0) + 1
                elif line.startswith("noout"):
                    stats["no_output"] = stats.get("no_output", 0) + 1
                elif line.startswith("ok "):
                    stats["ok"] += 1
                    kv = dict(x.split("=") for x in t[2:])
                    c = by_id.get(t[1], "").split()
                    stats[kv["kind"]] += 1
                    stats["lower" if kv["lower"] == "1" else "not_lower"] += 1
                    stats["updated"] += int(kv["upd"])
                    stats["points"] += int(kv["points"])
                    if int(kv["tensors"]) > 1 and int(kv["points"]) > int(kv["tensors"]):
                        stats["nontrivial"] += 1
                    if c:
                        rule = c[2] if c[0] == "np" else c[3]
                        stats["by_rule"][rule] = stats["by_rule"].get(rule, 0) + 1
                        if c[0] == "grid" and "mode:" in c:
                            md = c[c.index("mode:") + 1]
                            stats["by_mode"][md] = stats["by_mode"].get(md, 0) + 1
            if rc2 != 0:
                mism.append("MISMATCH - runner-failed " + me[-300:])
            if rc == 0 and stats.get("no_output"):
                mism.append("MISMATCH - driver-produced-no-result-line-for %d cases" % stats["no_output"])
    seen = set()
    for mline in mism:
        t = mline.split()
        cid = t[1] if len(t) > 1 else "-"
        case = by_id.get(cid, "")
        key = t[2] if len(t) > 2 and t[2] in KEY_TEXT else "correspondence-points"
        if key in seen:
            continue
        seen.add(key)
        if key == "correspondence-points":
            res.violation(key, "point-set model could not be evaluated: " + mline[:300],
                          {"kind": "correspondence-break", "correspondence": "NestedPoints model vs nptsdrv", "examples": mism[:5], "cases": [case]}, no_input=True)
        else:
            res.violation(key, "%s: %s [%s]" % (KEY_TEXT[key], mline[:700], case),
                          {"kind": "impl-counterexample", "driver": "nptsdrv", "cases": [case], "detail": mline[:4000]})
    if proof_broken and len(res.violations) == nv0:
        res.violation("proof-points", "proof obligations of Properties_C08_points.v no longer check (%d/%d) %s" %
                      (props["discharged"], props["obligations"], list(bad_axioms)[:2]),
                      {"kind": "proof-break", "theorems": props["theorems"], "log": props["log"][-3000:]}, no_input=True)
    if not ok_ext and len(res.violations) == nv0:
        res.violation("extraction-points", "extraction / build of the point-set model failed", {"kind": "proof-break", "log": elog[-2000:]}, no_input=True)
    cov.update({
        "cases": len(lines), "cases_agree": stats["ok"], "comparisons_agree_exactly": agree, "disagreements": len(mism),
        "skipped": stats["skipped"], "skip_reasons": stats["skip_reasons"], "cases_without_output_after_a_driver_crash": stats.get("no_output", 0),
        "generateNestedPoints_direct": stats["np"], "grids": stats["grid"], "grids_with_pending_update": stats["updated"],
        "lower_tensor_sets": stats["lower"], "non_lower_tensor_sets": stats["not_lower"], "points_compared": stats["points"],
        "by_rule": stats["by_rule"], "by_mode": stats["by_mode"], "distinct_nontrivial": stats["nontrivial"],
        "wall_s": round(time.time() - t0, 1),
        "rule": "half the cases call generateNestedPoints directly: any of the 36 rules' point counts, dimensions 1-4, 1-6 random tensors with "
                "levels up to 3-7, 45% lower closure / 15% lower closure with holes / 40% arbitrary; the other half are Global (nested rules) / "
                "Fourier grids of the six integer depth types, depth 0-5, weights, limits, followed by none / update<Family>Grid / "
                "setAnisotropicRefinement and a second load; plus fixed cases; non-trivial = more than one tensor and more points than tensors",
        "sample": lines[len(lines) // 2] if lines else "",
    })
    return cov


def replay(path):
    rp = json.load(open(path))
    res = vlib.Result(PID, "quick", rp.get("seed", 1), "proof")
    run(res, "quick", rp.get("seed", 1), replay_cases=rp.get("cases"))
    return finish_standalone(res)


def finish_standalone(res):
    """print the outcome like Result.finish() but write the evidence under _build/work/C08p/ (never evidence/C08.json)"""
    wd = os.path.join(vlib.BUILD, "work", WORK)
    os.makedirs(wd, exist_ok=True)
    cov = res.coverage.get("grid_point_sets", {})
    with open(os.path.join(wd, "evidence-standalone.json"), "w") as fh:
        json.dump({"property_id": PID, "part": "grid_point_sets", "tier": res.tier, "seed": res.seed, "coverage": cov,
                   "violations": len(res.violations), "known": [k for k, _ in res.known_hit]}, fh, indent=1, default=str)
    for key, text in res.known_hit:
        print("KNOWN-FINDING: property=%s key=%s %s" % (PID, key, text))
    seen = set()
    for v in res.violations:
        if v["key"] in seen:
            continue
        seen.add(v["key"])
        print("DETAIL property=%s key=%s %s" % (PID, v["key"], v["what"][:900].replace("\n", " ")))
        print("VIOLATION property=%s replay=%s%s" % (PID, v["replay"], " no-failing-input-found" if v["no_input"] else ""))
    short = {k: cov.get(k) for k in ("obligations", "discharged", "cases", "cases_agree", "comparisons_agree_exactly", "disagreements", "skipped",
                                      "skip_reasons", "generateNestedPoints_direct", "grids", "grids_with_pending_update", "lower_tensor_sets",
                                      "non_lower_tensor_sets", "points_compared", "by_mode", "distinct_nontrivial", "wall_s")}
    print("SUMMARY " + json.dumps(short, default=str))
    sys.stdout.flush()
    return 1 if res.violations else 0


def main():
    if len(sys.argv) >= 3 and sys.argv[1] == "--replay":
        return replay(sys.argv[2])
    tier = sys.argv[1] if len(sys.argv) > 1 and sys.argv[1] in ("quick", "thorough") else "quick"
    seed = int(sys.argv[2]) if len(sys.argv) > 2 else int(os.environ.get("VERIF_SEED", "1") or 1)
    res = vlib.Result(PID, tier, seed, "proof")
    try:
        run(res, tier, seed)
    except vlib.BuildError as e:
        res.violation("build", "build failed: " + str(e)[:1500], {"kind": "build-failure", "detail": str(e)}, no_input=True)
    return finish_standalone(res)


if __name__ == "__main__":
    sys.exit(main())
