"""C02 / C03, goal (A) of the tensor-weights bridge: tw_cpp = tw_lines.  The model tw_cpp mirrors the control flow of
MultiIndexManipulations::computeTensorWeights + resortIndexes (per-dimension std::sort of the positions, run boundaries lines1d cut with
match_outside_dim against the first index of the run, initial pass, in-place backward sweeps by position); tw_lines is the model the
theorems of Properties_C02_weights are about.

Theorems: coq/Props/Properties_C02_cpp.v (proofs coq/Proofs/TensorWeightsCpp.v, on top of Proofs/TensorWeightsProofs.v):
  c02c_tw_cpp_eq_tw_lines            every lexicographically sorted set of one dimension D >= 1 (lower or not): tw_cpp s = tw_lines s
  c02c_tw_cpp_inclusion_exclusion    sorted non-empty lower sets of non-negative indexes: tw_cpp s = map (incl_excl s) s
  components: the insertion sort returns the sorted permutation; map[d] is the sorted permutation of the positions; the runs are the
  lines (neighbour in a run = first later member of the line); one direction / the initial pass of the C++ loop = sweep_dim / init_lines
  read by position.
No executable tie of its own: the tie of the weights is props/c02weights.py (tw_cpp, tw_lines against the implementation).

Used through run(res); stand-alone:  python3 props/c02cpp.py   (exit 0/1, nothing written under evidence/)."""
import json
import os
import re
import sys
import time

sys.path.insert(0, os.path.join(os.path.dirname(os.path.dirname(os.path.abspath(__file__))), "tools"))
import vlib  # noqa: E402

PID = "C02"
SUB = "C02_cpp"
WORK = "tw3"
FILES = ["coq/Proofs/TensorWeightsCpp.v", "coq/Props/Properties_C02_cpp.v"]
REQUIRED = ["c02c_tw_cpp_eq_tw_lines", "c02c_tw_cpp_inclusion_exclusion", "c02c_sort_pos_sorted_permutation", "c02c_map_d_sorted_permutation",
            "c02c_lines_d_are_the_lines", "c02c_sweep_dim_cpp_is_sweep_dim", "c02c_init_cpp_is_init_lines"]
REQUIRED_EXAMPLES = ["c02c_ex_hyps", "c02c_ex_maps", "c02c_ex_lines", "c02c_ex_by_computation", "c02c_ex_by_theorem", "c02c_ex_lower_hyps",
                     "c02c_ex_lower_by_computation", "c02c_ex_lower_by_theorem"]
FORBIDDEN = re.compile(r"\b(Axiom|Axioms|Parameter|Parameters|Conjecture|Admitted|admit|Abort|Unset\s+Guard|Unset\s+Positivity|bypass_check)\b")

TRUSTED = [
    "Coq 8.16.1 kernel (vm_compute in the Examples only); axioms: none (Print Assumptions: closed under the global context)",
    "tw_cpp is a model of computeTensorWeights / resortIndexes: std::sort is modelled by an insertion sort (proved: on a sorted set the comparator "
    "is a strict total order on the positions, so the sorted permutation is unique and the algorithm does not matter); the omp parallel loops "
    "over dimensions / jobs are modelled sequentially (proved: the runs of one direction touch disjoint positions); `int` overflow not modelled",
    "the agreement of tw_cpp (and tw_lines) with the compiled implementation is the executable tie of props/c02weights.py, not a theorem",
    "hypotheses: the set is lexicographically sorted (StronglySorted for cmp = ABeforeB, hence duplicate free) and all indexes have length D >= 1; "
    "for the inclusion-exclusion corollary also: non-negative, lower, not empty",
]


def strip_comments(txt):
    out, depth, i = [], 0, 0
    while i < len(txt):
        if txt.startswith("(*", i):
            depth += 1
            i += 2
        elif txt.startswith("*)", i) and depth:
            depth -= 1
            i += 2
        else:
            if depth == 0:
                out.append(txt[i])
            elif txt[i] == "\n":
                out.append("\n")
            i += 1
    return "".join(out)


def forbidden_tokens():
    hits = []
    for rel in FILES:
        p = os.path.join(vlib.ROOT, rel)
        if not os.path.exists(p):
            hits.append(rel + ": missing")
            continue
        for i, line in enumerate(strip_comments(open(p, errors="replace").read()).split("\n"), 1):
            if FORBIDDEN.search(line):
                hits.append("%s:%d: %s" % (rel, i, line.strip()[:120]))
    return hits


def run(res, tier="quick", seed=1):
    t0 = time.time()
    cov = {}
    res.coverage["weights_cpp_model"] = cov
    props = vlib.coq_props(SUB)
    src = strip_comments(open(os.path.join(vlib.ROOT, FILES[1])).read())
    examples = re.findall(r"^\s*Example\s+(\w+)", src, re.M)
    bad_axioms = {k: v for k, v in props["assumptions"].items() if not v.startswith("Closed under the global context")}
    missing = [t for t in REQUIRED if t not in props["theorems"]] + [e for e in REQUIRED_EXAMPLES if e not in examples]
    unprinted = [t for t in props["theorems"] if t not in props["assumptions"]] if props["ok"] else []
    forb = forbidden_tokens()
    # statements only in the Props file: every Theorem is closed by  Proof. exact <lemma>. Qed.
    not_exact = [m.group(1) for m in re.finditer(r"Theorem\s+(\w+)\b(.*?)\bQed\.", src, re.S)
                 if not re.search(r"Proof\.\s*exact\s+[\w.']+\.\s*$", m.group(2).strip())]
    cov.update({"props_file": FILES[1], "proof_file": FILES[0], "obligations": props["obligations"], "discharged": props["discharged"],
                "theorems": props["theorems"], "examples": examples, "print_assumptions": props["assumptions"],
                "forbidden_tokens": forb, "trusted_base": TRUSTED,
                "checker_cmd": "cd coq && make Props/Properties_C02_cpp.vo && coqc -Q . TV Props/Properties_C02_cpp.v",
                "executable_tie": "none of its own; the weights are tied by props/c02weights.py (tw_cpp and tw_lines against computeTensorWeights)"})
    broken = (not props["ok"]) or bool(bad_axioms) or bool(missing) or bool(unprinted) or bool(forb) or bool(not_exact) \
        or props["discharged"] != props["obligations"]
    if broken:
        why = []
        if not props["ok"]:
            why.append("Properties_C02_cpp.v does not compile (%d/%d)" % (props["discharged"], props["obligations"]))
        if bad_axioms:
            why.append("not closed under the global context: %s" % sorted(bad_axioms)[:3])
        if missing:
            why.append("missing statements: %s" % missing[:4])
        if unprinted:
            why.append("no Print Assumptions for: %s" % unprinted[:4])
        if forb:
            why.append("forbidden constructs: %s" % forb[:3])
        if not_exact:
            why.append("theorems not closed by `exact`: %s" % not_exact[:3])
        res.violation("weights-cpp-theorems-broken", "the theorems tw_cpp = tw_lines (model of the C++ control flow = the lines model) no longer check: " + "; ".join(why),
                      {"kind": "proof-break", "theorems": props["theorems"], "log": props["log"][-3000:]}, no_input=True)
    cov["wall_s"] = round(time.time() - t0, 1)
    return not broken


def main():
    res = vlib.Result(PID, "quick", int(os.environ.get("VERIF_SEED", "1") or 1), "proof")
    try:
        run(res)
    except vlib.BuildError as e:
        res.violation("weights-cpp-theorems-broken", "build failed: " + str(e)[:1500], {"kind": "build-failure", "detail": str(e)}, no_input=True)
    cov = res.coverage.get("weights_cpp_model", {})
    wd = os.path.join(vlib.BUILD, "work", WORK)
    os.makedirs(wd, exist_ok=True)
    with open(os.path.join(wd, "evidence-standalone.json"), "w") as fh:
        json.dump({"property_id": PID, "part": "weights_cpp_model", "coverage": cov, "violations": len(res.violations),
                   "known": [k for k, _ in res.known_hit]}, fh, indent=1, default=str)
    for key, text in res.known_hit:
        print("KNOWN-FINDING: property=%s key=%s %s" % (PID, key, text))
    for v in res.violations:
        print("DETAIL property=%s key=%s %s" % (PID, v["key"], v["what"][:600].replace("\n", " ")))
        print("VIOLATION property=%s replay=%s%s" % (PID, v["replay"], " no-failing-input-found" if v["no_input"] else ""))
    print("SUMMARY " + json.dumps({k: cov.get(k) for k in ("obligations", "discharged", "theorems", "examples", "forbidden_tokens", "wall_s")}, default=str))
    print("closed: %d/%d" % (sum(1 for v in cov.get("print_assumptions", {}).values() if v.startswith("Closed under the global context")),
                             cov.get("obligations", 0)))
    sys.stdout.flush()
    return 1 if res.violations else 0


if __name__ == "__main__":
    sys.exit(main())
