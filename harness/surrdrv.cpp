// surrdrv: sequential-mode driver of TasGrid::constructSurrogate for C17 (checkpoint / restart).
//
//   surrdrv run <family> <budget> <batch> <njobs> <ckpt|-> <calllog> <result> [<refdir>]
//       builds the initial grid of <family>, calls constructSurrogate<mode_sequential>(model, budget, njobs, batch,
//       grid, ..., ckpt) with a deterministic model callback that appends one line per call to <calllog>
//       (raw write(2), so the line is on disk before the call returns):
//           C <call#> <npoints> <x ...>                      the inputs (hex doubles)
//           G <call#> <numloaded> <maxerr> <numdims> <numouts>   state of the grid seen by the callback:
//                                                             maxerr = max |loaded value - f(loaded point)|
//       with <refdir>: before each call the checkpoint file as it is on disk is copied to <refdir>/ck<call#-1>
//       (the callback runs between two checkpoints, so the file is the complete checkpoint number call#-1),
//       and after the return to <refdir>/ck<ncalls>;   <result> gets
//           done <numloaded> <numneeded> <maxerr_values> <maxerr_evaluate> | exception <class> <what>
//           P <x ...> = <v ...>                               every loaded point with its value
//   surrdrv readcheck <file>        the recovery reader exactly as coded (grid.read(binary) + CompleteStorage::read):
//           ok gridlen=<bytes> numloaded=<n> stored=<m> storedvals=<v> consumed=<bytes> maxerr=<e> | throw <class> <what>
//   surrdrv storage <file> <offset> prints the CompleteStorage section read by the real reader from <offset>
//   surrdrv mkckpt <family> <nload> <nstore> <out>  writes a checkpoint exactly like the checkpoint lambda
//           (grid.write(binary) then CompleteStorage::write) for a grid in construction with <nload> loaded samples
//           and <nstore> computed-but-not-loaded samples in the storage
//   surrdrv torn <file> <first> <stride>  for each prefix length L = first, first+stride, ... < size: feeds the first L
//           bytes to the recovery reader; prints "L <len> ..." BEFORE the attempt (flushed) and the outcome after
//
// families: localp (order 1), localp2 (order 2, fds), localp0, wavelet (tolerance overload), sequence, global,
// globalout (output overload), fourier (anisotropic overloads)
#include <cstdio>
#include <cstdlib>
#include <cstring>
#include <cmath>
#include <string>
#include <vector>
#include <sstream>
#include <fstream>
#include <iostream>
#include <functional>
#include <stdexcept>
#include <random>
#include <memory>
#include <map>
#include <set>
#include <list>
#include <forward_list>
#include <numeric>
#include <algorithm>
#include <complex>
#include <array>
#include <cassert>
#include <cstdint>
#include <iomanip>
#include <limits>
#include <type_traits>
#include <utility>
#include <mutex>
#include <thread>
#include <condition_variable>
#include <chrono>
#include <ctime>
#include <typeinfo>
#include <new>
#include <fcntl.h>
#include <unistd.h>
#include <sys/syscall.h>
#include <cxxabi.h>
// read-only white-box access to CompleteStorage::points/values
#define private public
#include "TasmanianAddons.hpp"
#undef private

using namespace TasGrid;

static const int NUM_OUT = 3;   // different from the number of inputs (2): a swap of the points / values sections of a checkpoint must be visible
static void fmodel(const double *x, int dims, double *y) {
    double s = 0.0, p = 1.0;
    for (int j = 0; j < dims; j++) { s += (j + 1) * x[j]; p *= (1.0 + 0.5 * x[j] * x[j]); }
    y[0] = std::exp(-0.5 * s * s) + 0.25 * x[0];
    y[1] = p + std::sin(2.0 * s);
    y[2] = 0.5 * p - std::cos(s) + 0.125 * x[dims - 1];
}

static double grid_maxerr(TasmanianSparseGrid &g) {
    int n = g.getNumLoaded();
    if (n <= 0) return 0.0;
    int d = g.getNumDimensions(), o = g.getNumOutputs();
    std::vector<double> pts = g.getLoadedPoints();
    const double *vals = g.getLoadedValues();
    double err = 0.0;
    if (o != NUM_OUT) return 1e300;
    for (int i = 0; i < n; i++) {
        double y[NUM_OUT];
        fmodel(&pts[(size_t) i * d], d, y);
        for (int k = 0; k < o; k++) {
            double e = std::fabs(vals[(size_t) i * o + k] - y[k]);
            if (!(e <= err)) err = e;
        }
    }
    return err;
}

static TasmanianSparseGrid make_grid(const std::string &fam) {
    if (fam == "localp") return makeLocalPolynomialGrid(2, NUM_OUT, 1, 1, rule_localp);
    if (fam == "localp2") return makeLocalPolynomialGrid(2, NUM_OUT, 2, 2, rule_localp);
    if (fam == "localp0") return makeLocalPolynomialGrid(2, NUM_OUT, 1, 1, rule_localp0);
    if (fam == "semilocalp") return makeLocalPolynomialGrid(2, NUM_OUT, 1, 2, rule_semilocalp);
    if (fam == "wavelet") return makeWaveletGrid(2, NUM_OUT, 0, 1);
    if (fam == "sequence") return makeSequenceGrid(2, NUM_OUT, 1, type_level, rule_leja);
    if (fam == "global" || fam == "globalout") return makeGlobalGrid(2, NUM_OUT, 1, type_level, rule_clenshawcurtis);
    if (fam == "fourier") return makeFourierGrid(2, NUM_OUT, 1, type_level);
    throw std::invalid_argument("unknown family " + fam);
}

static std::string demangled(const std::exception &e) {
    int st = 0;
    char *n = abi::__cxa_demangle(typeid(e).name(), nullptr, nullptr, &st);
    std::string s = (st == 0 && n) ? n : typeid(e).name();
    free(n);
    return s;
}
static const char *eclass(const std::exception &e) {
    if (dynamic_cast<const std::runtime_error *>(&e)) return "runtime_error";
    if (dynamic_cast<const std::invalid_argument *>(&e)) return "invalid_argument";
    return "other";
}
static std::string oneline(const char *w) {
    std::string s(w ? w : "");
    for (auto &c : s) if (c == '\n' || c == '\r') c = ' ';
    return s;
}

// raw system calls: the copies made for the reference table must not show up in the fault injector's operation log
static void copy_file(const std::string &from, const std::string &to) {
    long a = syscall(SYS_openat, AT_FDCWD, from.c_str(), O_RDONLY, 0);
    if (a < 0) return;
    long b = syscall(SYS_openat, AT_FDCWD, to.c_str(), O_WRONLY | O_CREAT | O_TRUNC, 0644);
    char buf[65536];
    long n;
    while ((n = syscall(SYS_read, a, buf, sizeof buf)) > 0) if (syscall(SYS_write, b, buf, (size_t) n) != n) break;
    syscall(SYS_close, a);
    syscall(SYS_close, b);
}

static int cmd_run(int argc, char **argv) {
    if (argc < 9) { fprintf(stderr, "usage: run family budget batch njobs ckpt calllog result [refdir]\n"); return 2; }
    std::string fam = argv[2];
    size_t budget = (size_t) atol(argv[3]), batch = (size_t) atol(argv[4]), njobs = (size_t) atol(argv[5]);
    std::string ckpt = (strcmp(argv[6], "-") == 0) ? "" : argv[6];
    std::string refdir = (argc > 9) ? argv[9] : "";
    int logfd = open(argv[7], O_WRONLY | O_CREAT | O_APPEND, 0644);
    FILE *res = nullptr;
    TasmanianSparseGrid grid = make_grid(fam);
    int ncall = 0;
    auto model = [&](std::vector<double> const &x, std::vector<double> &y, size_t) -> void {
        ncall++;
        int d = 2;
        size_t np = x.size() / (size_t) d;
        if (!refdir.empty()) copy_file(ckpt, refdir + "/ck" + std::to_string(ncall - 1));
        std::string line = "G " + std::to_string(ncall) + " ";
        char buf[128];
        int nl = -1, gd = -1, go = -1;
        double me = -1.0;
        try { nl = grid.getNumLoaded(); gd = grid.getNumDimensions(); go = grid.getNumOutputs(); me = grid_maxerr(grid); }
        catch (std::exception &) { nl = -2; }
        snprintf(buf, sizeof buf, "%d %a %d %d\n", nl, me, gd, go);
        line += buf;
        line += "C " + std::to_string(ncall) + " " + std::to_string(np);
        for (double v : x) { snprintf(buf, sizeof buf, " %a", v); line += buf; }
        line += "\n";
        if (write(logfd, line.data(), line.size()) < 0) _exit(3);
        y.resize(np * NUM_OUT);
        for (size_t i = 0; i < np; i++) fmodel(&x[i * d], d, &y[i * NUM_OUT]);
    };
    std::string outcome;
    try {
        if (fam == "sequence" || fam == "global" || fam == "fourier")
            constructSurrogate<mode_sequential>(model, budget, njobs, batch, grid, type_iptotal, std::vector<int>{1, 1}, std::vector<int>(), ckpt);
        else if (fam == "globalout")
            constructSurrogate<mode_sequential>(model, budget, njobs, batch, grid, type_iptotal, 0, std::vector<int>(), ckpt);
        else if (fam == "localp2")
            constructSurrogate<mode_sequential>(model, budget, njobs, batch, grid, 1.E-5, refine_fds, -1, std::vector<int>(), ckpt);
        else
            constructSurrogate<mode_sequential>(model, budget, njobs, batch, grid, 1.E-5, refine_classic, -1, std::vector<int>(), ckpt);
        if (!refdir.empty()) copy_file(ckpt, refdir + "/ck" + std::to_string(ncall));
        int n = grid.getNumLoaded(), d = grid.getNumDimensions(), o = grid.getNumOutputs();
        double e1 = grid_maxerr(grid), e2 = 0.0;
        std::vector<double> pts = grid.getLoadedPoints();
        if (n > 0) {
            std::vector<double> ev;
            grid.evaluateBatch(pts, ev);
            for (int i = 0; i < n; i++) {
                double y[NUM_OUT];
                fmodel(&pts[(size_t) i * d], d, y);
                for (int k = 0; k < o && k < NUM_OUT; k++) {
                    double e = std::fabs(ev[(size_t) i * o + k] - y[k]);
                    if (!(e <= e2)) e2 = e;
                }
            }
        }
        res = fopen(argv[8], "w");
        fprintf(res, "done %d %d %a %a\n", n, grid.getNumNeeded(), e1, e2);
        const double *vals = grid.getLoadedValues();
        for (int i = 0; i < n; i++) {
            fprintf(res, "P");
            for (int j = 0; j < d; j++) fprintf(res, " %a", pts[(size_t) i * d + j]);
            fprintf(res, " =");
            for (int k = 0; k < o; k++) fprintf(res, " %a", vals[(size_t) i * o + k]);
            fprintf(res, "\n");
        }
        fclose(res);
    } catch (std::exception &e) {
        res = fopen(argv[8], "w");
        fprintf(res, "exception %s %s %s\n", eclass(e), demangled(e).c_str(), oneline(e.what()).c_str());
        fclose(res);
    }
    close(logfd);
    return 0;
}

// the recovery reader exactly as coded in constructCommon (one attempt on one stream)
struct ReadOutcome { bool ok; std::string text; std::string rewritten; };
static ReadOutcome recovery_read(std::istream &is, bool details) {
    ReadOutcome r{false, "", ""};
    TasmanianSparseGrid grid = makeLocalPolynomialGrid(2, NUM_OUT, 1, 1, rule_localp); // "the current grid"
    CompleteStorage complete(2);
    char buf[256];
    try {
        if (!is.good()) throw std::runtime_error("missing main checkpoint");
        grid.read(is, mode_binary);
        long glen = (long) is.tellg();
        complete.read(is);
        long clen = (long) is.tellg();
        r.ok = true;
        double me = -1.0;
        int nl = -1;
        if (details) { nl = grid.getNumLoaded(); me = grid_maxerr(grid); }
        std::ostringstream re;
        if (details) { grid.write(re, mode_binary); complete.write(re); }
        snprintf(buf, sizeof buf, "ok gridlen=%ld numloaded=%d stored=%zu storedvals=%zu consumed=%ld maxerr=%a eof=%d fail=%d relen=%zu",
                 glen, nl, complete.points.size(), complete.values.size(), clen, me, (int) is.eof(), (int) is.fail(), re.str().size());
        r.text = buf;
        r.rewritten = re.str();
    } catch (std::runtime_error &e) {
        r.text = std::string("throw runtime_error ") + oneline(e.what());
    } catch (std::exception &e) {
        r.text = std::string("throw other:") + demangled(e) + " " + oneline(e.what());
    }
    return r;
}

static std::string slurp(const char *fn) {
    std::ifstream f(fn, std::ios::binary);
    std::stringstream ss;
    ss << f.rdbuf();
    return ss.str();
}

static int cmd_readcheck(int argc, char **argv) {
    if (argc < 3) return 2;
    std::ifstream f(argv[2], std::ios::binary);
    ReadOutcome r = recovery_read(f, true);
    // round trip: what the library writes for the state it has just read must be the file itself
    printf("%s%s\n", r.text.c_str(), r.ok ? ((r.rewritten == slurp(argv[2])) ? " roundtrip=1" : " roundtrip=0") : "");
    return 0;
}

static int cmd_storage(int argc, char **argv) {
    if (argc < 4) return 2;
    std::string all = slurp(argv[2]);
    size_t off = (size_t) atol(argv[3]);
    std::istringstream is(all.substr(off));
    CompleteStorage complete(2);
    try {
        complete.read(is);
        printf("storage %zu %zu", complete.points.size(), complete.values.size());
        for (double v : complete.points) printf(" %a", v);
        printf(" =");
        for (double v : complete.values) printf(" %a", v);
        printf("\n");
    } catch (std::exception &e) {
        printf("throw %s %s\n", eclass(e), oneline(e.what()).c_str());
    }
    return 0;
}

static std::vector<double> candidates_of(TasmanianSparseGrid &grid, const std::string &fam) {
    if (fam == "sequence" || fam == "global" || fam == "globalout" || fam == "fourier")
        return grid.getCandidateConstructionPoints(type_iptotal, std::vector<int>{1, 1});
    return grid.getCandidateConstructionPoints(1.E-5, refine_classic);
}

static int cmd_mkckpt(int argc, char **argv) {
    if (argc < 6) return 2;
    std::string fam = argv[2];
    size_t nload = (size_t) atol(argv[3]), nstore = (size_t) atol(argv[4]);
    TasmanianSparseGrid grid = make_grid(fam);
    grid.beginConstruction();
    CompleteStorage complete(2);
    size_t loaded = 0, stored = 0;
    while (loaded < nload || stored < nstore) {
        std::vector<double> cand = candidates_of(grid, fam);
        size_t nc = cand.size() / 2, used = 0;
        if (nc == 0) break;
        std::vector<double> lx, ly;
        for (size_t i = 0; i < nc && loaded < nload; i++, used++) {
            double y[NUM_OUT];
            fmodel(&cand[2 * i], 2, y);
            lx.insert(lx.end(), &cand[2 * i], &cand[2 * i] + 2);
            ly.insert(ly.end(), y, y + NUM_OUT);
            loaded++;
        }
        if (!lx.empty()) { grid.loadConstructedPoints(lx, ly); continue; }
        for (size_t i = used; i < nc && stored < nstore; i++) {
            double y[NUM_OUT];
            fmodel(&cand[2 * i], 2, y);
            complete.add(std::vector<double>(&cand[2 * i], &cand[2 * i] + 2), std::vector<double>(y, y + NUM_OUT));
            stored++;
        }
        break;
    }
    std::ofstream ofs(argv[5], std::ios::binary);
    grid.write(ofs, mode_binary);
    complete.write(ofs);
    ofs.close();
    printf("mkckpt loaded=%d stored=%zu\n", grid.getNumLoaded(), complete.getNumStored());
    return 0;
}

static int cmd_torn(int argc, char **argv) {
    if (argc < 5) return 2;
    std::string all = slurp(argv[2]);
    size_t first = (size_t) atol(argv[3]), stride = (size_t) atol(argv[4]);
    if (stride == 0) stride = 1;
    printf("size %zu\n", all.size());
    for (size_t L = first; L < all.size(); L += stride) {
        printf("L %zu ", L);
        fflush(stdout);
        std::istringstream is(all.substr(0, L));
        ReadOutcome r = recovery_read(is, false);
        printf("%s\n", r.text.c_str());
        fflush(stdout);
    }
    printf("end\n");
    return 0;
}

int main(int argc, char **argv) {
    if (argc < 2) return 2;
    std::string c = argv[1];
    try {
        if (c == "run") return cmd_run(argc, argv);
        if (c == "readcheck") return cmd_readcheck(argc, argv);
        if (c == "storage") return cmd_storage(argc, argv);
        if (c == "torn") return cmd_torn(argc, argv);
        if (c == "mkckpt") return cmd_mkckpt(argc, argv);
    } catch (std::exception &e) {
        printf("driver-exception %s %s\n", eclass(e), e.what());
        return 4;
    }
    return 2;
}
