// twdrv: tensor weights of the combination technique (ties of C02/C03): calls the real
// MultiIndexManipulations::computeTensorWeights(MultiIndexSet) and prints the weights.  White-box, read-only.
// Input: case file (argv[1]); one or two result lines per case on stdout.
//   set <id> <d> : i i i ...                         flat list of n*d coordinates, lexicographically sorted, duplicate free (the
//                                                    MultiIndexSet(size_t, std::vector<int>&&) constructor does not sort)
//   grid <id> global|fourier <rule> <type> <d> <depth> w: i..   the `tensors` member of the constructed grid (id suffix .t) and its
//                                                    `active_tensors` member (id suffix .a; in general NOT a lower set)
// Output:
//   r <id> <d> idx: i.. w: i..       the set as stored by MultiIndexSet and the vector computeTensorWeights returns
//   g <id> aw: i..                   (grid cases) the `active_w` member of the grid: the non-zero weights of `tensors`, in order
//   x <id> <message>                 exception
#include <algorithm>
#include <array>
#include <cassert>
#include <cmath>
#include <complex>
#include <cstdint>
#include <cstdio>
#include <cstdlib>
#include <cstring>
#include <fstream>
#include <functional>
#include <iomanip>
#include <iostream>
#include <limits>
#include <map>
#include <memory>
#include <numeric>
#include <set>
#include <sstream>
#include <stdexcept>
#include <string>
#include <vector>
#define private public
#define protected public
#include "TasmanianSparseGrid.hpp"
#include "tsgIndexManipulator.hpp"
#undef private
#undef protected

using namespace TasGrid;

static std::vector<std::string> toks(const std::string &line) { std::vector<std::string> t; std::istringstream ss(line); std::string s; while (ss >> s) t.push_back(s); return t; }

static void emit(const std::string &id, const MultiIndexSet &s) {
    std::vector<int> w = MultiIndexManipulations::computeTensorWeights(s);
    std::string out = "r " + id + " " + std::to_string(s.getNumDimensions()) + " idx:";
    for (int v : s.indexes) { out += " "; out += std::to_string(v); }
    out += " w:";
    for (int v : w) { out += " "; out += std::to_string(v); }
    printf("%s\n", out.c_str());
}

int main(int argc, char **argv) {
    if (argc < 2) return 2;
    std::ifstream in(argv[1]); std::string line;
    while (std::getline(in, line)) {
        auto t = toks(line); if (t.size() < 4) continue;
        std::string id = t[1];
        try {
            if (t[0] == "set") {
                int d = atoi(t[2].c_str());
                std::vector<int> flat;
                for (size_t i = 4; i < t.size(); i++) flat.push_back(atoi(t[i].c_str()));
                if (d < 1 || flat.empty() || flat.size() % (size_t) d != 0) { printf("x %s malformed\n", id.c_str()); continue; }
                MultiIndexSet s((size_t) d, std::move(flat));
                emit(id, s);
            } else if (t[0] == "grid" && t.size() >= 7) {
                std::string fam = t[2];
                TypeOneDRule rule = (fam == "fourier") ? rule_fourier : IO::getRuleString(t[3]);
                TypeDepth type = IO::getDepthTypeString(t[4]);
                int d = atoi(t[5].c_str()), depth = atoi(t[6].c_str());
                std::vector<int> w;
                for (size_t i = 8; i < t.size(); i++) w.push_back(atoi(t[i].c_str()));
                if (rule == rule_none || type == type_none) { printf("x %s unknown rule or type\n", id.c_str()); continue; }
                TasmanianSparseGrid grid;
                if (fam == "fourier") {
                    grid.makeFourierGrid(d, 1, depth, type, w);
                    emit(id + ".t", grid.get<GridFourier>()->tensors);
                    emit(id + ".a", grid.get<GridFourier>()->active_tensors);
                    std::string out = "g " + id + " aw:";
                    for (int v : grid.get<GridFourier>()->active_w) { out += " "; out += std::to_string(v); }
                    printf("%s\n", out.c_str());
                } else {
                    grid.makeGlobalGrid(d, 1, depth, type, rule, w);
                    emit(id + ".t", grid.get<GridGlobal>()->tensors);
                    emit(id + ".a", grid.get<GridGlobal>()->active_tensors);
                    std::string out = "g " + id + " aw:";
                    for (int v : grid.get<GridGlobal>()->active_w) { out += " "; out += std::to_string(v); }
                    printf("%s\n", out.c_str());
                }
            }
        } catch (std::exception &e) { printf("x %s %s\n", id.c_str(), e.what()); }
        fflush(stdout);
    }
    return 0;
}
