// unitdrv: white-box driver for internal routines that have a hand-written Coq model:
//   MultiIndexSet / StorageSet (tsgIndexSets), RuleLocal::* (tsgRuleLocalPolynomial.hpp).
// Input: case file (argv[1]); output: one result line per case on stdout.
//   iset <id> merge|diff|sortunique|slot|remove <d> a: i.. b: i..
//   iset <id> addvalues <d> old: i.. new: i.. vals: v.. newvals: v..       (one value per index)
//   rlint <rule> <maxpoint>                 hierarchy functions for points 0..maxpoint and levels 0..12
//   rlq <rule> <order> <p0> <p1> x: x..     node support scaleDiffX, and evalRaw / evalSupport / diffSupport at each x
#include <algorithm>
#include <array>
#include <cassert>
#include <cmath>
#include <complex>
#include <cstdint>
#include <cstdio>
#include <cstdlib>
#include <cstring>
#include <fstream>
#include <functional>
#include <iomanip>
#include <iostream>
#include <limits>
#include <map>
#include <memory>
#include <numeric>
#include <set>
#include <sstream>
#include <stdexcept>
#include <string>
#include <vector>
#define private public
#define protected public
#include "TasmanianSparseGrid.hpp"
#include "tsgRuleLocalPolynomial.hpp"
#include "tsgIndexManipulator.hpp"
#undef private
#undef protected

using namespace TasGrid;

static std::vector<std::string> toks(const std::string &line) { std::vector<std::string> t; std::istringstream ss(line); std::string s; while (ss >> s) t.push_back(s); return t; }
static std::map<std::string, std::vector<std::string>> keyed(const std::vector<std::string> &t, size_t from) {
    std::map<std::string, std::vector<std::string>> m; std::string k;
    for (size_t i = from; i < t.size(); i++) { if (!t[i].empty() && t[i].back() == ':') { k = t[i]; m[k]; } else if (!k.empty()) m[k].push_back(t[i]); }
    return m; }
static std::vector<int> ints(const std::vector<std::string> &v) { std::vector<int> r; for (auto &s : v) r.push_back(atoi(s.c_str())); return r; }
static std::vector<double> dbls(const std::vector<std::string> &v) { std::vector<double> r; for (auto &s : v) r.push_back(strtod(s.c_str(), nullptr)); return r; }

static MultiIndexSet sortedSet(size_t d, std::vector<int> v) { if (v.empty()) return MultiIndexSet(d, std::vector<int>()); return MultiIndexSet(d, std::move(v)); }

template<RuleLocal::erule R> static void rlint(int maxpoint) {
    printf("numpoints"); for (int l = 0; l <= 12; l++) printf(" %d", RuleLocal::getNumPoints<R>(l)); printf("\n");
    printf("maxkids %d maxparents %d\n", RuleLocal::getMaxNumKids<R>(), RuleLocal::getMaxNumParents<R>());
    for (int p = 0; p <= maxpoint; p++) {
        printf("pt %d %d %d %d", p, RuleLocal::getParent<R>(p), RuleLocal::getStepParent<R>(p), RuleLocal::getLevel<R>(p));
        for (int k = 0; k < RuleLocal::getMaxNumKids<R>(); k++) printf(" %d", RuleLocal::getKid<R>(p, k));
        printf("\n");
    }
}
template<RuleLocal::erule R> static void rlq(int order, int p0, int p1, const std::vector<double> &xs) {
    for (int p = p0; p <= p1; p++) {
        // scaleDiffX<semilocalp> is only defined for points >= 3 (int2log2 of a negative number does not terminate)
        printf("q %d %a %a %a", p, RuleLocal::getNode<R>(p), RuleLocal::getSupport<R>(p), (R == RuleLocal::erule::semilocalp && p < 3) ? 0.0 : RuleLocal::scaleDiffX<R>(p));
        for (double x : xs) { bool s1 = false, s2 = false; double r = RuleLocal::evalRaw<R>(order, p, x); double e = RuleLocal::evalSupport<R>(order, p, x, s1);
            double dd = RuleLocal::diffSupport<R>(order, p, x, s2); printf(" | %a %a %d %a %d", r, e, (int) s1, dd, (int) s2); }
        printf("\n");
    }
}

int main(int argc, char **argv) {
    if (argc < 2) return 2;
    std::ifstream in(argv[1]); std::string line;
    while (std::getline(in, line)) {
        auto t = toks(line); if (t.empty()) continue;
        try {
        if (t[0] == "iset") {
            std::string id = t[1], op = t[2]; size_t d = (size_t) atoi(t[3].c_str()); auto m = keyed(t, 4);
            printf("r %s", id.c_str());
            if (op == "merge") { MultiIndexSet a = sortedSet(d, ints(m["a:"])), b = sortedSet(d, ints(m["b:"])); a += b; for (int v : a.indexes) printf(" %d", v); }
            else if (op == "diff") { MultiIndexSet a = sortedSet(d, ints(m["a:"])), b = sortedSet(d, ints(m["b:"])); MultiIndexSet c = a - b; for (int v : c.indexes) printf(" %d", v); }
            else if (op == "sortunique") { std::vector<int> a = ints(m["a:"]); Data2D<int> dat(d, a.size() / d, std::move(a)); MultiIndexSet s(dat); for (int v : s.indexes) printf(" %d", v); }
            else if (op == "slot") { MultiIndexSet a = sortedSet(d, ints(m["a:"])); std::vector<int> b = ints(m["b:"]); for (size_t i = 0; i + d <= b.size(); i += d) printf(" %d", a.getSlot(&b[i])); }
            else if (op == "remove") { MultiIndexSet a = sortedSet(d, ints(m["a:"])); std::vector<int> b = ints(m["b:"]); a.removeIndex(b); for (int v : a.indexes) printf(" %d", v); }
            else if (op == "addvalues") { MultiIndexSet o = sortedSet(d, ints(m["old:"])), n = sortedSet(d, ints(m["new:"])); std::vector<double> v = dbls(m["vals:"]), nv = dbls(m["newvals:"]);
                StorageSet st(1, (int) v.size(), std::move(v)); st.addValues(o, n, nv.data()); for (size_t i = 0; i < st.getNumOutputs() * (size_t) (o.getNumIndexes() + n.getNumIndexes()); i++) printf(" %a", st.getValues(0)[i]); }
            printf("\n");
        } else if (t[0] == "lset") { // lset <id> <d> <offset> w: i.. ll: i..   (tensor selection, contour type_level)
            std::string id = t[1]; size_t d = (size_t) atoi(t[2].c_str()); int off = atoi(t[3].c_str()); auto m = keyed(t, 4);
            MultiIndexSet s = MultiIndexManipulations::selectTensors(d, off, type_level, [](int l) -> int { return l; }, ints(m["w:"]), ints(m["ll:"]));
            printf("r %s", id.c_str()); for (int v : s.indexes) printf(" %d", v); printf("\n");
        } else if (t[0] == "boxfull") { // boxfull <id> <d> ll: i.. a: i..
            std::string id = t[1]; size_t d = (size_t) atoi(t[2].c_str()); auto m = keyed(t, 3);
            MultiIndexSet a = sortedSet(d, ints(m["a:"]));
            printf("r %s %d\n", id.c_str(), (int) MultiIndexManipulations::isLimitsBoxFull(ints(m["ll:"]), a));
        } else if (t[0] == "rlint") {
            printf("%s\n", line.c_str()); int mp = atoi(t[2].c_str());
            if (t[1] == "pwc") rlint<RuleLocal::erule::pwc>(mp); else if (t[1] == "localp") rlint<RuleLocal::erule::localp>(mp);
            else if (t[1] == "semilocalp") rlint<RuleLocal::erule::semilocalp>(mp); else if (t[1] == "localp0") rlint<RuleLocal::erule::localp0>(mp);
            else rlint<RuleLocal::erule::localpb>(mp);
            printf("end\n");
        } else if (t[0] == "rlq") {
            printf("%s\n", line.c_str()); int order = atoi(t[2].c_str()), p0 = atoi(t[3].c_str()), p1 = atoi(t[4].c_str()); auto m = keyed(t, 5); std::vector<double> xs = dbls(m["x:"]);
            if (t[1] == "pwc") rlq<RuleLocal::erule::pwc>(order, p0, p1, xs); else if (t[1] == "localp") rlq<RuleLocal::erule::localp>(order, p0, p1, xs);
            else if (t[1] == "semilocalp") rlq<RuleLocal::erule::semilocalp>(order, p0, p1, xs); else if (t[1] == "localp0") rlq<RuleLocal::erule::localp0>(order, p0, p1, xs);
            else rlq<RuleLocal::erule::localpb>(order, p0, p1, xs);
            printf("end\n");
        }
        } catch (std::exception &e) { printf("x %s\n", e.what()); }
    }
    return 0;
}
