// rlqdrv: prints getNode / getSupport / scaleDiffX of namespace RuleLocal (header-only templates of tsgRuleLocalPolynomial.hpp,
// compiled from the working tree; no library needed) for every effective rule and every point 0..maxpoint, as hex floats (%a).
// usage: rlqdrv <maxpoint>        output: one line per rule and point:   q <rule> <point> <node> <support> <scaleDiffX | ->
// scaleDiffX<semilocalp>(0) is not evaluated (it calls int2log2(-1), whose loop does not end): printed as `-`.
// Used by props/rulelocalqgen.py (compiled there with g++ -std=c++11 -O1 -ffp-contract=off -I<config> -I<repo>/SparseGrids).
#include <cstdio>
#include <cstdlib>
#include "tsgMathUtils.hpp"
#include "tsgRuleLocalPolynomial.hpp"

using namespace TasGrid;

template<RuleLocal::erule R> static void dump(const char *name, int maxpoint) {
    for (int p = 0; p <= maxpoint; p++) {
        std::printf("q %s %d %a %a", name, p, RuleLocal::getNode<R>(p), RuleLocal::getSupport<R>(p));
        if (R == RuleLocal::erule::semilocalp && p < 1) std::printf(" -\n");
        else std::printf(" %a\n", RuleLocal::scaleDiffX<R>(p));
    }
}

int main(int argc, char **argv) {
    int mp = (argc > 1) ? std::atoi(argv[1]) : 700;
    dump<RuleLocal::erule::pwc>("pwc", mp);
    dump<RuleLocal::erule::localp>("localp", mp);
    dump<RuleLocal::erule::semilocalp>("semilocalp", mp);
    dump<RuleLocal::erule::localp0>("localp0", mp);
    dump<RuleLocal::erule::localpb>("localpb", mp);
    return 0;
}
