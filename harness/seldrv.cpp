// seldrv: white-box driver for the candidate selection of Local Polynomial surplus refinement (C07, all five criteria).
// Input: script file (argv[1]); output: stdout in the format of tsgdrv ("case", "c <cmd>", "o <tag> <n> v..", "x <exc> <text>").
//
//   case <id>
//   make <dims> <outs> <depth> <order> <rule> [ll: i..]      makeLocalPolynomialGrid
//   load <fn>                                                values fn(x) at the needed points (all points when nothing is loaded)
//   ref <tolspec> <crit> <out> [ll: i..] [scale: none|ones|half|rand]      setSurplusRefinement (a history step, nothing printed)
//   rem <frac>                                               removePointsByHierarchicalCoefficient(max(1, frac * loaded), -1): keeps that many points
//   cap <n>                                                  every later load/ref/sel of the case fails with "driver too-large" when the grid has more than n points
//   sel <tolspec> <crit> <out> [ll: i..] [scale: ..]         prints tol, pidx, values, coef, scale, pmap (buildUpdateMap, white-box,
//                                                            called BEFORE the refinement), then calls setSurplusRefinement and
//                                                            prints the effective level limits and nidx (needed set)
//   tolspec: a C99 hex/decimal double | q<frac>  = midpoint between two adjacent distinct scaled coefficients at that quantile
//                                      | e<frac>  = exactly the scaled coefficient at that quantile (tie on <=)
// value functions: hash | poly | smooth | peak | one | zero
#include <algorithm>
#include <array>
#include <cassert>
#include <cmath>
#include <complex>
#include <cstdint>
#include <cstdio>
#include <cstdlib>
#include <cstring>
#include <fstream>
#include <functional>
#include <iomanip>
#include <iostream>
#include <limits>
#include <map>
#include <memory>
#include <numeric>
#include <set>
#include <sstream>
#include <stdexcept>
#include <string>
#include <typeinfo>
#include <vector>
#include <unistd.h>
#include <signal.h>
#include <sys/wait.h>
// white-box (read-only) access: points / needed index sets, surpluses, buildUpdateMap
#define private public
#define protected public
#include "TasmanianSparseGrid.hpp"
#include "caselimit.hpp"
#undef private
#undef protected

using namespace TasGrid;

static std::map<std::string, TypeOneDRule> RULES = {{"localp", rule_localp}, {"localp-zero", rule_localp0}, {"localp-boundary", rule_localpb}, {"semi-localp", rule_semilocalp}};
static std::map<std::string, TypeRefinement> REFS = {{"classic", refine_classic}, {"parents", refine_parents_first}, {"direction", refine_direction_selective},
                                                     {"fds", refine_fds}, {"stable", refine_stable}};

static void pd(const char *tag, const double *v, size_t n) { printf("o %s %zu", tag, n); for (size_t i = 0; i < n; i++) printf(" %a", v[i]); printf("\n"); }
static void pi(const char *tag, const int *v, size_t n) { printf("o %s %zu", tag, n); for (size_t i = 0; i < n; i++) printf(" %d", v[i]); printf("\n"); }
static void pi(const char *tag, const std::vector<int> &v) { pi(tag, v.data(), v.size()); }

static uint64_t mix(uint64_t h) { h ^= h >> 33; h *= 0xff51afd7ed558ccdULL; h ^= h >> 33; h *= 0xc4ceb9fe1a85ec53ULL; h ^= h >> 33; return h; }
static double fn_value(const std::string &fn, const double *x, int d, int j) {
    if (fn == "zero") return 0.0;
    if (fn == "one") return 1.0 + j;
    if (fn == "hash") { uint64_t h = 0x9e3779b97f4a7c15ULL + (uint64_t) j;
        for (int i = 0; i < d; i++) { double v = x[i] + 0.0; uint64_t b; memcpy(&b, &v, 8); h = mix(h ^ b); }
        return ((double) (int64_t) (h % 4001) - 2000.0) / 64.0; }
    if (fn == "poly") { double v = 1.0 + j; for (int i = 0; i < d; i++) v += (i + 1 + j) * x[i] + 0.5 * x[i] * x[i]; if (d > 1) v += x[0] * x[1]; return v; }
    if (fn == "smooth") { double s = 0, q = 0; for (int i = 0; i < d; i++) { s += x[i]; q += x[i] * x[i]; } return std::exp(-0.5 * q) * std::cos(0.3 * j + 0.7 * s) + 0.1 * j; }
    if (fn == "peak") { double q = 0; for (int i = 0; i < d; i++) q += (x[i] - 0.3 - 0.1 * i) * (x[i] - 0.3 - 0.1 * i) * (1 + 3 * i); return 1.0 / (0.05 + q) + j; }
    throw std::runtime_error("driver: unknown value function " + fn);
}

struct Tok { std::vector<std::string> t; size_t p = 0;
    bool more() const { return p < t.size(); }
    std::string next() { if (p >= t.size()) throw std::runtime_error("driver: missing token"); return t[p++]; }
    int ni() { return atoi(next().c_str()); }
    static bool isKey(const std::string &s) { return !s.empty() && s.back() == ':'; }
    std::map<std::string, std::vector<std::string>> keyed() { std::map<std::string, std::vector<std::string>> m; std::string k;
        while (more()) { std::string s = next(); if (isKey(s)) { k = s; m[k]; } else if (!k.empty()) m[k].push_back(s); } return m; }
};
static std::vector<int> toInts(const std::vector<std::string> &v) { std::vector<int> r; for (auto &s : v) r.push_back(atoi(s.c_str())); return r; }

static TasmanianSparseGrid grid;
static int cap_points = 1 << 30;
static void check_cap() { if (grid.getNumPoints() > cap_points || grid.getNumLoaded() + grid.getNumNeeded() > cap_points) throw std::runtime_error("driver: too-large"); }

// the scaled coefficients the documentation describes: max over the active outputs of c_k |s_k| / norm_k
static std::vector<double> ratios(int out, const std::vector<double> &scale) {
    int outs = grid.getNumOutputs(), n = grid.getNumLoaded(); const double *s = grid.getHierarchicalCoefficients(), *v = grid.getLoadedValues();
    std::vector<double> norm(outs, 0.0); for (int i = 0; i < n; i++) for (int k = 0; k < outs; k++) norm[k] = std::max(norm[k], std::abs(v[i * outs + k]));
    int act = (out == -1) ? outs : 1; std::vector<double> r(n, 0.0);
    for (int i = 0; i < n; i++) for (int kk = 0; kk < act; kk++) { int k = (out == -1) ? kk : out; double c = scale.empty() ? 1.0 : scale[(size_t) i * act + kk];
        double q = c * std::abs(s[i * outs + k]) / norm[k]; if (q == q && q > r[i]) r[i] = q; }
    return r;
}
static double tolerance(const std::string &spec, int out, const std::vector<double> &scale) {
    if (spec[0] != 'q' && spec[0] != 'e') return strtod(spec.c_str(), nullptr);
    double frac = strtod(spec.c_str() + 1, nullptr); std::vector<double> r = ratios(out, scale); std::sort(r.begin(), r.end());
    r.erase(std::unique(r.begin(), r.end()), r.end()); std::vector<double> f; for (double q : r) if (std::isfinite(q)) f.push_back(q);
    if (f.empty()) return 0.5;
    size_t pos = (size_t) (frac * (double) (f.size() - 1)); if (pos >= f.size()) pos = f.size() - 1;
    if (spec[0] == 'e') return f[pos];
    return (pos + 1 < f.size()) ? 0.5 * (f[pos] + f[pos + 1]) : 2.0 * f[pos] + 1.0;
}
static std::vector<double> make_scale(const std::string &sc, int out) {
    std::vector<double> scale; if (sc == "none") return scale;
    size_t n = (size_t) grid.getNumLoaded() * (size_t) ((out == -1) ? grid.getNumOutputs() : 1); scale.resize(n);
    for (size_t i = 0; i < n; i++) scale[i] = (sc == "ones") ? 1.0 : (sc == "half") ? 0.5 : ((double) (mix(i + 17) % 1000) / 500.0);
    return scale;
}

static void run_line(const std::string &line) {
    Tok k; { std::istringstream ss(line); std::string t; while (ss >> t) k.t.push_back(t); }
    if (k.t.empty() || k.t[0][0] == '#') return;
    std::string cmd = k.next();
    if (cmd == "case") { grid = TasmanianSparseGrid(); cap_points = 1 << 30; printf("case %s\n", k.next().c_str()); return; }
    printf("c %s\n", line.c_str()); fflush(stdout);
    if (cmd == "make") { int d = k.ni(), outs = k.ni(), depth = k.ni(), order = k.ni(); TypeOneDRule r = RULES.at(k.next()); auto m = k.keyed();
        grid.makeLocalPolynomialGrid(d, outs, depth, order, r, toInts(m["ll:"])); }
    else if (cmd == "cap") cap_points = k.ni();
    else if (cmd == "load") { check_cap(); std::string fn = k.next(); int d = grid.getNumDimensions(), outs = grid.getNumOutputs();
        std::vector<double> pts = (grid.getNumNeeded() > 0) ? grid.getNeededPoints() : grid.getLoadedPoints(); size_t n = pts.size() / (size_t) d;
        std::vector<double> v(n * (size_t) outs); for (size_t p = 0; p < n; p++) for (int j = 0; j < outs; j++) v[p * outs + j] = fn_value(fn, pts.data() + p * d, d, j);
        grid.loadNeededValues(v); }
    else if (cmd == "rem") { double frac = strtod(k.next().c_str(), nullptr); int n = std::max(1, (int) (frac * grid.getNumLoaded()));
        if (grid.getNumNeeded() == 0 && n < grid.getNumLoaded()) grid.removePointsByHierarchicalCoefficient(n, -1); }
    else if (cmd == "ref" || cmd == "sel") { check_cap();
        std::string tspec = k.next(); TypeRefinement cr = REFS.at(k.next()); int out = k.ni(); auto m = k.keyed();
        std::vector<int> ll = toInts(m["ll:"]); std::string sc = m.count("scale:") ? m["scale:"][0] : "none";
        if (out < -1 || out >= grid.getNumOutputs()) throw std::runtime_error("driver: output out of range");
        std::vector<double> scale = make_scale(sc, out); double tol = tolerance(tspec, out, scale);
        if (cmd == "sel") {
            const GridLocalPolynomial *g = grid.get<GridLocalPolynomial>(); if (g == nullptr) throw std::runtime_error("driver: not a local polynomial grid");
            int d = grid.getNumDimensions(), outs = grid.getNumOutputs(), n = grid.getNumLoaded();
            printf("o tol 1 %a\n", tol);
            printf("o meta type=localp dims=%d outs=%d order=%d erule=%d loaded=%d\n", d, outs, grid.getOrder(), (int) g->effective_rule, n);
            pi("pidx", g->points.indexes);
            pd("values", grid.getLoadedValues(), (size_t) outs * n);
            pd("coef", grid.getHierarchicalCoefficients(), (size_t) outs * n);
            pd("scale", scale.data(), scale.size());
            const double *scp = scale.empty() ? nullptr : scale.data(); Data2D<int> pmap;
            switch (g->effective_rule) {   // private template of the class, instantiated in the library for the five effective rules
                case RuleLocal::erule::pwc: pmap = g->buildUpdateMap<RuleLocal::erule::pwc>(tol, cr, out, scp); break;
                case RuleLocal::erule::localp: pmap = g->buildUpdateMap<RuleLocal::erule::localp>(tol, cr, out, scp); break;
                case RuleLocal::erule::semilocalp: pmap = g->buildUpdateMap<RuleLocal::erule::semilocalp>(tol, cr, out, scp); break;
                case RuleLocal::erule::localp0: pmap = g->buildUpdateMap<RuleLocal::erule::localp0>(tol, cr, out, scp); break;
                default: pmap = g->buildUpdateMap<RuleLocal::erule::localpb>(tol, cr, out, scp); break;
            }
            pi("pmap", pmap.data(), pmap.getTotalEntries());
        }
        grid.setSurplusRefinement(tol, cr, out, ll, scale);
        if (cmd == "sel") { pi("limits", grid.getLevelLimits());
            const GridLocalPolynomial *g = grid.get<GridLocalPolynomial>();
            if (g->needed.empty()) pi("nidx", nullptr, 0); else pi("nidx", g->needed.indexes); }
    }
    else throw std::runtime_error("driver: unknown command " + cmd);
}

static void run_guarded(const std::string &line) {
    try { run_line(line); }
    catch (std::invalid_argument &e) { printf("x invalid_argument %s\n", e.what()); }
    catch (std::runtime_error &e) { if (strncmp(e.what(), "driver:", 7) == 0) printf("x driver %s\n", e.what()); else printf("x runtime_error %s\n", e.what()); }
    catch (std::out_of_range &e) { printf("x driver out_of_range %s\n", e.what()); }
    catch (std::exception &e) { printf("x other:%s %s\n", typeid(e).name(), e.what()); }
    fflush(stdout);
}

int main(int argc, char **argv) {
    if (argc < 2) { fprintf(stderr, "usage: seldrv script [workdir] [case-timeout-seconds]\n"); return 2; }
    int case_timeout = (argc > 3) ? atoi(argv[3]) : 20;
    std::ifstream in(argv[1]); std::string line;
    std::vector<std::vector<std::string>> cases;
    while (std::getline(in, line)) {
        if (line.compare(0, 5, "case ") == 0 || cases.empty()) cases.emplace_back();
        cases.back().push_back(line);
    }
    for (auto &c : cases) {
        fflush(stdout);
        pid_t pid = fork();
        if (pid == 0) {
            verif_case_limit(case_timeout);
            for (auto &l : c) run_guarded(l);
            fflush(stdout);
            _exit(0);
        }
        int status = 0; waitpid(pid, &status, 0);
        if (WIFSIGNALED(status)) {
            if (verif_is_timeout(WTERMSIG(status))) printf("\nx hang no return within %d s\n", case_timeout);
            else printf("\nx crash:%d terminated by signal\n", WTERMSIG(status));
        } else if (WIFEXITED(status) && WEXITSTATUS(status) != 0) printf("\nx crash:exit%d abnormal exit\n", WEXITSTATUS(status));
        fflush(stdout);
    }
    return 0;
}
