// exoticdrv: Global grids on EXOTIC (Addons/tsgExoticQuadrature.hpp) and hand-made CUSTOM-TABULATED one-dimensional rules (C02).
// Public API only.  One forked child per case (a crash or a hang of one case does not lose the others).
// Input: case file (argv[1]), one case per line:
//   exo <id> <weight> <shift> <num_levels> <nref> <symmetric 0/1> <dims> <depth> <type> [aw: i ..] [trans: a b a b ..]
//        <weight> = poly:<c0>,<c1>,..  (rho(x) = sum c_k x^k)  |  cos:<a>  (cos(a x))  |  sin:<a>  (sin(a x))  |  sinc:<a>  (sin(a x)/(a x))
//        getExoticQuadrature(num_levels, shift, rho, nref, "desc", symmetric), makeGlobalGrid(dims, 0, depth, type, rule, aw)
//   ct  <id> <variant> <io> <num_levels> <dims> <depth> <type> [aw: i ..] [trans: a b a b ..]
//        <variant> = gl (level l = Gauss-Legendre with l+1 nodes, precision 2l+1) | glodd (2l+1 nodes, precision 4l+1)
//        <io> = mem | ascii | binary   (the table is written to a stream and read back before it is used)
// Output (doubles with %a):
//   case <id>
//   np <n> / pts: .. / qw: .. / poly <dims>: i ..      (getNumPoints, getPoints, getQuadratureWeights, getGlobalPolynomialSpace(false))
//   lev <l> <npoints> <qexact> <iexact> x: .. w: ..    for every level of the rule
//   desc <description of the grid's rule>
//   end <id>
// or  x <id> <exception text>   |   crash <id> <signal>   |   hang <id>
#include <algorithm>
#include <cmath>
#include <cstdio>
#include <cstdlib>
#include <cstring>
#include <fstream>
#include <functional>
#include <iostream>
#include <sstream>
#include <stdexcept>
#include <string>
#include <vector>
#include <sys/types.h>
#include <sys/wait.h>
#include <unistd.h>
#include "TasmanianSparseGrid.hpp"
#include "tsgExoticQuadrature.hpp"
#include "caselimit.hpp"

using namespace TasGrid;

static std::vector<std::string> toks(const std::string &line) { std::vector<std::string> t; std::istringstream ss(line); std::string s; while (ss >> s) t.push_back(s); return t; }

static void pd(const char *tag, const std::vector<double> &v) {
    printf("%s", tag);
    for (double x : v) printf(" %a", x);
    printf("\n");
}

static std::function<double(double)> weight_fn(const std::string &name) {
    size_t c = name.find(':');
    if (c == std::string::npos) throw std::invalid_argument("driver: malformed weight " + name);
    std::string kind = name.substr(0, c), arg = name.substr(c + 1);
    if (kind == "poly") {
        std::vector<double> co;
        std::stringstream ss(arg); std::string s;
        while (std::getline(ss, s, ',')) co.push_back(strtod(s.c_str(), nullptr));
        if (co.empty()) throw std::invalid_argument("driver: empty polynomial weight");
        return [co](double x) -> double { double v = 0.0; for (size_t k = co.size(); k-- > 0;) v = v * x + co[k]; return v; };
    }
    double a = strtod(arg.c_str(), nullptr);
    if (kind == "cos") return [a](double x) -> double { return std::cos(a * x); };
    if (kind == "sin") return [a](double x) -> double { return std::sin(a * x); };
    if (kind == "sinc") return [a](double x) -> double { double t = a * x; return (std::abs(t) < 1e-8) ? 1.0 - t * t / 6.0 : std::sin(t) / t; };
    throw std::invalid_argument("driver: unknown weight " + name);
}

static CustomTabulated handmade(const std::string &variant, const std::string &io, int num_levels) {
    std::vector<int> nn(num_levels), prec(num_levels);
    std::vector<std::vector<double>> nodes(num_levels), weights(num_levels);
    for (int l = 0; l < num_levels; l++) {
        int n = (variant == "glodd") ? 2 * l + 1 : l + 1;
        if (variant != "gl" && variant != "glodd") throw std::invalid_argument("driver: unknown table " + variant);
        nn[l] = n; prec[l] = 2 * n - 1;
        OneDimensionalNodes::getGaussLegendre(n, weights[l], nodes[l]);
    }
    CustomTabulated ct(std::move(nn), std::move(prec), std::move(nodes), std::move(weights), "hand-made Gauss-Legendre table");
    if (io == "mem") return ct;
    if (io == "ascii") {
        std::stringstream ss;
        ct.write<mode_ascii>(ss);
        return CustomTabulated(ss, IO::mode_ascii_type());
    }
    if (io == "binary") {
        std::stringstream ss(std::ios::in | std::ios::out | std::ios::binary);
        ct.write<mode_binary>(ss);
        return CustomTabulated(ss, IO::mode_binary_type());
    }
    throw std::invalid_argument("driver: unknown io mode " + io);
}

static void run_case(const std::vector<std::string> &t) {
    const std::string &id = t[1];
    size_t pos;
    CustomTabulated ct;
    if (t[0] == "exo") {
        if (t.size() < 10) throw std::invalid_argument("driver: malformed exo case");
        double shift = strtod(t[3].c_str(), nullptr);
        int num_levels = atoi(t[4].c_str()), nref = atoi(t[5].c_str());
        bool sym = (atoi(t[6].c_str()) != 0);
        ct = getExoticQuadrature(num_levels, shift, weight_fn(t[2]), nref, "exotic rule of the driver", sym);
        pos = 7;
    } else {
        if (t.size() < 8) throw std::invalid_argument("driver: malformed ct case");
        ct = handmade(t[2], t[3], atoi(t[4].c_str()));
        pos = 5;
    }
    int dims = atoi(t[pos].c_str()), depth = atoi(t[pos + 1].c_str());
    TypeDepth type = IO::getDepthTypeString(t[pos + 2]);
    if (type == type_none || dims < 1) throw std::invalid_argument("driver: bad dims or type");
    std::vector<int> aw; std::vector<double> ta, tb;
    int mode = 0;
    for (size_t i = pos + 3; i < t.size(); i++) {
        if (t[i] == "aw:") { mode = 1; continue; }
        if (t[i] == "trans:") { mode = 2; continue; }
        if (mode == 1) aw.push_back(atoi(t[i].c_str()));
        if (mode == 2) { if (ta.size() == tb.size()) ta.push_back(strtod(t[i].c_str(), nullptr)); else tb.push_back(strtod(t[i].c_str(), nullptr)); }
    }
    CustomTabulated keep = ct;      // the grid takes the rule by move
    TasmanianSparseGrid grid;
    grid.makeGlobalGrid(dims, 0, depth, type, std::move(ct), aw);
    if (!ta.empty()) grid.setDomainTransform(ta, tb);
    std::vector<double> x = grid.getPoints();
    std::vector<double> w = grid.getQuadratureWeights();
    std::vector<int> space = grid.getGlobalPolynomialSpace(false);
    printf("case %s\n", id.c_str());
    printf("np %d\n", grid.getNumPoints());
    pd("pts:", x);
    pd("qw:", w);
    printf("poly %d:", dims);
    for (int v : space) printf(" %d", v);
    printf("\n");
    for (int l = 0; l < keep.getNumLevels(); l++) {
        std::vector<double> lw, lx;
        keep.getWeightsNodes(l, lw, lx);
        printf("lev %d %d %d %d x:", l, keep.getNumPoints(l), keep.getQExact(l), keep.getIExact(l));
        for (double v : lx) printf(" %a", v);
        printf(" w:");
        for (double v : lw) printf(" %a", v);
        printf("\n");
    }
    printf("desc %s\n", grid.getCustomRuleDescription());
    printf("end %s\n", id.c_str());
}

int main(int argc, char **argv) {
    if (argc < 2) return 2;
    int limit = (argc > 2) ? atoi(argv[2]) : 30;
    std::ifstream in(argv[1]); std::string line;
    while (std::getline(in, line)) {
        auto t = toks(line);
        if (t.size() < 2 || (t[0] != "exo" && t[0] != "ct")) continue;
        fflush(stdout);
        pid_t pid = fork();
        if (pid < 0) { printf("x %s fork failed\n", t[1].c_str()); continue; }
        if (pid == 0) {
            verif_case_limit(limit);
            try {
                run_case(t);
            } catch (std::exception &e) {
                std::string m = e.what();
                std::replace(m.begin(), m.end(), '\n', ' ');
                printf("x %s %s\n", t[1].c_str(), m.c_str());
            }
            fflush(stdout);
            _exit(0);
        }
        int status = 0;
        waitpid(pid, &status, 0);
        if (WIFSIGNALED(status)) {
            if (verif_is_timeout(WTERMSIG(status))) printf("hang %s\n", t[1].c_str());
            else printf("crash %s %d\n", t[1].c_str(), WTERMSIG(status));
        } else if (WIFEXITED(status) && WEXITSTATUS(status) != 0) {
            printf("crash %s exit%d\n", t[1].c_str(), WEXITSTATUS(status));
        }
        fflush(stdout);
    }
    return 0;
}
