// pardrv: one run of parallel constructSurrogate / threaded loadNeededValues with a logging model callback (C18).
//
//   pardrv key=value ...      (one configuration per process, so that a hang is a timeout of that process only)
//
// keys: mode=cs|api|lnv   cs  = constructCommon<parallel> with the driver's own (logging) candidates lambda
//                          api = the public constructSurrogate overloads (refreshes are not logged)
//                          lnv = threaded loadNeededValues
//                          seq = no threads: beginConstruction, then loadConstructedPoints one point at a time in the order
//                                given by seq=x,y,..;x,y,..  (values = the model function); shows what the grid does with an order
//       grid=localp|semilocalp|localp0|sequence|global  dims outs depth order
//       cand=surplus|aniso  tol crit(classic|parents|direction|fds|stable) limit(level limit per dimension, -1 = none)
//       jobs batch budget   guess(0|1)  preload(0|1: load the initial grid points through loadNeededValues first)
//       lat=0|1|2|3 (model latency none / skewed / random / 3 = the "running job drops out of the candidates" scenario: a spike of
//                    1000 at x0 = 0.5 and a very slow call at x0 = -0.5, slow at x0 = 1: while -0.5 is being computed the spike is loaded,
//                    the normalisation jumps and -0.5 stops being a candidate; the run must still wait for it and load it)  yield=0|1|2 (hook sink: none / yield / yield+sleep)  seed
//       overwrite(0|1) vecmodel(0|1)   (lnv only)
//
// Output (stdout, written single-threaded after the run; doubles as %a):
//   CFG ...                      echo
//   HOOKS 0|1                    whether the library was built with the guarded trace points of fixes/hooks-C18.diff
//   P <pid> <coords>             point dictionary (pid >= 1)
//   INIT loaded <n> p...         points loaded before the run (with their values V)
//   CALL <thread> <enter> <exit> <serial0> <n> p... | v...     one model call (tickets from one global atomic counter)
//   T <ticket> <buf> <event> <id> <n> | p... | v...            protocol trace (hooks + candidates lambda), sorted by ticket
//   FINAL loaded <n> ...   LP <pid> <surrogate %a..> | <loaded value %a..>   loaded points of the final grid: evaluate() and getLoadedValues()
//   COMPLETE <0|1> <k>           local polynomial grids: is every loaded point's parent (per dimension) loaded; k = points with a missing parent
//   RESULT ok | exception <what>
#include <cstdio>
#include <cstdlib>
#include <cstring>
#include <cmath>
#include <string>
#include <vector>
#include <sstream>
#include <fstream>
#include <iostream>
#include <functional>
#include <stdexcept>
#include <random>
#include <memory>
#include <map>
#include <set>
#include <list>
#include <forward_list>
#include <numeric>
#include <algorithm>
#include <array>
#include <cassert>
#include <cstdint>
#include <limits>
#include <utility>
#include <mutex>
#include <thread>
#include <atomic>
#include <condition_variable>
#include <chrono>
#include "TasmanianAddons.hpp"

using namespace TasGrid;

// ------------------------------------------------------------------------------------------------------------
// logging without locks: one buffer per thread identity (0 = main, id+1 = worker id), tickets from a relaxed atomic
struct Rec {
    unsigned long ticket, ticket2;
    int event;          // hook event number; 100 = model call; 101 = refresh (driver's candidates lambda)
    size_t id, n;
    std::vector<double> x, y;
};
struct alignas(128) Buf {
    std::vector<Rec> recs;
    uint64_t rng;
};
static std::mutex g_ysize_mx; static size_t g_ysize_bad = 0; static size_t g_ysize_first[2] = {0, 0};
static std::vector<Buf> g_buf;
static std::atomic<unsigned long> g_clock(1);
static std::atomic<unsigned long> g_serial(1);
static int g_yield = 0, g_lat = 0;
static size_t g_outs = 1, g_dims = 1;

static inline unsigned long tick() { return g_clock.fetch_add(1, std::memory_order_relaxed); }
static inline uint64_t rnd(uint64_t &s) { s ^= s << 13; s ^= s >> 7; s ^= s << 17; return s; }

static void maybe_yield(Buf &b, bool inside_lock) {
    if (g_yield == 0) return;
    uint64_t r = rnd(b.rng);
    if (inside_lock) { if ((r & 15) == 0) std::this_thread::yield(); return; }
    if ((r & 3) == 0) std::this_thread::yield();
    else if (g_yield == 2 && (r & 31) == 1) std::this_thread::sleep_for(std::chrono::microseconds(20 + (r >> 8) % 200));
}

#ifdef TASMANIAN_VERIF_HOOK_SINK
static void sink(int event, size_t id, double const *x, size_t nx, double const *y, size_t ny) {
    size_t b = (event < 20) ? 0 : id + 1;
    if (b >= g_buf.size()) b = 0; // never happens for a correct library; keeps the driver memory-safe
    Buf &B = g_buf[b];
    bool outside = (event == VerifHooks::ev_pre_notify_all || event == VerifHooks::ev_notified_all || event == VerifHooks::ev_loop_top ||
                    event == VerifHooks::ev_w_pre_notify || event == VerifHooks::ev_w_notified || event == VerifHooks::ev_q_pre_lock ||
                    event == VerifHooks::ev_w_exit || event == VerifHooks::ev_q_exit);
    if (outside) maybe_yield(B, false);
    Rec r;
    r.ticket = tick(); r.ticket2 = 0; r.event = event; r.id = id; r.n = nx;
    if (x != nullptr) r.x.assign(x, x + nx);
    if (y != nullptr) r.y.assign(y, y + ny); else if (ny) r.y.assign(1, (double) ny);
    B.recs.push_back(std::move(r));
    maybe_yield(B, !outside);
}
static const char *evname(int e) {
    switch (e) {
    case 1: return "init_job"; case 2: return "init_shutdown"; case 3: return "loop_top"; case 4: return "cs_enter"; case 5: return "collect";
    case 6: return "load_call"; case 7: return "refreshed"; case 8: return "handout"; case 9: return "shutdown_nocand";
    case 10: return "shutdown_budget"; case 11: return "cs_exit"; case 12: return "pre_notify_all"; case 13: return "notified_all";
    case 14: return "loop_exit"; case 15: return "joined"; case 20: return "w_done"; case 21: return "w_pre_notify"; case 22: return "w_notified";
    case 23: return "w_wake"; case 24: return "w_exit"; case 30: return "q_pre_lock"; case 31: return "q_checkout"; case 32: return "q_exit";
    case 100: return "call"; case 101: return "refresh"; default: return "unknown";
    }
}
#else
static const char *evname(int e) { return e == 100 ? "call" : (e == 101 ? "refresh" : "unknown"); }
#endif

// ------------------------------------------------------------------------------------------------------------
static double fmodel(const double *x, size_t dims, size_t out) {
    double s = 0.0;
    for (size_t i = 0; i < dims; i++) s += (x[i] - 0.3 + 0.1 * (double) out) * (x[i] - 0.3) * (1.0 + 0.5 * (double) i);
    return std::exp(-s) + 0.25 * std::sin(3.0 * x[0] + (double) out);
}
static const double EPS = 1.0 / 1073741824.0; // 2^-30 per serial number: makes every returned value unique

// the model: x holds n points; writes y; logs (thread, enter, exit, serial, x, y) into the worker's own buffer
static void model_core(const double *x, size_t n, double *y, size_t thread_id) {
    size_t b = thread_id + 1;
    if (b >= g_buf.size()) b = g_buf.size() - 1;
    Buf &B = g_buf[b];
    Rec r;
    r.event = 100; r.id = thread_id; r.n = n;
    r.ticket = tick();
    unsigned long s0 = g_serial.fetch_add((unsigned long) n, std::memory_order_relaxed);
    r.x.assign(x, x + n * g_dims);
    if (g_lat == 1) {
        if (thread_id == 0 || s0 % 7 == 0) std::this_thread::sleep_for(std::chrono::microseconds(1500));
    } else if (g_lat == 2) {
        uint64_t q = rnd(B.rng);
        if ((q & 3) == 0) std::this_thread::sleep_for(std::chrono::microseconds((q >> 8) % 400));
        else if ((q & 3) == 1) std::this_thread::yield();
    }
    if (g_lat == 3) {
        for (size_t i = 0; i < n; i++) {
            if (std::fabs(x[i * g_dims] + 0.5) < 1e-9) std::this_thread::sleep_for(std::chrono::milliseconds(600));
            if (std::fabs(x[i * g_dims] - 1.0) < 1e-9) std::this_thread::sleep_for(std::chrono::milliseconds(120));
        }
    }
    for (size_t i = 0; i < n; i++)
        for (size_t o = 0; o < g_outs; o++) {
            double v = fmodel(x + i * g_dims, g_dims, o);
            if (g_lat == 3) { double t = x[i * g_dims]; v = (std::fabs(t - 0.5) < 1e-9) ? 1000.0 : ((t < 0.0) ? t * t : 0.5 * t * t); }
            y[i * g_outs + o] = v + EPS * (double) (s0 + i);
        }
    r.y.assign(y, y + n * g_outs);
    r.ticket2 = tick();
    r.y.push_back((double) s0); // last entry: first serial number of the call
    B.recs.push_back(std::move(r));
}


// parent-completeness of the loaded point set of a local polynomial grid (classification of a non-interpolating final grid)
template<RuleLocal::erule er>
static int count_missing_parents(const std::vector<double> &lp, size_t dims) {
    std::map<double, int> idx;
    for (int i = 0; i < 8192; i++) idx[RuleLocal::getNode<er>(i)] = i;
    std::set<std::vector<int>> have;
    std::vector<std::vector<int>> mi;
    size_t n = lp.size() / dims;
    for (size_t i = 0; i < n; i++) {
        std::vector<int> p(dims);
        for (size_t d = 0; d < dims; d++) { auto it = idx.find(lp[i * dims + d]); p[d] = (it == idx.end()) ? -7 : it->second; }
        have.insert(p); mi.push_back(p);
    }
    int missing = 0;
    for (auto &p : mi) {
        bool bad = false;
        for (size_t d = 0; d < dims && !bad; d++) {
            if (p[d] < 0) continue;
            int pars[2] = {RuleLocal::getParent<er>(p[d]), RuleLocal::getStepParent<er>(p[d])};
            for (int par : pars) {
                if (par < 0) continue;
                std::vector<int> q = p; q[d] = par;
                if (!have.count(q)) bad = true;
            }
        }
        if (bad) missing++;
    }
    return missing;
}

static std::map<std::string, std::string> parse_args(int argc, char **argv) {
    std::map<std::string, std::string> m;
    for (int i = 1; i < argc; i++) {
        std::string a(argv[i]);
        size_t k = a.find('=');
        if (k != std::string::npos) m[a.substr(0, k)] = a.substr(k + 1);
    }
    return m;
}
static long geti(std::map<std::string, std::string> &m, const char *k, long d) { return m.count(k) ? std::atol(m[k].c_str()) : d; }
static double getd(std::map<std::string, std::string> &m, const char *k, double d) { return m.count(k) ? std::atof(m[k].c_str()) : d; }
static std::string gets(std::map<std::string, std::string> &m, const char *k, const char *d) { return m.count(k) ? m[k] : std::string(d); }

static std::map<std::vector<double>, int> g_pid;
static std::vector<std::vector<double>> g_points;
static int pid_of(const double *x) {
    std::vector<double> p(x, x + g_dims);
    for (auto &v : p) if (v == 0.0) v = 0.0; // -0 -> +0
    auto it = g_pid.find(p);
    if (it != g_pid.end()) return it->second;
    int id = (int) g_points.size() + 1;
    g_pid[p] = id;
    g_points.push_back(p);
    return id;
}

int main(int argc, char **argv) {
    auto a = parse_args(argc, argv);
    std::string mode = gets(a, "mode", "cs"), gtype = gets(a, "grid", "localp"), cand = gets(a, "cand", "surplus"), crit = gets(a, "crit", "classic");
    int dims = (int) geti(a, "dims", 2), outs = (int) geti(a, "outs", 1), depth = (int) geti(a, "depth", 2), order = (int) geti(a, "order", 1);
    size_t jobs = (size_t) geti(a, "jobs", 2), batch = (size_t) geti(a, "batch", 1);
    long budget_l = geti(a, "budget", 50);
    size_t budget = (budget_l < 0) ? std::numeric_limits<size_t>::max() : (size_t) budget_l;
    double tol = getd(a, "tol", 1e-3);
    int limit = (int) geti(a, "limit", -1), guess = (int) geti(a, "guess", 0), preload = (int) geti(a, "preload", 0);
    int overwrite = (int) geti(a, "overwrite", 0), vecmodel = (int) geti(a, "vecmodel", 0);
    uint64_t seed = (uint64_t) geti(a, "seed", 1);
    g_lat = (int) geti(a, "lat", 0);
    g_yield = (int) geti(a, "yield", 0);
    g_dims = (size_t) dims; g_outs = (size_t) outs;

    printf("CFG");
    for (auto &kv : a) printf(" %s=%s", kv.first.c_str(), kv.second.c_str());
    printf("\n");
#ifdef TASMANIAN_VERIF_HOOK_SINK
    printf("HOOKS 1\n");
    VerifHooks::eventSink() = sink;
#else
    printf("HOOKS 0\n");
#endif

    size_t nthreads = std::max(jobs, size_t(1));
    g_buf.resize(nthreads + 2);
    for (size_t i = 0; i < g_buf.size(); i++) { g_buf[i].rng = 0x9E3779B97F4A7C15ull * (seed * 131 + i + 1) | 1; g_buf[i].recs.reserve(4096); }

    TasmanianSparseGrid grid;
    TypeOneDRule rule = rule_localp;
    if (gtype == "semilocalp") rule = rule_semilocalp;
    if (gtype == "localp0") rule = rule_localp0;
    if (gtype == "sequence") grid = makeSequenceGrid(dims, outs, depth, type_iptotal, rule_leja);
    else if (gtype == "global") grid = makeGlobalGrid(dims, outs, depth, type_iptotal, rule_clenshawcurtis);
    else grid = makeLocalPolynomialGrid(dims, outs, depth, order, rule);
    std::vector<int> limits;
    if (limit >= 0) limits.assign((size_t) dims, limit);

    TypeRefinement tcrit = refine_classic;
    if (crit == "parents") tcrit = refine_parents_first;
    if (crit == "direction") tcrit = refine_direction_selective;
    if (crit == "fds") tcrit = refine_fds;
    if (crit == "stable") tcrit = refine_stable;

    std::string result = "ok";
    std::vector<std::pair<int, std::vector<double>>> init_loaded;
    std::vector<double> lnv_points;
    try {
        if (preload && mode != "lnv") { // values of the initial points computed directly (no callback, no log)
            auto pts = grid.getNeededPoints();
            size_t n = (size_t) grid.getNumNeeded();
            std::vector<double> vals(n * (size_t) outs);
            for (size_t i = 0; i < n; i++) {
                for (int o = 0; o < outs; o++) vals[i * outs + o] = fmodel(&pts[i * dims], (size_t) dims, (size_t) o);
                init_loaded.push_back(std::make_pair(pid_of(&pts[i * dims]), std::vector<double>(&vals[i * outs], &vals[i * outs] + outs)));
            }
            grid.loadNeededValues(vals);
        }
        ModelSignature model = [&](std::vector<double> const &x, std::vector<double> &y, size_t tid) -> void {
            size_t n = x.size() / (size_t) dims;
            // documented contract: without an initial guess y arrives with the correct size (num_outputs x number of samples); the model relies on it and
            // only records a buffer of another size (the values are still written into a buffer that is large enough)
            if (!guess && y.size() != n * (size_t) outs) {
                std::lock_guard<std::mutex> lk(g_ysize_mx);
                if (g_ysize_bad++ == 0) { g_ysize_first[0] = n; g_ysize_first[1] = y.size(); }
            }
            if (guess || y.size() < n * (size_t) outs) y.resize(n * (size_t) outs);
            model_core(x.data(), n, y.data(), tid);
        };
        if (mode == "cs") {
            std::function<std::vector<double>(TasmanianSparseGrid &)> candidates = [&](TasmanianSparseGrid &g) -> std::vector<double> {
                std::vector<double> c = (cand == "aniso") ? g.getCandidateConstructionPoints(type_iptotal, 0, limits)
                                                          : g.getCandidateConstructionPoints(tol, tcrit, 0, limits);
                Rec r;
                r.ticket = tick(); r.ticket2 = 0; r.event = 101; r.id = 0; r.n = c.size() / (size_t) dims; r.x = c;
                g_buf[0].recs.push_back(std::move(r));
                return c;
            };
            if (guess) constructCommon<mode_parallel, with_initial_guess>(model, budget, jobs, batch, grid, candidates, std::string());
            else constructCommon<mode_parallel, no_initial_guess>(model, budget, jobs, batch, grid, candidates, std::string());
        } else if (mode == "api") {
            if (cand == "aniso") {
                if (guess) constructSurrogate<mode_parallel, with_initial_guess>(model, budget, jobs, batch, grid, type_iptotal, 0, limits);
                else constructSurrogate<mode_parallel, no_initial_guess>(model, budget, jobs, batch, grid, type_iptotal, 0, limits);
            } else {
                if (guess) constructSurrogate<mode_parallel, with_initial_guess>(model, budget, jobs, batch, grid, tol, tcrit, 0, limits);
                else constructSurrogate<mode_parallel, no_initial_guess>(model, budget, jobs, batch, grid, tol, tcrit, 0, limits);
            }
        } else if (mode == "lnv") {
            if (overwrite) { // needs loaded points: load zeros first
                grid.loadNeededValues(std::vector<double>((size_t) grid.getNumNeeded() * (size_t) outs, -1.0));
                lnv_points = grid.getLoadedPoints();
            } else lnv_points = grid.getNeededPoints();
            auto amodel = [&](double const x[], double y[], size_t tid) -> void { model_core(x, 1, y, tid); };
            if (vecmodel) {
                if (overwrite) loadNeededValues<true, true>(model, grid, jobs); else loadNeededValues<true, false>(model, grid, jobs);
            } else {
                if (overwrite) loadNeededValues<true, true>(amodel, grid, jobs); else loadNeededValues<true, false>(amodel, grid, jobs);
            }
        } else if (mode == "seq") {
            grid.beginConstruction();
            std::string sq = gets(a, "seq", "");
            std::replace(sq.begin(), sq.end(), ';', ' ');
            std::istringstream is(sq);
            std::string tok;
            while (is >> tok) {
                std::replace(tok.begin(), tok.end(), ',', ' ');
                std::istringstream ps(tok);
                std::vector<double> x; double c;
                while (ps >> c) x.push_back(c);
                if (x.size() != (size_t) dims) throw std::runtime_error("seq: wrong point size");
                std::vector<double> y((size_t) outs);
                model_core(x.data(), 1, y.data(), 0);
                grid.loadConstructedPoints(x, y);
            }
        } else throw std::runtime_error("unknown mode");
    } catch (std::exception &e) {
        result = std::string("exception ") + e.what();
    }

    // ---------------- single-threaded from here: merge the buffers, map points to ids, print ----------------
    std::vector<const Rec *> all;
    for (auto &B : g_buf) for (auto &r : B.recs) all.push_back(&r);
    std::sort(all.begin(), all.end(), [](const Rec *p, const Rec *q) { return p->ticket < q->ticket; });
    // value ids: serial numbers of the model's returned values (first output), looked up by bit pattern
    std::map<uint64_t, unsigned long> vserial;
    auto bitsof = [](double v) -> uint64_t { uint64_t u; std::memcpy(&u, &v, 8); return u; };
    for (const Rec *r : all) if (r->event == 100) {
        unsigned long s0 = (unsigned long) r->y.back();
        for (size_t i = 0; i < r->n; i++) vserial[bitsof(r->y[i * g_outs])] = s0 + i;
    }
    char tmp[64];
    std::ostringstream tr; // CALL lines (black-box log)
    for (const Rec *r : all) {
        if (r->event != 100) continue;
        unsigned long s0 = (unsigned long) r->y.back();
        tr << "CALL " << r->id << " " << r->ticket << " " << r->ticket2 << " " << s0 << " " << r->n;
        for (size_t i = 0; i < r->n; i++) tr << " " << pid_of(&r->x[i * g_dims]);
        tr << " |";
        for (size_t i = 0; i + 1 < r->y.size(); i++) { snprintf(tmp, sizeof tmp, " %a", r->y[i]); tr << tmp; }
        tr << "\n";
    }
    // protocol trace: a model call contributes two events (enter, exit) that are merged by their own tickets
    struct Line { unsigned long t; std::string s; };
    std::vector<Line> lines;
    for (const Rec *r : all) {
        std::ostringstream o;
        if (r->event == 100) {
            unsigned long s0 = (unsigned long) r->y.back();
            o << "T " << r->ticket << " " << (r->id + 1) << " model_enter " << r->id << " " << r->n << " |";
            for (size_t i = 0; i < r->n; i++) o << " " << pid_of(&r->x[i * g_dims]);
            o << " |";
            lines.push_back({r->ticket, o.str()});
            std::ostringstream o2;
            o2 << "T " << r->ticket2 << " " << (r->id + 1) << " model_exit " << r->id << " " << r->n << " |";
            for (size_t i = 0; i < r->n; i++) o2 << " " << pid_of(&r->x[i * g_dims]);
            o2 << " |";
            for (size_t i = 0; i < r->n; i++) o2 << " " << (s0 + i);
            lines.push_back({r->ticket2, o2.str()});
        } else {
            size_t np = r->x.size() / g_dims;
            size_t b = (r->event < 20 || r->event == 101) ? 0 : r->id + 1;
            o << "T " << r->ticket << " " << b << " " << evname(r->event) << " " << r->id << " " << (r->x.empty() ? r->n : np) << " |";
            for (size_t i = 0; i < np; i++) o << " " << pid_of(&r->x[i * g_dims]);
            o << " |";
            if (r->event == 5) { // collect: value ids of y (first output of each point); 0 = not a value returned by the model
                for (size_t i = 0; i < np && i * g_outs < r->y.size(); i++) {
                    auto it = vserial.find(bitsof(r->y[i * g_outs]));
                    o << " " << (it == vserial.end() ? 0ul : it->second);
                }
            } else if (r->event == 31 && !r->y.empty()) o << " " << (unsigned long) r->y[0];
            lines.push_back({r->ticket, o.str()});
        }
    }
    std::sort(lines.begin(), lines.end(), [](const Line &p, const Line &q) { return p.t < q.t; });

    // final grid
    std::ostringstream fin;
    size_t nloaded = (size_t) grid.getNumLoaded();
    if (nloaded > 0) {
        auto lp = grid.getLoadedPoints();
        std::vector<double> ev;
        grid.evaluateBatch(lp, ev);
        const double *lv = grid.getLoadedValues();
        for (size_t i = 0; i < nloaded; i++) {
            fin << "LP " << pid_of(&lp[i * g_dims]);
            for (size_t o = 0; o < g_outs; o++) { snprintf(tmp, sizeof tmp, " %a", ev[i * g_outs + o]); fin << tmp; }
            fin << " |";
            for (size_t o = 0; o < g_outs; o++) { snprintf(tmp, sizeof tmp, " %a", lv[i * g_outs + o]); fin << tmp; }
            fin << "\n";
        }
        int missing = 0;
        if (grid.isLocalPolynomial()) {
            if (gtype == "semilocalp") missing = count_missing_parents<RuleLocal::erule::semilocalp>(lp, g_dims);
            else if (gtype == "localp0") missing = count_missing_parents<RuleLocal::erule::localp0>(lp, g_dims);
            else missing = count_missing_parents<RuleLocal::erule::localp>(lp, g_dims);
        }
        fin << "COMPLETE " << (missing == 0 ? 1 : 0) << " " << missing << "\n";
    }
    if (mode == "lnv") { // the points whose values were requested, in the library's order
        fin << "LNV " << lnv_points.size() / g_dims;
        for (size_t i = 0; i < lnv_points.size() / g_dims; i++) fin << " " << pid_of(&lnv_points[i * g_dims]);
        fin << "\n";
    }
    for (size_t i = 0; i < g_points.size(); i++) {
        printf("P %zu", i + 1);
        for (double v : g_points[i]) printf(" %a", v);
        printf("\n");
    }
    printf("INIT %zu", init_loaded.size());
    for (auto &il : init_loaded) printf(" %d", il.first);
    printf("\n");
    for (auto &il : init_loaded) { printf("IV %d", il.first); for (double v : il.second) printf(" %a", v); printf("\n"); }
    fputs(tr.str().c_str(), stdout);
    for (auto &l : lines) printf("%s\n", l.s.c_str());
    printf("YSIZE %zu %zu %zu\n", g_ysize_bad, g_ysize_first[0], g_ysize_first[1]);
    printf("FINAL loaded %zu needed %d construction %d\n", nloaded, grid.getNumNeeded(), grid.isUsingConstruction() ? 1 : 0);
    fputs(fin.str().c_str(), stdout);
    printf("RESULT %s\n", result.c_str());
    return 0;
}
