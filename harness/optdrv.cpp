// optdrv: runs TasOptimization::GradientDescent (C19) and ParticleSwarm (C20) on scripted cases and logs
// every callback invocation with exact (hex) doubles.  Input: case file (argv[1]); output: stdout.
//
// case grammar (one token list per line):
//   case <id>
//   gd   <dims> <objective> <proj> <maxit> <inc> <dec> <tol> <step0> x: <x...> coef: <c...>
//   gdc  <dims> <objective> <maxit> <tol> <step> x: <x...> coef: <c...>
//   (swarm cases: see the comment in the swarm branch of main)
// objectives: quad quartic rosen trig badgrad (swarm cases also: step const l1); projections: none box ball
#include <cstdio>
#include <cstdlib>
#include <cstring>
#include <cmath>
#include <string>
#include <vector>
#include <sstream>
#include <fstream>
#include <iostream>
#include <functional>
#include <stdexcept>
#include <random>
#include <memory>
#include <map>
#include <set>
#include <list>
#include <forward_list>
#include <numeric>
#include <algorithm>
#include <complex>
#include <array>
#include <cassert>
#include <cstdint>
#include <iomanip>
#include <limits>
#include <type_traits>
#include <utility>
#include <mutex>
#include <thread>
#include <condition_variable>
#include <chrono>
#include <ctime>
// white-box access to the cached fields of ParticleSwarmState (read-only use)
#define private public
#include "TasmanianOptimization.hpp"
#undef private

using namespace TasOptimization;

static void pv(const char *tag, const std::vector<double> &a, const std::vector<double> &b) {
    printf("%s", tag);
    for (double v : a) printf(" %a", v);
    printf(" =");
    for (double v : b) printf(" %a", v);
    printf("\n");
}
static void pv1(const char *tag, const std::vector<double> &a) {
    printf("%s", tag);
    for (double v : a) printf(" %a", v);
    printf("\n");
}

struct Objective {
    std::string kind; std::vector<double> c; int d;
    // value
    double f(const std::vector<double> &x) const {
        double acc = 0.0;
        if (kind == "quad" || kind == "badgrad") { // sum a_i x_i^2 + b_i x_i + c x0 x1
            for (int i = 0; i < d; i++) { acc += c[i] * x[i] * x[i]; acc += c[d + i] * x[i]; }
            if (d >= 2) acc += c[2 * d] * x[0] * x[1];
        } else if (kind == "quartic") { // a_i x_i^2 + q x_i^4 (a_i may be negative)
            for (int i = 0; i < d; i++) { acc += c[i] * x[i] * x[i]; acc += c[2 * d] * x[i] * x[i] * x[i] * x[i]; acc += c[d + i] * x[i]; }
        } else if (kind == "rosen") {
            for (int i = 0; i + 1 < d; i++) { double t = x[i + 1] - x[i] * x[i]; double u = 1.0 - x[i]; acc += c[0] * t * t + u * u; }
            if (d == 1) acc = (x[0] - c[0]) * (x[0] - c[0]);
        } else if (kind == "trig") {
            for (int i = 0; i < d; i++) acc += c[i] * std::cos(x[i] * c[d + i]) + 0.1 * x[i] * x[i];
        }
        return acc;
    }
    void g(const std::vector<double> &x, std::vector<double> &out) const {
        if (kind == "quad" || kind == "badgrad") {
            for (int i = 0; i < d; i++) out[i] = 2.0 * c[i] * x[i] + c[d + i];
            if (d >= 2) { out[0] += c[2 * d] * x[1]; out[1] += c[2 * d] * x[0]; }
            if (kind == "badgrad") for (int i = 0; i < d; i++) out[i] *= (i % 2 == 0) ? 1.75 : 0.5; // deliberately inexact gradient
        } else if (kind == "quartic") {
            for (int i = 0; i < d; i++) out[i] = 2.0 * c[i] * x[i] + 4.0 * c[2 * d] * x[i] * x[i] * x[i] + c[d + i];
        } else if (kind == "rosen") {
            for (int i = 0; i < d; i++) out[i] = 0.0;
            for (int i = 0; i + 1 < d; i++) { double t = x[i + 1] - x[i] * x[i];
                out[i] += -4.0 * c[0] * t * x[i] - 2.0 * (1.0 - x[i]); out[i + 1] += 2.0 * c[0] * t; }
            if (d == 1) out[0] = 2.0 * (x[0] - c[0]);
        } else if (kind == "trig") {
            for (int i = 0; i < d; i++) out[i] = -c[i] * c[d + i] * std::sin(x[i] * c[d + i]) + 0.2 * x[i];
        }
    }
};

static void project(const std::string &kind, const std::vector<double> &pc, const std::vector<double> &x, std::vector<double> &p) {
    if (kind == "none") { p = x; return; }
    if (kind == "box") { for (size_t i = 0; i < x.size(); i++) p[i] = std::min(std::max(x[i], pc[0]), pc[1]); return; }
    if (kind == "ball") { double n = 0; for (double v : x) n += v * v; n = std::sqrt(n);
        if (n <= pc[0]) { p = x; } else { for (size_t i = 0; i < x.size(); i++) p[i] = x[i] * pc[0] / n; } return; }
}

static std::vector<double> readv(std::istringstream &ss, const std::string &stop) {
    std::vector<double> v; std::string t;
    while (ss >> t) { if (t == stop) break; v.push_back(strtod(t.c_str(), nullptr)); }
    return v;
}

// ---------------------------------------------------------------- particle swarm
struct Domain { std::string kind; std::vector<double> c;
    bool inside(const double *x, int d) const {
        if (kind == "all") return true;
        if (kind == "none") return false;
        if (kind == "box") { for (int i = 0; i < d; i++) if (x[i] < c[0] || x[i] > c[1]) return false; return true; }
        if (kind == "halfspace") { return x[0] >= c[0]; }
        if (kind == "shell") { double n = 0; for (int i = 0; i < d; i++) n += x[i] * x[i]; return n >= c[0] * c[0] && n <= c[1] * c[1]; }
        return true; }
};
// objective families for the swarm cases: the gd families plus plateau-valued ones (exact ties between particles)
//   step : sum_i floor(|x_i - c_i| * c_d)      const : c_0      l1 : sum_i |x_i - c_i|
static double swarm_objective(const Objective &ob, const std::vector<double> &x) {
    if (ob.kind == "step") { double a = 0.0; for (int i = 0; i < ob.d; i++) a += std::floor(std::fabs(x[i] - ob.c[i]) * ob.c[ob.d]); return a; }
    if (ob.kind == "const") return ob.c[0];
    if (ob.kind == "l1") { double a = 0.0; for (int i = 0; i < ob.d; i++) a += std::fabs(x[i] - ob.c[i]); return a; }
    return ob.f(x);
}

int main(int argc, char **argv) {
    if (argc < 2) { fprintf(stderr, "usage: optdrv cases\n"); return 2; }
    std::ifstream in(argv[1]);
    std::string line; std::string id;
    while (std::getline(in, line)) {
        std::istringstream ss(line); std::string cmd; ss >> cmd;
        if (cmd == "case") { ss >> id; printf("case %s\n", id.c_str()); }
        else if (cmd == "gd" || cmd == "gdc") {
            printf("params %s\n", line.c_str());
            Objective ob; std::string pk; int maxit; double inc = 0, dec = 0, tol, step; std::string t;
            ss >> ob.d >> ob.kind;
            std::vector<double> pc;
            if (cmd == "gd") { ss >> pk; if (pk == "box") { pc.resize(2); ss >> t; pc[0] = strtod(t.c_str(), 0); ss >> t; pc[1] = strtod(t.c_str(), 0); }
                                          if (pk == "ball") { pc.resize(1); ss >> t; pc[0] = strtod(t.c_str(), 0); } }
            ss >> maxit;
            if (cmd == "gd") { ss >> t; inc = strtod(t.c_str(), 0); ss >> t; dec = strtod(t.c_str(), 0); }
            ss >> t; tol = strtod(t.c_str(), 0); ss >> t; step = strtod(t.c_str(), 0);
            ss >> t; // x:
            std::vector<double> x = readv(ss, "coef:");
            ob.c = readv(ss, "#");
            auto F = [&](const std::vector<double> &y) -> double { double v = ob.f(y); pv("F", y, {v}); return v; };
            auto G = [&](const std::vector<double> &y, std::vector<double> &g) -> void { ob.g(y, g); pv("G", y, g); };
            auto P = [&](const std::vector<double> &y, std::vector<double> &p) -> void { project(pk, pc, y, p); pv("P", y, p); };
            try {
                if (cmd == "gd") {
                    GradientDescentState st(x, step);
                    OptimizationStatus s = (pk == "none")
                        ? GradientDescent(F, G, inc, dec, maxit, tol, st)
                        : GradientDescent(F, G, P, inc, dec, maxit, tol, st);
                    printf("result iters %d resid %a step %a x", s.performed_iterations, s.residual, st.getAdaptiveStepsize());
                    for (double v : st.getX()) printf(" %a", v);
                    printf("\n");
                } else {
                    OptimizationStatus s = GradientDescent(G, step, maxit, tol, x);
                    printf("result iters %d resid %a step %a x", s.performed_iterations, s.residual, step);
                    for (double v : x) printf(" %a", v);
                    printf("\n");
                }
            } catch (std::exception &e) { printf("exception %s\n", e.what()); }
            printf("end\n");
        }
        else if (cmd == "swarm") {
            // swarm <dims> <nparticles> <objective> <domain...> coef: <c...>
            // followed by op lines until "endcase" (the state is dumped after EVERY op):
            //   rng <r...>                      set the case-level random stream (read position back to 0); draws past
            //                                   the end of the stream return 0.5
            //   init lo: <lo...> hi: <hi...>    initializeParticlesInsideBox (draws from the case stream)
            //   setpos <x...> | setvel <v...> | setbest <x...>        (vector overloads; wrong sizes throw)
            //   run <iters> <w> <c1> <c2>       ParticleSwarm (draws from the case stream)
            //   clearcache | clearbest | dump
            printf("params %s\n", line.c_str());
            Objective ob; Domain dom; int d, np; std::string t;
            ss >> d >> np >> ob.kind; ob.d = d; ss >> dom.kind;
            if (dom.kind == "box" || dom.kind == "shell") { dom.c.resize(2); ss >> t; dom.c[0] = strtod(t.c_str(), 0); ss >> t; dom.c[1] = strtod(t.c_str(), 0); }
            if (dom.kind == "halfspace") { dom.c.resize(1); ss >> t; dom.c[0] = strtod(t.c_str(), 0); }
            ss >> t; ob.c = readv(ss, "#");
            ParticleSwarmState st(d, np);
            std::vector<double> stream; size_t spos = 0, calls = 0;
            auto rng = [&]() -> double { calls++; double v = (spos < stream.size()) ? stream[spos] : 0.5; spos++; return v; };
            auto dump = [&]() {
                pv1("positions", st.getParticlePositions()); pv1("velocities", st.getParticleVelocities());
                pv1("bestpos", st.getBestParticlePositions()); pv1("bestswarm", st.getBestPosition());
                printf("pinside"); for (bool b : st.cache_particle_inside) printf(" %d", (int) b); printf("\n");
                printf("binside"); for (bool b : st.cache_best_particle_inside) printf(" %d", (int) b); printf("\n");
                pv1("pfvals", st.cache_particle_fvals); pv1("bfvals", st.cache_best_particle_fvals);
                printf("flags %d %d %d %d\n", (int) st.isPositionInitialized(), (int) st.isVelocityInitialized(), (int) st.isBestPositionInitialized(), (int) st.isCacheInitialized());
            };
            while (std::getline(in, line)) {
                std::istringstream os(line); std::string op; os >> op;
                if (op == "endcase") break;
                if (op.empty()) continue;
                printf("op %s\n", line.c_str());
                calls = 0;
                try {
                if (op == "rng") { stream = readv(os, "#"); spos = 0; }
                else if (op == "init") { os >> t; std::vector<double> lo = readv(os, "hi:"); std::vector<double> hi = readv(os, "#");
                    st.initializeParticlesInsideBox(lo, hi, rng);
                    printf("rngcalls %zu\n", calls); }
                else if (op == "setpos") { st.setParticlePositions(readv(os, "#")); }
                else if (op == "setvel") { st.setParticleVelocities(readv(os, "#")); }
                else if (op == "setbest") { st.setBestParticlePositions(readv(os, "#")); }
                else if (op == "clearcache") { st.clearCache(); }
                else if (op == "clearbest") { st.clearBestParticles(); }
                else if (op == "dump") { }
                else if (op == "run") { int iters; os >> iters; os >> t; double w = strtod(t.c_str(), 0); os >> t; double c1 = strtod(t.c_str(), 0);
                    os >> t; double c2 = strtod(t.c_str(), 0);
                    ObjectiveFunction F = [&](const std::vector<double> &xb, std::vector<double> &fv) -> void {
                        size_t n = xb.size() / d; std::vector<double> y(d);
                        printf("Fbatch %zu\n", n);
                        for (size_t i = 0; i < n; i++) { std::copy_n(xb.begin() + i * d, d, y.begin()); fv[i] = swarm_objective(ob, y); pv("F", y, {fv[i]}); } };
                    TasDREAM::DreamDomain I = [&](const std::vector<double> &y) -> bool { bool b = dom.inside(y.data(), d); pv("I", y, {b ? 1.0 : 0.0}); return b; };
                    try { ParticleSwarm(F, I, w, c1, c2, iters, st, rng); }
                    catch (std::exception &e) { printf("rngcalls %zu\n", calls); throw; }
                    printf("rngcalls %zu\n", calls); }
                else { printf("exception unknown-op\n"); }
                } catch (std::exception &e) { printf("exception %s\n", e.what()); }
                dump();
                printf("endop\n");
            }
            printf("end\n");
        }
    }
    return 0;
}
