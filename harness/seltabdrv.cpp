// seltabdrv: tensor selection with the integer depth types and the declared polynomial space (C08 tables, ties of C02/C03).
// White-box, read-only.  Input: case file (argv[1]); one result line per case on stdout.
//   sel <id> global|sequence|fourier <rule> <type> <d> <depth> maxpts: <n> maxpoly: <n> w: i.. ll: i..
// Output:
//   r <id> sel: i..   tensor set returned by GridGlobal::selectTensors / GridFourier::selectTensors (private members, called with the
//                     arguments makeGlobalGrid / makeFourierGrid pass) - always
//          grid: 0|1  1 when the grid itself was constructed through TasmanianSparseGrid::make<Family>Grid (estimated number of
//                     points <= maxpts); then  gtens: the `tensors` member (Global, Fourier) / the point set (Sequence),
//                     act: the `active_tensors` member, pi: / pq: getGlobalPolynomialSpace(true) / (false) when the estimated
//                     size is <= maxpoly (npi: / npq: carry the estimate otherwise)
//   x <id> <message>  exception
#include <algorithm>
#include <array>
#include <cassert>
#include <cmath>
#include <complex>
#include <cstdint>
#include <cstdio>
#include <cstdlib>
#include <cstring>
#include <fstream>
#include <functional>
#include <iomanip>
#include <iostream>
#include <limits>
#include <map>
#include <memory>
#include <numeric>
#include <set>
#include <sstream>
#include <stdexcept>
#include <string>
#include <vector>
#define private public
#define protected public
#include "TasmanianSparseGrid.hpp"
#include "tsgIndexManipulator.hpp"
#undef private
#undef protected

using namespace TasGrid;

static std::vector<std::string> toks(const std::string &line) { std::vector<std::string> t; std::istringstream ss(line); std::string s; while (ss >> s) t.push_back(s); return t; }
static std::map<std::string, std::vector<std::string>> keyed(const std::vector<std::string> &t, size_t from) {
    std::map<std::string, std::vector<std::string>> m; std::string k;
    for (size_t i = from; i < t.size(); i++) { if (!t[i].empty() && t[i].back() == ':') { k = t[i]; m[k]; } else if (!k.empty()) m[k].push_back(t[i]); }
    return m; }
static std::vector<int> ints(const std::vector<std::string> &v) { std::vector<int> r; for (auto &s : v) r.push_back(atoi(s.c_str())); return r; }

static std::string out; // the result line of the current case: printed only when the case completes without an exception
static void put(const char *key, const std::vector<int> &s) { out += " "; out += key; for (int v : s) { out += " "; out += std::to_string(v); } }
static void put(const char *key, const MultiIndexSet &s) { put(key, s.indexes); }

// upper estimate of sum over the set of prod f(t_j)
static double estimate(const MultiIndexSet &s, std::function<double(int)> f) {
    double total = 0.0; size_t d = s.getNumDimensions();
    for (int i = 0; i < s.getNumIndexes(); i++) { const int *p = s.getIndex(i); double v = 1.0; for (size_t j = 0; j < d; j++) v *= f(p[j]); total += v; }
    return total;
}

int main(int argc, char **argv) {
    if (argc < 2) return 2;
    std::ifstream in(argv[1]); std::string line;
    AccelerationContext acc;
    while (std::getline(in, line)) {
        auto t = toks(line); if (t.empty() || t[0] != "sel" || t.size() < 7) continue;
        std::string id = t[1], fam = t[2];
        try {
            TypeOneDRule rule = (fam == "fourier") ? rule_fourier : IO::getRuleString(t[3]);
            TypeDepth type = IO::getDepthTypeString(t[4]);
            int d = atoi(t[5].c_str()), depth = atoi(t[6].c_str());
            auto m = keyed(t, 7);
            std::vector<int> w = ints(m["w:"]), ll = ints(m["ll:"]);
            double maxpts = m["maxpts:"].empty() ? 20000.0 : atof(m["maxpts:"][0].c_str());
            double maxpoly = m["maxpoly:"].empty() ? 4000.0 : atof(m["maxpoly:"][0].c_str());
            if (rule == rule_none || type == type_none) { printf("x %s unknown rule or type\n", id.c_str()); continue; }
            double alpha = 0.0, beta = 0.0;
            if (rule == rule_gaussgegenbauer || rule == rule_gaussgegenbauerodd || rule == rule_gausshermite || rule == rule_gausshermiteodd
                || rule == rule_gausslaguerre || rule == rule_gausslaguerreodd) alpha = 0.5;
            if (rule == rule_gaussjacobi || rule == rule_gaussjacobiodd) { alpha = 0.5; beta = 0.25; }
            // number of points of a level as a double; levels whose count is beyond the int range of the library (exponential rules) are "too many"
            bool exponential = OneDimensionalMeta::getNumPoints(16, rule) > 4096;
            // the greedy sequences (leja, max/min-lebesgue, min-delta and their -odd variants) are optimised node by node beyond the
            // stored ones: levels with more than 41 nodes count as "too many" as well
            bool greedy = rule == rule_leja || rule == rule_lejaodd || rule == rule_maxlebesgue || rule == rule_maxlebesgueodd
                          || rule == rule_minlebesgue || rule == rule_minlebesgueodd || rule == rule_mindelta || rule == rule_mindeltaodd;
            auto np = [&](int l) -> double {
                if ((l > 16 && exponential) || l > 2000) return 1e18;
                double n = (double) OneDimensionalMeta::getNumPoints(l, rule);
                return (greedy && n > 41.0) ? 1e18 : n; };
            TasmanianSparseGrid grid;
            bool made = false;
            out = "r " + id;
            if (fam == "global") {
                GridGlobal g0(&acc);
                MultiIndexSet ts = g0.selectTensors((size_t) d, depth, type, w, rule, ll);
                put("sel:", ts);
                if (estimate(ts, np) <= maxpts) {
                    grid.makeGlobalGrid(d, 1, depth, type, rule, w, alpha, beta, nullptr, ll);
                    made = true;
                    put("gtens:", grid.get<GridGlobal>()->tensors);
                    put("act:", grid.get<GridGlobal>()->active_tensors);
                }
            } else if (fam == "fourier") {
                GridFourier g0(&acc);
                MultiIndexSet ts = g0.selectTensors((size_t) d, depth, type, w, ll);
                put("sel:", ts);
                if (estimate(ts, np) <= maxpts) {
                    grid.makeFourierGrid(d, 1, depth, type, w, ll);
                    made = true;
                    put("gtens:", grid.get<GridFourier>()->tensors);
                    put("act:", grid.get<GridFourier>()->active_tensors);
                }
            } else if (fam == "sequence") {
                // makeSequenceSet is local to tsgGridSequence.cpp: the set is read from the constructed grid (the caller bounds its size)
                grid.makeSequenceGrid(d, 0, depth, type, rule, w, ll);
                made = true;
                put("gtens:", grid.get<GridSequence>()->points);
            }
            out += made ? " grid: 1" : " grid: 0";
            if (made && fam != "fourier") {
                const MultiIndexSet &base = (fam == "global") ? grid.get<GridGlobal>()->active_tensors : grid.get<GridSequence>()->points;
                double ei = (fam == "global") ? estimate(base, [&](int l) -> double { return 1.0 + OneDimensionalMeta::getIExact(l, rule); }) : (double) base.getNumIndexes();
                double eq = estimate(base, [&](int l) -> double { return 1.0 + OneDimensionalMeta::getQExact(l, rule); });
                if (ei <= maxpoly) put("pi:", grid.getGlobalPolynomialSpace(true)); else out += " npi: " + std::to_string((long long) ei);
                if (eq <= maxpoly) put("pq:", grid.getGlobalPolynomialSpace(false)); else out += " npq: " + std::to_string((long long) eq);
            }
            printf("%s\n", out.c_str());
        } catch (std::exception &e) { printf("x %s %s\n", id.c_str(), e.what()); }
        fflush(stdout);
    }
    return 0;
}
