/* killshim: LD_PRELOAD fault injector for C17 (checkpoint files of TasGrid::constructSurrogate).
 *
 * Intercepts the libc entry points through which libstdc++'s basic_filebuf reaches the kernel
 * (fopen/fopen64, fclose, write, writev — verified with strace/ltrace, see props/C17.py) and, for
 * completeness, open/open64/openat/creat/close/rename/unlink/pwrite/ftruncate.  Only operations on
 * *tracked* files are counted: a path is tracked when it starts with $KILLSHIM_MATCH (the checkpoint
 * name; "<name>_old" and any "<name>.tmp" a repaired tree might use are therefore tracked too).
 *
 * Every counted operation is appended to $KILLSHIM_LOG as one line
 *      <index> <kind> <path> <nbytes> <detail>
 * written with a raw write(2) on a private descriptor *before* the operation is executed, followed by
 *      <index> done <result>
 * after it returned (close lines carry :r or :w = how the descriptor had been opened).  kinds: openw (open with truncation/creation for writing), opena (append / r+),
 * openr, write, close, rename, unlink, trunc.
 *
 * $KILLSHIM_K = k (1-based, 0 = never) selects the operation at which the process dies,
 * $KILLSHIM_WHEN = before | after | tear:<n>   (tear: the k-th operation must be a write; only its first
 *                  n bytes reach the file (n is clamped to [0,len-1]); for other kinds tear = before).
 * Death = kill(getpid(), SIGKILL): nothing buffered in user space is flushed, exactly like a crash.
 */
#define _GNU_SOURCE
#include <dlfcn.h>
#include <errno.h>
#include <fcntl.h>
#include <signal.h>
#include <stdarg.h>
#include <stdio.h>
#include <stdlib.h>
#include <string.h>
#include <sys/syscall.h>
#include <sys/types.h>
#include <sys/uio.h>
#include <unistd.h>

#define MAXFD 1024
static char *fdpath[MAXFD];
static char fdmode[MAXFD]; /* 'r' read-only, 'w' opened for writing */
static const char *match_prefix;
static long kill_k;
static int kill_when; /* 0 before, 1 after, 2 tear */
static long tear_n;
static long opcount;
static int logfd = -1;
static int inited;

static FILE *(*real_fopen)(const char *, const char *);
static FILE *(*real_fopen64)(const char *, const char *);
static int (*real_fclose)(FILE *);
static ssize_t (*real_write)(int, const void *, size_t);
static ssize_t (*real_writev)(int, const struct iovec *, int);
static ssize_t (*real_pwrite)(int, const void *, size_t, off_t);
static int (*real_close)(int);
static int (*real_rename)(const char *, const char *);
static int (*real_unlink)(const char *);
static int (*real_ftruncate)(int, off_t);

static void init(void) {
    if (inited) return;
    inited = 1;
    real_fopen = dlsym(RTLD_NEXT, "fopen");
    real_fopen64 = dlsym(RTLD_NEXT, "fopen64");
    real_fclose = dlsym(RTLD_NEXT, "fclose");
    real_write = dlsym(RTLD_NEXT, "write");
    real_writev = dlsym(RTLD_NEXT, "writev");
    real_pwrite = dlsym(RTLD_NEXT, "pwrite");
    real_close = dlsym(RTLD_NEXT, "close");
    real_rename = dlsym(RTLD_NEXT, "rename");
    real_unlink = dlsym(RTLD_NEXT, "unlink");
    real_ftruncate = dlsym(RTLD_NEXT, "ftruncate");
    match_prefix = getenv("KILLSHIM_MATCH");
    const char *k = getenv("KILLSHIM_K");
    kill_k = k ? atol(k) : 0;
    const char *w = getenv("KILLSHIM_WHEN");
    kill_when = 0;
    if (w && strcmp(w, "after") == 0) kill_when = 1;
    if (w && strncmp(w, "tear:", 5) == 0) { kill_when = 2; tear_n = atol(w + 5); }
    const char *lp = getenv("KILLSHIM_LOG");
    if (lp) logfd = (int) syscall(SYS_openat, AT_FDCWD, lp, O_WRONLY | O_CREAT | O_APPEND, 0644);
}

static int tracked_path(const char *p) {
    return match_prefix && p && strncmp(p, match_prefix, strlen(match_prefix)) == 0;
}
static const char *tracked_fd(int fd) {
    return (fd >= 0 && fd < MAXFD) ? fdpath[fd] : NULL;
}
static void logline(const char *fmt, ...) {
    if (logfd < 0) return;
    char buf[4400];
    va_list ap;
    va_start(ap, fmt);
    int n = vsnprintf(buf, sizeof buf, fmt, ap);
    va_end(ap);
    if (n > (int) sizeof buf - 1) n = sizeof buf - 1;
    syscall(SYS_write, logfd, buf, (size_t) n);
}
static void die(void) {
    logline("%ld killed\n", opcount);
    syscall(SYS_kill, (pid_t) syscall(SYS_getpid), SIGKILL);
    for (;;) syscall(SYS_exit_group, 137);
}
/* called before a counted operation; returns 1 when the operation must be torn (writes only) */
static int before_op(const char *kind, const char *path, long nbytes, const char *detail) {
    opcount++;
    logline("%ld %s %s %ld %s\n", opcount, kind, path, nbytes, detail);
    if (kill_k && opcount == kill_k) {
        if (kill_when == 0) die();
        if (kill_when == 2) {
            if (strcmp(kind, "write") != 0) die();
            return 1;
        }
    }
    return 0;
}
static void after_op(long result) {
    logline("%ld done %ld\n", opcount, result);
    if (kill_k && opcount == kill_k && kill_when == 1) die();
}
static void track(int fd, const char *path, const char *kind) {
    if (fd >= 0 && fd < MAXFD) {
        free(fdpath[fd]);
        fdpath[fd] = strdup(path);
        fdmode[fd] = (strcmp(kind, "openr") == 0) ? 'r' : 'w';
    }
}
static void untrack(int fd) {
    if (fd >= 0 && fd < MAXFD && fdpath[fd]) {
        free(fdpath[fd]);
        fdpath[fd] = NULL;
    }
}
static const char *mode_kind(const char *mode) {
    if (mode[0] == 'w') return "openw";
    if (mode[0] == 'a') return "opena";
    if (strchr(mode, '+')) return "opena";
    return "openr";
}
static const char *flags_kind(int flags) {
    int acc = flags & O_ACCMODE;
    if (acc == O_RDONLY) return "openr";
    if (flags & O_TRUNC) return "openw";
    return "opena";
}

static FILE *do_fopen(FILE *(*real)(const char *, const char *), const char *path, const char *mode) {
    init();
    if (!tracked_path(path)) return real(path, mode);
    before_op(mode_kind(mode), path, 0, mode);
    FILE *f = real(path, mode);
    if (f) track(fileno(f), path, mode_kind(mode));
    after_op(f ? fileno(f) : -1);
    return f;
}
FILE *fopen(const char *path, const char *mode) { init(); return do_fopen(real_fopen, path, mode); }
FILE *fopen64(const char *path, const char *mode) { init(); return do_fopen(real_fopen64 ? real_fopen64 : real_fopen, path, mode); }

int fclose(FILE *f) {
    init();
    int fd = f ? fileno(f) : -1;
    const char *p = tracked_fd(fd);
    if (!p) return real_fclose(f);
    char path[4096];
    snprintf(path, sizeof path, "%s", p);
    /* stdio may still hold buffered bytes: libstdc++ never writes through the FILE, so this flushes nothing */
    before_op("close", path, 0, fdmode[fd] == 'r' ? "fclose:r" : "fclose:w");
    untrack(fd);
    int r = real_fclose(f);
    after_op(r);
    return r;
}

static int do_open(const char *name, int dirfd, const char *path, int flags, mode_t mode, int use_at) {
    init();
    int tr = tracked_path(path);
    if (tr) {
        char d[32];
        snprintf(d, sizeof d, "%s:0x%x", name, flags);
        before_op(flags_kind(flags), path, 0, d);
    }
    int fd = (int) syscall(SYS_openat, use_at ? dirfd : AT_FDCWD, path, flags, mode);
    if (tr) {
        if (fd >= 0) track(fd, path, flags_kind(flags));
        after_op(fd);
    }
    return fd;
}
int open(const char *path, int flags, ...) {
    mode_t mode = 0;
    if (flags & (O_CREAT | O_TMPFILE)) { va_list ap; va_start(ap, flags); mode = va_arg(ap, mode_t); va_end(ap); }
    return do_open("open", AT_FDCWD, path, flags, mode, 0);
}
int open64(const char *path, int flags, ...) {
    mode_t mode = 0;
    if (flags & (O_CREAT | O_TMPFILE)) { va_list ap; va_start(ap, flags); mode = va_arg(ap, mode_t); va_end(ap); }
    return do_open("open64", AT_FDCWD, path, flags | O_LARGEFILE, mode, 0);
}
int openat(int dirfd, const char *path, int flags, ...) {
    mode_t mode = 0;
    if (flags & (O_CREAT | O_TMPFILE)) { va_list ap; va_start(ap, flags); mode = va_arg(ap, mode_t); va_end(ap); }
    return do_open("openat", dirfd, path, flags, mode, 1);
}
int openat64(int dirfd, const char *path, int flags, ...) {
    mode_t mode = 0;
    if (flags & (O_CREAT | O_TMPFILE)) { va_list ap; va_start(ap, flags); mode = va_arg(ap, mode_t); va_end(ap); }
    return do_open("openat64", dirfd, path, flags | O_LARGEFILE, mode, 1);
}
int creat(const char *path, mode_t mode) { return do_open("creat", AT_FDCWD, path, O_CREAT | O_WRONLY | O_TRUNC, mode, 0); }

int close(int fd) {
    init();
    const char *p = tracked_fd(fd);
    if (!p) return real_close(fd);
    char path[4096];
    snprintf(path, sizeof path, "%s", p);
    before_op("close", path, 0, fdmode[fd] == 'r' ? "close:r" : "close:w");
    untrack(fd);
    int r = real_close(fd);
    after_op(r);
    return r;
}

ssize_t write(int fd, const void *buf, size_t n) {
    init();
    const char *p = tracked_fd(fd);
    if (!p) return real_write(fd, buf, n);
    int tear = before_op("write", p, (long) n, "write");
    if (tear) {
        size_t m = (size_t) (tear_n < 0 ? 0 : tear_n);
        if (n == 0) m = 0; else if (m > n - 1) m = n - 1;
        if (m) real_write(fd, buf, m);
        logline("%ld torn %ld\n", opcount, (long) m);
        die();
    }
    ssize_t r = real_write(fd, buf, n);
    after_op((long) r);
    return r;
}
ssize_t writev(int fd, const struct iovec *iov, int cnt) {
    init();
    const char *p = tracked_fd(fd);
    if (!p) return real_writev(fd, iov, cnt);
    size_t n = 0;
    for (int i = 0; i < cnt; i++) n += iov[i].iov_len;
    int tear = before_op("write", p, (long) n, "writev");
    if (tear) {
        size_t m = (size_t) (tear_n < 0 ? 0 : tear_n);
        if (n == 0) m = 0; else if (m > n - 1) m = n - 1;
        size_t m0 = m;
        for (int i = 0; i < cnt && m > 0; i++) {
            size_t c = iov[i].iov_len < m ? iov[i].iov_len : m;
            real_write(fd, iov[i].iov_base, c);
            m -= c;
        }
        logline("%ld torn %ld\n", opcount, (long) m0);
        die();
    }
    ssize_t r = real_writev(fd, iov, cnt);
    after_op((long) r);
    return r;
}
ssize_t pwrite(int fd, const void *buf, size_t n, off_t off) {
    init();
    const char *p = tracked_fd(fd);
    if (!p) return real_pwrite(fd, buf, n, off);
    before_op("pwrite", p, (long) n, "pwrite");
    ssize_t r = real_pwrite(fd, buf, n, off);
    after_op((long) r);
    return r;
}
int rename(const char *a, const char *b) {
    init();
    if (!tracked_path(a) && !tracked_path(b)) return real_rename(a, b);
    before_op("rename", a, 0, b);
    int r = real_rename(a, b);
    after_op(r);
    return r;
}
int unlink(const char *a) {
    init();
    if (!tracked_path(a)) return real_unlink(a);
    before_op("unlink", a, 0, "unlink");
    int r = real_unlink(a);
    after_op(r);
    return r;
}
int ftruncate(int fd, off_t len) {
    init();
    const char *p = tracked_fd(fd);
    if (!p) return real_ftruncate(fd, len);
    before_op("trunc", p, (long) len, "ftruncate");
    int r = real_ftruncate(fd, len);
    after_op(r);
    return r;
}
