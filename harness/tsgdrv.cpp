// tsgdrv: script interpreter over the public TasmanianSparseGrid API (all 5 grid families).
// Input: script file (argv[1]); output: stdout, one line per observation.
//
//   case <id>                        start a case: all grid slots are reset
//   make global   <s> <dims> <outs> <depth> <type> <rule> [aw: i..] [ab: alpha beta] [ll: i..]
//   make sequence <s> <dims> <outs> <depth> <type> <rule> [aw: i..] [ll: i..]
//   make localp   <s> <dims> <outs> <depth> <order> <rule> [ll: i..]
//   make wavelet  <s> <dims> <outs> <depth> <order> [ll: i..]
//   make fourier  <s> <dims> <outs> <depth> <type> [aw: i..] [ll: i..]
//   trans <s> a: a.. b: b..   | cleartrans <s> | conformal <s> t.. | clearconformal <s> | clearlimits <s>
//   load <s> <fn>               values fn(x) at the needed points (all points when nothing is loaded)
//   loadraw <s> v..             explicit values
//   refsurp <s> <tol> <crit> <output> [ll: i..] [scale: ones|half|rand|bad] [ov: vec|raw]
//   refsimple <s> <tol> <output> [ll: i..]                 (global / sequence surplus refinement)
//   refaniso <s> <type> <mingrowth> <output> [ll: i..]
//   update <s> <depth> <type> [aw: i..] [ll: i..]
//   deliverall <s> <fn> <max>   (the first min(max, #candidates) candidates of the last cand call)
//   merge <s> | clearref <s> | setcoef <s> <fn> | remtol <s> <tol> <output> | remcount <s> <n> <output>
//   begin <s> | finish <s>
//   cand <s> aw <type> [aw: i..] [ll: i..] | cand <s> out <type> <output> [ll: i..] | cand <s> surp <tol> <crit> <output> [ll: i..]
//        (the candidate list is remembered in the slot and printed)
//   deliver <s> <fn> idx: i..    loadConstructedPoints with candidates number i.. of the remembered list, values fn(x)
//   deliverx <s> <fn> x: x..     loadConstructedPoints with explicit points, values fn(x)
//   copy <dst> <src> [b e] | assign <dst> <src> | cctor <dst> <src>
//   write <s> ascii|bin file|stream <name>  | read <s> ascii|bin file|stream <name>  | writebytes <s> ascii|bin
//   dump <s> <what..>     what in: meta points needed allpoints pidx nidx values coef qw polyi polyq hsupport hint digest
//   iw <s> x: x..   | dw <s> x: x.. | eval <s> x: X.. | evalb <s> x: X.. | evalf <s> x: x.. | integ <s> | diff <s> x: x..
//   hbasis <s> x: X.. | hsparse <s> x: X..
//   inside <s> x: X..     getDomainInside() on each point
// value functions <fn>: hash | poly | smooth | affine | one | zero | cosk
#include <algorithm>
#include <array>
#include <cassert>
#include <cmath>
#include <complex>
#include <cstdint>
#include <cstdio>
#include <cstdlib>
#include <cstring>
#include <fstream>
#include <functional>
#include <iomanip>
#include <iostream>
#include <limits>
#include <map>
#include <memory>
#include <numeric>
#include <set>
#include <sstream>
#include <stdexcept>
#include <string>
#include <typeinfo>
#include <vector>
#include <unistd.h>
#include <signal.h>
#include <sys/wait.h>
// white-box (read-only) access to the point / needed index sets of every family
#define private public
#define protected public
#include "TasmanianSparseGrid.hpp"
#include "caselimit.hpp"
#undef private
#undef protected

using namespace TasGrid;

static std::map<std::string, TypeOneDRule> RULES = {
    {"clenshaw-curtis", rule_clenshawcurtis}, {"clenshaw-curtis-zero", rule_clenshawcurtis0}, {"chebyshev", rule_chebyshev},
    {"chebyshev-odd", rule_chebyshevodd}, {"gauss-legendre", rule_gausslegendre}, {"gauss-legendre-odd", rule_gausslegendreodd},
    {"gauss-patterson", rule_gausspatterson}, {"leja", rule_leja}, {"leja-odd", rule_lejaodd}, {"rleja", rule_rleja},
    {"rleja-odd", rule_rlejaodd}, {"rleja-double2", rule_rlejadouble2}, {"rleja-double4", rule_rlejadouble4},
    {"rleja-shifted", rule_rlejashifted}, {"rleja-shifted-even", rule_rlejashiftedeven}, {"rleja-shifted-double", rule_rlejashifteddouble},
    {"max-lebesgue", rule_maxlebesgue}, {"max-lebesgue-odd", rule_maxlebesgueodd}, {"min-lebesgue", rule_minlebesgue},
    {"min-lebesgue-odd", rule_minlebesgueodd}, {"min-delta", rule_mindelta}, {"min-delta-odd", rule_mindeltaodd},
    {"gauss-chebyshev1", rule_gausschebyshev1}, {"gauss-chebyshev1-odd", rule_gausschebyshev1odd},
    {"gauss-chebyshev2", rule_gausschebyshev2}, {"gauss-chebyshev2-odd", rule_gausschebyshev2odd}, {"fejer2", rule_fejer2},
    {"gauss-gegenbauer", rule_gaussgegenbauer}, {"gauss-gegenbauer-odd", rule_gaussgegenbauerodd},
    {"gauss-jacobi", rule_gaussjacobi}, {"gauss-jacobi-odd", rule_gaussjacobiodd}, {"gauss-laguerre", rule_gausslaguerre},
    {"gauss-laguerre-odd", rule_gausslaguerreodd}, {"gauss-hermite", rule_gausshermite}, {"gauss-hermite-odd", rule_gausshermiteodd},
    {"custom-tabulated", rule_customtabulated}, {"localp", rule_localp}, {"localp-zero", rule_localp0},
    {"localp-boundary", rule_localpb}, {"semi-localp", rule_semilocalp}, {"wavelet", rule_wavelet}, {"fourier", rule_fourier},
    {"none", rule_none}};
static std::map<std::string, TypeDepth> DEPTHS = {
    {"level", type_level}, {"curved", type_curved}, {"iptotal", type_iptotal}, {"ipcurved", type_ipcurved}, {"qptotal", type_qptotal},
    {"qpcurved", type_qpcurved}, {"hyperbolic", type_hyperbolic}, {"iphyperbolic", type_iphyperbolic}, {"qphyperbolic", type_qphyperbolic},
    {"tensor", type_tensor}, {"iptensor", type_iptensor}, {"qptensor", type_qptensor}, {"none", type_none}};
static std::map<std::string, TypeRefinement> REFS = {
    {"classic", refine_classic}, {"parents", refine_parents_first}, {"direction", refine_direction_selective}, {"fds", refine_fds},
    {"stable", refine_stable}, {"none", refine_none}};

static std::string ruleName(TypeOneDRule r) { for (auto &p : RULES) if (p.second == r) return p.first; return "unknown"; }

static void pd(const char *tag, const double *v, size_t n) { printf("o %s %zu", tag, n); for (size_t i = 0; i < n; i++) printf(" %a", v[i]); printf("\n"); }
static void pd(const char *tag, const std::vector<double> &v) { pd(tag, v.data(), v.size()); }
static void pi(const char *tag, const int *v, size_t n) { printf("o %s %zu", tag, n); for (size_t i = 0; i < n; i++) printf(" %d", v[i]); printf("\n"); }
static void pi(const char *tag, const std::vector<int> &v) { pi(tag, v.data(), v.size()); }

// ---- value functions (deterministic, also re-implemented in tools/gridlib.py) ----
static uint64_t mix(uint64_t h) { h ^= h >> 33; h *= 0xff51afd7ed558ccdULL; h ^= h >> 33; h *= 0xc4ceb9fe1a85ec53ULL; h ^= h >> 33; return h; }
static double fn_value(const std::string &fn, const double *x, int d, int j) {
    if (fn == "zero") return 0.0;
    if (fn == "one") return 1.0 + j;
    if (fn == "hash") { // small dyadic tag of the coordinates (x + 0.0 folds -0.0 into +0.0)
        uint64_t h = 0x9e3779b97f4a7c15ULL + (uint64_t) j;
        for (int i = 0; i < d; i++) { double v = x[i] + 0.0; uint64_t b; memcpy(&b, &v, 8); h = mix(h ^ b); }
        return ((double) (int64_t) (h % 4001) - 2000.0) / 64.0; }
    if (fn == "affine") { double v = 0.5 + j; for (int i = 0; i < d; i++) v += (0.25 * (i + 1) - 0.125 * j) * x[i]; return v; }
    if (fn == "poly") { double v = 1.0 + j; for (int i = 0; i < d; i++) v += (i + 1 + j) * x[i] + 0.5 * x[i] * x[i]; if (d > 1) v += x[0] * x[1]; return v; }
    if (fn == "smooth") { double s = 0, q = 0; for (int i = 0; i < d; i++) { s += x[i]; q += x[i] * x[i]; } return std::exp(-0.5 * q) * std::cos(0.3 * j + 0.7 * s) + 0.1 * j; }
    if (fn == "cosk") { double s = 0; for (int i = 0; i < d; i++) s += (i + 1) * x[i]; return std::cos(6.283185307179586 * s) + j; }
    if (fn == "peak") { double q = 0; for (int i = 0; i < d; i++) q += (x[i] - 0.3) * (x[i] - 0.3); return 1.0 / (0.05 + q) + j; }
    throw std::runtime_error("driver: unknown value function " + fn);
}
static std::vector<double> fn_values(const std::string &fn, const std::vector<double> &pts, int d, int outs) {
    size_t n = (d > 0) ? pts.size() / d : 0; std::vector<double> v(n * (size_t) outs);
    for (size_t p = 0; p < n; p++) for (int j = 0; j < outs; j++) v[p * outs + j] = fn_value(fn, pts.data() + p * d, d, j);
    return v;
}

struct Tok { std::vector<std::string> t; size_t p = 0;
    bool more() const { return p < t.size(); }
    std::string next() { if (p >= t.size()) throw std::runtime_error("driver: missing token"); return t[p++]; }
    int ni() { return atoi(next().c_str()); }
    double nd() { return strtod(next().c_str(), nullptr); }
    bool peek(const std::string &s) const { return p < t.size() && t[p] == s; }
    static bool isKey(const std::string &s) { return !s.empty() && s.back() == ':'; }
    std::vector<int> ints() { std::vector<int> v; while (more() && !isKey(t[p])) v.push_back(ni()); return v; }
    std::vector<double> dbls() { std::vector<double> v; while (more() && !isKey(t[p])) v.push_back(nd()); return v; }
    // optional keyed lists
    std::map<std::string, std::vector<std::string>> keyed() { std::map<std::string, std::vector<std::string>> m; std::string k;
        while (more()) { std::string s = next(); if (isKey(s)) { k = s; m[k]; } else if (!k.empty()) m[k].push_back(s); } return m; }
};
static std::vector<int> toInts(const std::vector<std::string> &v) { std::vector<int> r; for (auto &s : v) r.push_back(atoi(s.c_str())); return r; }
static std::vector<double> toDbls(const std::vector<std::string> &v) { std::vector<double> r; for (auto &s : v) r.push_back(strtod(s.c_str(), nullptr)); return r; }

struct Slot { TasmanianSparseGrid g; std::vector<double> cand; std::vector<double> probe; };
static std::map<std::string, std::unique_ptr<Slot>> slots;
static std::map<std::string, std::string> streams; // named in-memory streams
static std::string workdir = ".";
static Slot &S(const std::string &n) { auto &p = slots[n]; if (!p) p.reset(new Slot()); return *p; }

static std::vector<double> xlist(Slot &s, std::map<std::string, std::vector<std::string>> &m) { auto &v = m["x:"]; if (!v.empty() && v[0] == "@") return s.probe; return toDbls(v); }
static uint64_t dig = 0;
static void dmix(const void *p, size_t n) { const unsigned char *c = (const unsigned char *) p; for (size_t i = 0; i < n; i++) dig = mix(dig ^ c[i]) + 0x9e3779b97f4a7c15ULL; }

static void dump(Slot &s, const std::string &what) {
    TasmanianSparseGrid &g = s.g; int d = g.getNumDimensions(), outs = g.getNumOutputs();
    if (what == "meta") {
        const char *ty = g.isGlobal() ? "global" : g.isSequence() ? "sequence" : g.isLocalPolynomial() ? "localp" : g.isWavelet() ? "wavelet" : g.isFourier() ? "fourier" : "empty";
        printf("o meta type=%s dims=%d outs=%d rule=%s order=%d alpha=%a beta=%a loaded=%d needed=%d points=%d trans=%d conf=%d constr=%d\n",
               ty, d, outs, ruleName(g.getRule()).c_str(), g.getOrder(), g.getAlpha(), g.getBeta(), g.getNumLoaded(), g.getNumNeeded(),
               g.getNumPoints(), (int) g.isSetDomainTransfrom(), (int) g.isSetConformalTransformASIN(), (int) g.isUsingConstruction());
        pi("limits", g.getLevelLimits());
        if (g.isSetDomainTransfrom()) { std::vector<double> a, b; g.getDomainTransform(a, b); pd("ta", a); pd("tb", b); }
        if (g.isSetConformalTransformASIN()) pi("conformal", g.getConformalTransformASIN());
    } else if (g.empty() && (what == "points" || what == "needed" || what == "allpoints" || what == "pidx" || what == "nidx" || what == "apipidx" || what == "apinidx"
                             || what == "values" || what == "coef" || what == "qw" || what == "hsupport" || what == "hint" || what == "polyi" || what == "polyq"
                             || what == "tensors" || what == "utensors")) {
        // an EMPTY grid (e.g. after removePointsByHierarchicalCoefficient removed every point): the point getters dereference the null base
        // object (an observation outside the listed properties); only "meta" is meaningful, everything else is printed as empty
        if (what == "pidx" || what == "nidx" || what == "apipidx" || what == "apinidx" || what == "tensors" || what == "utensors") pi(what.c_str(), std::vector<int>());
        else pd(what.c_str(), std::vector<double>());
    } else if (what == "points") pd("points", g.getLoadedPoints());
    else if (what == "needed") pd("needed", g.getNeededPoints());
    else if (what == "allpoints") pd("allpoints", g.getPoints());
    else if (what == "pidx") { if (g.empty() || g.base->points.empty()) pi("pidx", nullptr, 0); else pi("pidx", g.base->points.indexes); }
    else if (what == "nidx") { if (g.empty() || g.base->needed.empty()) pi("nidx", nullptr, 0); else pi("nidx", g.base->needed.indexes); }
    else if (what == "apipidx") { if (g.empty()) pi("apipidx", nullptr, 0); else pi("apipidx", g.getPointsIndexes(), (size_t) d * g.getNumPoints()); }
    else if (what == "apinidx") { if (g.empty() || g.getNumNeeded() == 0) pi("apinidx", nullptr, 0); else pi("apinidx", g.getNeededIndexes(), (size_t) d * g.getNumNeeded()); }
    else if (what == "values") { const double *v = g.getLoadedValues(); pd("values", v, (v && outs > 0) ? (size_t) outs * g.getNumLoaded() : 0); }
    else if (what == "coef") { const double *c = (g.empty() || outs == 0 || g.getNumLoaded() == 0) ? nullptr : g.getHierarchicalCoefficients();
        size_t n = c ? (size_t) outs * g.getNumLoaded() * (g.isFourier() ? 2 : 1) : 0; pd("coef", c, n); }
    else if (what == "qw") pd("qw", g.getQuadratureWeights());
    else if (what == "polyi") pi("polyi", g.getGlobalPolynomialSpace(true));
    else if (what == "polyq") pi("polyq", g.getGlobalPolynomialSpace(false));
    else if (what == "hsupport") pd("hsupport", g.getHierarchicalSupport());
    else if (what == "hint") pd("hint", g.integrateHierarchicalFunctions());
    else if (what == "tensors") { // white-box: tensor index sets of Global / Fourier grids
        if (g.isGlobal()) { auto *gg = g.get<GridGlobal>(); pi("tensors", gg->tensors.indexes); pi("utensors", gg->updated_tensors.indexes); }
        else if (g.isFourier()) { auto *gf = g.get<GridFourier>(); pi("tensors", gf->tensors.indexes); pi("utensors", gf->updated_tensors.indexes); }
        else { pi("tensors", nullptr, 0); pi("utensors", nullptr, 0); } }
    else if (what == "bytes") { std::ostringstream os; g.write(os, true); std::string b = os.str(); uint64_t old = dig; dig = 0; dmix(b.data(), b.size()); printf("o bytes %zu %016llx\n", b.size(), (unsigned long long) dig); dig = old; }
    else throw std::runtime_error("driver: unknown dump " + what);
}

static void run_line(const std::string &line) {
    Tok k; { std::istringstream ss(line); std::string t; while (ss >> t) k.t.push_back(t); }
    if (k.t.empty() || k.t[0][0] == '#') return;
    std::string cmd = k.next();
    if (cmd == "case") { slots.clear(); streams.clear(); printf("case %s\n", k.next().c_str()); return; }
    printf("c %s\n", line.c_str()); fflush(stdout);
    if (cmd == "make") {
        std::string fam = k.next(); Slot &s = S(k.next()); int d = k.ni(), outs = k.ni(), depth = k.ni();
        if (fam == "global" || fam == "sequence") { TypeDepth ty = DEPTHS.at(k.next()); TypeOneDRule r = RULES.at(k.next()); auto m = k.keyed();
            std::vector<int> aw = toInts(m["aw:"]), ll = toInts(m["ll:"]); double al = 0, be = 0; if (m.count("ab:")) { auto ab = toDbls(m["ab:"]); al = ab[0]; be = ab[1]; }
            if (fam == "global") s.g.makeGlobalGrid(d, outs, depth, ty, r, aw, al, be, nullptr, ll); else s.g.makeSequenceGrid(d, outs, depth, ty, r, aw, ll); }
        else if (fam == "localp") { int order = k.ni(); TypeOneDRule r = RULES.at(k.next()); auto m = k.keyed(); s.g.makeLocalPolynomialGrid(d, outs, depth, order, r, toInts(m["ll:"])); }
        else if (fam == "wavelet") { int order = k.ni(); auto m = k.keyed(); s.g.makeWaveletGrid(d, outs, depth, order, toInts(m["ll:"])); }
        else if (fam == "fourier") { TypeDepth ty = DEPTHS.at(k.next()); auto m = k.keyed(); s.g.makeFourierGrid(d, outs, depth, ty, toInts(m["aw:"]), toInts(m["ll:"])); }
        else throw std::runtime_error("driver: unknown family");
        s.cand.clear();
    }
    else if (cmd == "trans") { Slot &s = S(k.next()); auto m = k.keyed(); s.g.setDomainTransform(toDbls(m["a:"]), toDbls(m["b:"])); }
    else if (cmd == "cleartrans") S(k.next()).g.clearDomainTransform();
    else if (cmd == "conformal") { Slot &s = S(k.next()); s.g.setConformalTransformASIN(k.ints()); }
    else if (cmd == "clearconformal") S(k.next()).g.clearConformalTransform();
    else if (cmd == "clearlimits") S(k.next()).g.clearLevelLimits();
    else if (cmd == "load") { Slot &s = S(k.next()); std::string fn = k.next(); TasmanianSparseGrid &g = s.g;
        std::vector<double> pts = (g.getNumNeeded() > 0) ? g.getNeededPoints() : g.getLoadedPoints();
        g.loadNeededValues(fn_values(fn, pts, g.getNumDimensions(), g.getNumOutputs())); }
    else if (cmd == "loadraw") { Slot &s = S(k.next()); s.g.loadNeededValues(k.dbls()); }
    else if (cmd == "refsurp") { Slot &s = S(k.next()); double tol = k.nd(); TypeRefinement cr = REFS.at(k.next()); int out = k.ni(); auto m = k.keyed();
        std::vector<int> ll = toInts(m["ll:"]); std::string sc = m.count("scale:") ? m["scale:"][0] : "none"; std::string ov = m.count("ov:") ? m["ov:"][0] : "vec";
        TasmanianSparseGrid &g = s.g; std::vector<double> scale;
        if (sc != "none") { size_t n = (size_t) g.getNumLoaded() * (size_t) ((out == -1) ? g.getNumOutputs() : 1); if (sc == "bad") n += 1; scale.resize(n);
            for (size_t i = 0; i < n; i++) scale[i] = (sc == "ones") ? 1.0 : (sc == "half") ? 0.5 : ((double) (mix(i + 17) % 1000) / 500.0); }
        if (ov == "vec") g.setSurplusRefinement(tol, cr, out, ll, scale);
        else g.setSurplusRefinement(tol, cr, out, ll.empty() ? nullptr : ll.data(), scale.empty() ? nullptr : scale.data()); }
    else if (cmd == "refsimple") { Slot &s = S(k.next()); double tol = k.nd(); int out = k.ni(); auto m = k.keyed(); s.g.setSurplusRefinement(tol, out, toInts(m["ll:"])); }
    else if (cmd == "refaniso") { Slot &s = S(k.next()); TypeDepth ty = DEPTHS.at(k.next()); int mg = k.ni(); int out = k.ni(); auto m = k.keyed(); s.g.setAnisotropicRefinement(ty, mg, out, toInts(m["ll:"])); }
    else if (cmd == "update") { Slot &s = S(k.next()); int depth = k.ni(); TypeDepth ty = DEPTHS.at(k.next()); auto m = k.keyed(); s.g.updateGrid(depth, ty, toInts(m["aw:"]), toInts(m["ll:"])); }
    else if (cmd == "merge") S(k.next()).g.mergeRefinement();
    else if (cmd == "clearref") S(k.next()).g.clearRefinement();
    else if (cmd == "setcoef") { Slot &s = S(k.next()); std::string fn = k.next(); TasmanianSparseGrid &g = s.g;
        std::vector<double> c = fn_values(fn, g.getPoints(), g.getNumDimensions(), g.getNumOutputs());
        if (g.isFourier()) { std::vector<double> cc(2 * c.size(), 0.0); std::copy(c.begin(), c.end(), cc.begin()); for (size_t i = 0; i < c.size(); i++) cc[c.size() + i] = 0.25 * c[i]; c = cc; }
        g.setHierarchicalCoefficients(c); }
    else if (cmd == "remtol") { Slot &s = S(k.next()); double tol = k.nd(); int out = k.ni();
        // a tolerance above every coefficient empties the grid; every later call on an empty grid is outside the documented use (the point
        // getters and loadConstructedPoints dereference the null base object): tried on a copy first and skipped in that case
        TasmanianSparseGrid trial(s.g); trial.removePointsByHierarchicalCoefficient(tol, out);
        if (!trial.empty() && trial.getNumLoaded() > 0) s.g.removePointsByHierarchicalCoefficient(tol, out); }
    else if (cmd == "remcount") { Slot &s = S(k.next()); int n = k.ni(); int out = k.ni();
        // keeping more points than the grid holds is outside the documented use ("keeps only the given number of points"): skipped
        if (n > 0 && n < s.g.getNumLoaded()) s.g.removePointsByHierarchicalCoefficient(n, out); }
    else if (cmd == "begin") S(k.next()).g.beginConstruction();
    else if (cmd == "finish") S(k.next()).g.finishConstruction();
    else if (cmd == "cand") { Slot &s = S(k.next()); std::string kind = k.next();
        if (kind == "aw") { TypeDepth ty = DEPTHS.at(k.next()); auto m = k.keyed(); s.cand = s.g.getCandidateConstructionPoints(ty, toInts(m["aw:"]), toInts(m["ll:"])); }
        else if (kind == "out") { TypeDepth ty = DEPTHS.at(k.next()); int out = k.ni(); auto m = k.keyed(); s.cand = s.g.getCandidateConstructionPoints(ty, out, toInts(m["ll:"])); }
        else { double tol = k.nd(); TypeRefinement cr = REFS.at(k.next()); int out = k.ni(); auto m = k.keyed(); s.cand = s.g.getCandidateConstructionPoints(tol, cr, out, toInts(m["ll:"])); }
        pd("cand", s.cand); }
    else if (cmd == "deliver") { Slot &s = S(k.next()); std::string fn = k.next(); auto m = k.keyed(); std::vector<int> idx = toInts(m["idx:"]);
        int d = s.g.getNumDimensions(); std::vector<double> x;
        for (int i : idx) { if ((size_t) (i + 1) * d > s.cand.size()) throw std::runtime_error("driver: candidate index out of range"); x.insert(x.end(), s.cand.begin() + (size_t) i * d, s.cand.begin() + (size_t) (i + 1) * d); }
        s.g.loadConstructedPoints(x, fn_values(fn, x, d, s.g.getNumOutputs())); }
    else if (cmd == "deliverall") { Slot &s = S(k.next()); std::string fn = k.next(); int mx = k.ni();      // deliverall <s> <fn> <max>: the first min(max, #candidates) candidates
        int d = s.g.getNumDimensions(); size_t n = d ? s.cand.size() / (size_t) d : 0; if ((size_t) mx < n) n = (size_t) mx;
        std::vector<double> x(s.cand.begin(), s.cand.begin() + n * (size_t) d);
        if (n > 0) s.g.loadConstructedPoints(x, fn_values(fn, x, d, s.g.getNumOutputs())); }
    else if (cmd == "deliverx") { Slot &s = S(k.next()); std::string fn = k.next(); auto m = k.keyed(); std::vector<double> x = toDbls(m["x:"]);
        s.g.loadConstructedPoints(x, fn_values(fn, x, s.g.getNumDimensions(), s.g.getNumOutputs())); }
    else if (cmd == "copy") { Slot &dst = S(k.next()); Slot &src = S(k.next()); if (k.more()) { int b = k.ni(), e = k.ni(); dst.g.copyGrid(src.g, b, e); } else dst.g.copyGrid(src.g); dst.cand = src.cand; }
    else if (cmd == "assign") { Slot &dst = S(k.next()); Slot &src = S(k.next()); dst.g = src.g; dst.cand = src.cand; }
    else if (cmd == "cctor") { std::string dn = k.next(); Slot &src = S(k.next()); std::unique_ptr<Slot> n(new Slot{TasmanianSparseGrid(src.g), src.cand}); slots[dn] = std::move(n); }
    else if (cmd == "write") { Slot &s = S(k.next()); bool bin = (k.next() == "bin"); std::string how = k.next(), name = k.next();
        if (how == "file") s.g.write((workdir + "/" + name).c_str(), bin);
        else { std::ostringstream os(std::ios::out | std::ios::binary); s.g.write(os, bin); streams[name] = os.str(); }
        std::string data; if (how == "file") { std::ifstream f(workdir + "/" + name, std::ios::binary); std::ostringstream b; b << f.rdbuf(); data = b.str(); } else data = streams[name];
        uint64_t old = dig; dig = 0; dmix(data.data(), data.size()); printf("o written %zu %016llx\n", data.size(), (unsigned long long) dig); dig = old; }
    else if (cmd == "read") { Slot &s = S(k.next()); bool bin = (k.next() == "bin"); std::string how = k.next(), name = k.next();
        if (how == "file") s.g.read((workdir + "/" + name).c_str());
        else { std::istringstream is(streams.at(name), std::ios::in | std::ios::binary); s.g.read(is, bin); } s.cand.clear(); }
    else if (cmd == "savebytes") { // save the binary/ascii image of the grid into a file for external decoding
        Slot &s = S(k.next()); bool bin = (k.next() == "bin"); std::string name = k.next(); std::ofstream f(workdir + "/" + name, std::ios::binary); s.g.write(f, bin); }
    else if (cmd == "dump") { Slot &s = S(k.next()); while (k.more()) dump(s, k.next()); }
    else if (cmd == "iw") { Slot &s = S(k.next()); auto m = k.keyed(); pd("iw", s.g.getInterpolationWeights(xlist(s, m))); }
    else if (cmd == "dw") { Slot &s = S(k.next()); auto m = k.keyed(); pd("dw", s.g.getDifferentiationWeights(xlist(s, m))); }
    else if (cmd == "eval") { Slot &s = S(k.next()); auto m = k.keyed(); std::vector<double> x = xlist(s, m); int d = s.g.getNumDimensions(), o = s.g.getNumOutputs();
        size_t n = d ? x.size() / d : 0; std::vector<double> all; for (size_t i = 0; i < n; i++) { std::vector<double> xi(x.begin() + i * d, x.begin() + (i + 1) * d), y; s.g.evaluate(xi, y); all.insert(all.end(), y.begin(), y.end()); }
        (void) o; pd("eval", all); }
    else if (cmd == "evalb") { Slot &s = S(k.next()); auto m = k.keyed(); std::vector<double> x = xlist(s, m), y; s.g.evaluateBatch(x, y); pd("evalb", y); }
    else if (cmd == "evalf") { Slot &s = S(k.next()); auto m = k.keyed(); std::vector<double> x = toDbls(m["x:"]); int d = s.g.getNumDimensions();
        size_t n = d ? x.size() / d : 0; std::vector<double> all; for (size_t i = 0; i < n; i++) { std::vector<double> xi(x.begin() + i * d, x.begin() + (i + 1) * d), y; s.g.evaluateFast(xi, y); all.insert(all.end(), y.begin(), y.end()); }
        pd("evalf", all); }
    else if (cmd == "evalpts") { // evaluate / evaluateBatch / evaluateFast at every loaded point
        Slot &s = S(k.next()); TasmanianSparseGrid &g = s.g; std::vector<double> x = g.getLoadedPoints(), yb; int d = g.getNumDimensions();
        g.evaluateBatch(x, yb); pd("evalb", yb); size_t n = d ? x.size() / d : 0; std::vector<double> all, allf;
        for (size_t i = 0; i < n; i++) { std::vector<double> xi(x.begin() + i * d, x.begin() + (i + 1) * d), y, yf; g.evaluate(xi, y); all.insert(all.end(), y.begin(), y.end()); g.evaluateFast(xi, yf); allf.insert(allf.end(), yf.begin(), yf.end()); }
        pd("eval", all); pd("evalf", allf); }
    else if (cmd == "integ") { Slot &s = S(k.next()); std::vector<double> q; s.g.integrate(q); pd("integ", q); }
    else if (cmd == "diff") { Slot &s = S(k.next()); auto m = k.keyed(); std::vector<double> x = xlist(s, m), j; s.g.differentiate(x, j); pd("diff", j); }
    else if (cmd == "hbasis") { Slot &s = S(k.next()); auto m = k.keyed(); std::vector<double> x = xlist(s, m), y; s.g.evaluateHierarchicalFunctions(x, y); pd("hbasis", y); }
    else if (cmd == "hsparsenz") { // the three sparse-basis entry points at the same points: GetNZ, the vector overload, Static (buffers sized by the larger count)
        Slot &s = S(k.next()); auto m = k.keyed(); std::vector<double> x = xlist(s, m), v; std::vector<int> pn, ix; int d = s.g.getNumDimensions(); int nx = (d > 0) ? (int) (x.size() / (size_t) d) : 0;
        int nz = s.g.evaluateSparseHierarchicalFunctionsGetNZ(x.data(), nx); s.g.evaluateSparseHierarchicalFunctions(x, pn, ix, v);
        size_t cap = std::max((size_t) std::max(nz, 0), ix.size()) + 1; std::vector<int> sp((size_t) nx + 1, 0), si(cap, -1); std::vector<double> sv(cap * (s.g.isFourier() ? 2 : 1), 0.0);
        if (nz >= (int) ix.size()) s.g.evaluateSparseHierarchicalFunctionsStatic(x.data(), nx, sp.data(), si.data(), sv.data()); else sp[(size_t) nx] = (int) ix.size();
        bool same = (nz >= (int) ix.size()) && std::equal(ix.begin(), ix.end(), si.begin()) && std::equal(pn.begin(), pn.end(), sp.begin());
        pi("hsnz", std::vector<int>{nz, (int) ix.size(), sp[(size_t) nx], same ? 1 : 0}); }
    else if (cmd == "hsparse") { Slot &s = S(k.next()); auto m = k.keyed(); std::vector<double> x = xlist(s, m), v; std::vector<int> pn, ix; s.g.evaluateSparseHierarchicalFunctions(x, pn, ix, v); pi("hsp_pntr", pn); pi("hsp_indx", ix); pd("hsp_vals", v); }
    else if (cmd == "inside") { Slot &s = S(k.next()); auto m = k.keyed(); std::vector<double> x = toDbls(m["x:"]); int d = s.g.getNumDimensions(); auto ins = s.g.getDomainInside();
        std::vector<int> r; for (size_t i = 0; d && i + d <= x.size(); i += d) r.push_back(ins(std::vector<double>(x.begin() + i, x.begin() + i + d)) ? 1 : 0); pi("inside", r); }
    else if (cmd == "probe") { // probe <s> <nrandom> <seed>: evaluation points = random points of the domain, some nodes, and points exactly at node +- support
        Slot &s = S(k.next()); int nr = k.ni(); uint64_t seed = (uint64_t) k.ni(); TasmanianSparseGrid &g = s.g; int d = g.getNumDimensions();
        bool only_random = k.more() && k.peek("only"); // "probe <s> <n> <seed> only": exactly n random points (e.g. batches of 32, 64)
        std::vector<double> pts = g.getPoints(), sup = g.getHierarchicalSupport(); size_t n = d ? pts.size() / d : 0; s.probe.clear();
        if (n > 0) {
            std::vector<double> lo(d, 1e300), hi(d, -1e300);
            for (size_t i = 0; i < n; i++) for (int j = 0; j < d; j++) { lo[j] = std::min(lo[j], pts[i * d + j]); hi[j] = std::max(hi[j], pts[i * d + j]); }
            if (g.isFourier()) { std::vector<double> a(d, 0.0), b(d, 1.0); if (g.isSetDomainTransfrom()) g.getDomainTransform(a, b);
                for (int j = 0; j < d; j++) { lo[j] = a[j]; hi[j] = b[j]; } }
            {   // a dimension with a single node: probe the true domain of that dimension (the documented identities speak about points of the domain)
                TypeOneDRule rl = g.getRule();
                bool unbounded = (rl == rule_gausslaguerre || rl == rule_gausslaguerreodd || rl == rule_gausshermite || rl == rule_gausshermiteodd);
                std::vector<double> a(d, -1.0), b(d, 1.0); bool tr = g.isSetDomainTransfrom(); if (tr) g.getDomainTransform(a, b);
                for (int j = 0; j < d; j++) if (hi[j] <= lo[j]) {
                    if (!unbounded) { lo[j] = a[j]; hi[j] = b[j]; }
                    else if (rl == rule_gausshermite || rl == rule_gausshermiteodd) { lo[j] -= 0.5; hi[j] += 0.5; }
                    else { hi[j] += 0.5; }      // Gauss-Laguerre: [a, inf), stay to the right of the node
                }
            }
            auto rnd = [&]() -> double { seed = mix(seed + 0x9e3779b97f4a7c15ULL); return (double) (seed >> 11) / 9007199254740992.0; };
            for (int i = 0; i < nr; i++) for (int j = 0; j < d; j++) s.probe.push_back(lo[j] + (hi[j] - lo[j]) * rnd());
            if (only_random) { pd("probe", s.probe); return; }
            for (int i = 0; i < 4 && n > 0; i++) { size_t p = (size_t) (rnd() * n) % n; for (int j = 0; j < d; j++) s.probe.push_back(pts[p * d + j]); }
            // points half-way between adjacent node coordinates (for periodic bases: half a period from a node of the finest level)
            for (int i = 0; i < 4; i++) { std::vector<double> x(d); bool okp = true;
                for (int j = 0; j < d; j++) { std::set<double> cs; for (size_t p = 0; p < n; p++) cs.insert(pts[p * d + j]);
                    std::vector<double> c(cs.begin(), cs.end()); if (g.isFourier()) c.push_back(hi[j]);
                    if (c.size() < 2) { x[j] = c[0]; continue; } size_t q = (size_t) (rnd() * (c.size() - 1)) % (c.size() - 1); x[j] = 0.5 * (c[q] + c[q + 1]); }
                if (okp) s.probe.insert(s.probe.end(), x.begin(), x.end()); }
            if (sup.size() == pts.size()) for (int i = 0; i < 6; i++) { size_t p = (size_t) (rnd() * n) % n; int dir = (int) (rnd() * d) % d; double sg = (rnd() < 0.5) ? -1.0 : 1.0;
                std::vector<double> x(pts.begin() + p * d, pts.begin() + (p + 1) * d); x[dir] += sg * sup[p * d + dir];
                if (x[dir] < lo[dir] || x[dir] > hi[dir]) x[dir] = pts[p * d + dir] - sg * sup[p * d + dir];
                if (x[dir] < lo[dir] || x[dir] > hi[dir]) continue; s.probe.insert(s.probe.end(), x.begin(), x.end()); }
        }
        pd("probe", s.probe); }
    else if (cmd == "weights") { // interpolation and differentiation weights at every probe point
        Slot &s = S(k.next()); int d = s.g.getNumDimensions(); std::vector<double> all, alld;
        for (size_t i = 0; d && i + d <= s.probe.size(); i += d) { std::vector<double> x(s.probe.begin() + i, s.probe.begin() + i + d);
            auto w = s.g.getInterpolationWeights(x); all.insert(all.end(), w.begin(), w.end()); }
        pd("iwall", all);
        for (size_t i = 0; d && i + d <= s.probe.size(); i += d) { std::vector<double> x(s.probe.begin() + i, s.probe.begin() + i + d);
            auto w = s.g.getDifferentiationWeights(x); alld.insert(alld.end(), w.begin(), w.end()); }
        pd("dwall", alld); }
    else if (cmd == "diffall") { Slot &s = S(k.next()); int d = s.g.getNumDimensions(); std::vector<double> all;
        for (size_t i = 0; d && i + d <= s.probe.size(); i += d) { std::vector<double> x(s.probe.begin() + i, s.probe.begin() + i + d), j; s.g.differentiate(x, j); all.insert(all.end(), j.begin(), j.end()); }
        pd("diffall", all); }
    else if (cmd == "numpoints") { TypeOneDRule r = RULES.at(k.next()); int ml = k.ni(); std::vector<int> np; for (int l = 0; l <= ml; l++) np.push_back(OneDimensionalMeta::getNumPoints(l, r)); pi("numpoints", np); }
    else if (cmd == "estaniso") { Slot &s = S(k.next()); TypeDepth ty = DEPTHS.at(k.next()); int out = k.ni(); pi("estaniso", s.g.estimateAnisotropicCoefficients(ty, out)); }
    else throw std::runtime_error("driver: unknown command " + cmd);
}

static void run_guarded(const std::string &line) {
    try { run_line(line); }
    catch (std::invalid_argument &e) { printf("x invalid_argument %s\n", e.what()); }
    catch (std::runtime_error &e) { if (strncmp(e.what(), "driver:", 7) == 0) printf("x driver %s\n", e.what()); else printf("x runtime_error %s\n", e.what()); }
    catch (std::out_of_range &e) { printf("x driver out_of_range %s\n", e.what()); }
    catch (std::exception &e) { printf("x other:%s %s\n", typeid(e).name(), e.what()); }
    fflush(stdout);
}

// Every case runs in its own child process under a CPU-time alarm, so that a crash or a call that does not
// return is an observation about that case ("x crash:<signal>" / "x hang") and the other cases still run.
int main(int argc, char **argv) {
    if (argc < 2) { fprintf(stderr, "usage: tsgdrv script [workdir] [case-timeout-seconds]\n"); return 2; }
    if (argc > 2) workdir = argv[2];
    int case_timeout = (argc > 3) ? atoi(argv[3]) : 20;
    std::ifstream in(argv[1]); std::string line;
    std::vector<std::vector<std::string>> cases; 
    while (std::getline(in, line)) {
        if (line.compare(0, 5, "case ") == 0 || cases.empty()) cases.emplace_back();
        cases.back().push_back(line);
    }
    for (auto &c : cases) {
        fflush(stdout);
        pid_t pid = fork();
        if (pid == 0) {
            verif_case_limit(case_timeout);
            for (auto &l : c) run_guarded(l);
            fflush(stdout);
            _exit(0);
        }
        int status = 0; waitpid(pid, &status, 0);
        if (WIFSIGNALED(status)) {
            if (verif_is_timeout(WTERMSIG(status))) printf("\nx hang no return within %d s\n", case_timeout);
            else printf("\nx crash:%d terminated by signal\n", WTERMSIG(status));
        } else if (WIFEXITED(status) && WEXITSTATUS(status) != 0) printf("\nx crash:exit%d abnormal exit\n", WEXITSTATUS(status));
        fflush(stdout);
    }
    return 0;
}
