// dreamdrv: runs TasDREAM::SampleDREAM (C15) on scripted cases and logs every callback invocation with exact
// (hex) doubles, a snapshot of the chain state at the start of every iteration, and the state / history /
// pdf history / acceptance counter after every run.  Input: case file (argv[1]); output: stdout.
// Every case runs in a forked child so that a sanitizer abort loses only that case ("crash <status>").
//
// case grammar (two lines per case):
//   case <id>
//   dream <reg|log> <chains> <dims> pdf: <kind> <p...> dom: <kind> <p...> upd: <kind> <p...> diff: <kind> <p...>
//         state: <x...> ops: <op> | <op> | ... rng: <r...>
// ops (all on ONE TasmanianDREAM object, in order; the state and the caches are dumped after every op, "endop ..."):
//   run <nb> <nc>          SampleDREAM<form>(nb, nc, ...)
//   setv <x...>            setState(vector)            (a wrong size is passed on: the library must throw and change nothing)
//   setf abs <v...> | setf rel <a> <v...>   setState(callback): overwrite / x := a x + v (reads the old chain), logs "F old = new"
//   pdfv raw <v...> | pdfv true             setPDFvalues(vector): given values / the pdf of the current chains ("PX x = v" lines)
//   pdff | clearpdf | clearhist | expand <k>   setPDFvalues(pdf) / clearPDFvalues / clearHistory / expandHistory
// pdf kinds  : flat c | gauss m s | step q | zeroout lo hi            (pure, point-wise; value depends on the form)
// dom kinds  : all | none | box lo hi | half c | lattice q
// upd kinds  : none | shift c... | twist a          (user callbacks, logged)
//              libnone | libuniform mag | libgauss mag   (the TypeDistribution overload of SampleDREAM)
// diff kinds : one | p0 | p25 | p50 | p100 (const_one / const_percent<..>) | seq v... (stateful) | rand (draws from the rng)
// The rng is the scripted stream r[pos % len] shared by all runs of the case (position persists between runs).
//
// log lines: "R v" sampler's own draw, "Rd v" draw made inside the differential-update callback, "Ru v" draw made
// between the differential update and the domain test (= inside the independent update), "D v", "U x = x'",
// "I x = b", "PDF n" followed by n lines "P x = v" (one batch call), "S t state: .. pdf: .." snapshot at the
// first differential-update call of iteration t, "op <kind> <args>" before and "endop ..." after every operation.
#include <cstdio>
#include <cstdlib>
#include <cstring>
#include <cmath>
#include <string>
#include <vector>
#include <sstream>
#include <fstream>
#include <iostream>
#include <functional>
#include <stdexcept>
#include <random>
#include <memory>
#include <map>
#include <set>
#include <list>
#include <forward_list>
#include <numeric>
#include <algorithm>
#include <complex>
#include <array>
#include <cassert>
#include <cstdint>
#include <iomanip>
#include <limits>
#include <type_traits>
#include <utility>
#include <mutex>
#include <thread>
#include <condition_variable>
#include <chrono>
#include <ctime>
#include <unistd.h>
#include <sys/types.h>
#include <sys/wait.h>
// white-box, read-only access to TasmanianDREAM::pdf_values / init_values / accepted
#define private public
#include "TasmanianDREAM.hpp"
#undef private

using namespace TasDREAM;

static void pvec(const std::vector<double> &a) { for (double v : a) printf(" %a", v); }
static void pv(const char *tag, const std::vector<double> &a, const std::vector<double> &b) {
    printf("%s", tag); pvec(a); printf(" ="); pvec(b); printf("\n");
}

typedef std::map<std::string, std::vector<std::string>> Sections;
static Sections parse_sections(std::istringstream &ss) {
    Sections s; std::string t, cur;
    while (ss >> t) { if (!t.empty() && t.back() == ':') { cur = t; s[cur]; } else s[cur].push_back(t); }
    return s;
}
static std::vector<double> nums(const std::vector<std::string> &v, size_t from = 0) {
    std::vector<double> r; for (size_t i = from; i < v.size(); i++) r.push_back(strtod(v[i].c_str(), nullptr)); return r;
}

struct Pdf { std::string kind; std::vector<double> c; bool logf;
    double operator()(const double *x, int d) const {
        if (kind == "flat") return c[0];
        if (kind == "gauss") { double a = 0.0; for (int i = 0; i < d; i++) { double z = (x[i] - c[0]) / c[1]; a += z * z; }
            return logf ? -0.5 * a : std::exp(-0.5 * a); }
        if (kind == "step") { double a = 0.0; for (int i = 0; i < d; i++) a += std::fabs(x[i]);
            double k = std::floor(a * c[0]); if (!(k <= 60.0)) k = 60.0; if (!(k >= 0.0)) k = 0.0;
            return logf ? -0.5 * k : std::ldexp(1.0, -(int) k); }
        if (kind == "zeroout") { bool in = true; for (int i = 0; i < d; i++) if (!(x[i] >= c[0] && x[i] <= c[1])) in = false;
            return logf ? (in ? 0.0 : -std::numeric_limits<double>::infinity()) : (in ? 1.0 : 0.0); }
        return 1.0; }
};
struct Dom { std::string kind; std::vector<double> c;
    bool operator()(const double *x, int d) const {
        if (kind == "all") return true;
        if (kind == "none") return false;
        if (kind == "box") { for (int i = 0; i < d; i++) if (x[i] < c[0] || x[i] > c[1]) return false; return true; }
        if (kind == "half") return x[0] >= c[0];
        if (kind == "lattice") { double k = std::floor(x[0] * c[0]); return std::fmod(k, 2.0) == 0.0; }
        return true; }
};

static int run_case(const std::string &line) {
    std::istringstream ss(line); std::string cmd, form; int n, d;
    ss >> cmd >> form >> n >> d;
    Sections sec = parse_sections(ss);
    Pdf pdf; pdf.kind = sec["pdf:"].at(0); pdf.c = nums(sec["pdf:"], 1); pdf.logf = (form == "log");
    Dom dom; dom.kind = sec["dom:"].at(0); dom.c = nums(sec["dom:"], 1);
    std::string uk = sec["upd:"].at(0); std::vector<double> uc = nums(sec["upd:"], 1);
    std::string dk = sec["diff:"].at(0); std::vector<double> dc = nums(sec["diff:"], 1);
    std::vector<double> x0 = nums(sec["state:"]), stream = nums(sec["rng:"]);
    if (stream.empty()) stream.push_back(0.5);

    TasmanianDREAM state(n, d);
    size_t pos = 0, dcalls = 0, dseq = 0; int ctx = 0; // ctx: 0 sampler, 1 inside diff callback, 2 update window
    long iter = 0;
    auto rng = [&]() -> double { double v = stream[pos % stream.size()]; pos++;
        printf("%s %a\n", ctx == 1 ? "Rd" : (ctx == 2 ? "Ru" : "R"), v); return v; };
    auto snapshot = [&]() { printf("S %ld state:", iter); pvec(state.getChainState()); printf(" pdf:"); pvec(state.pdf_values); printf("\n"); };
    std::function<double(void)> diff = [&]() -> double {
        if (dcalls % (size_t) n == 0) { snapshot(); iter++; }
        dcalls++;
        int old = ctx; ctx = 1; double w;
        if (dk == "one") w = const_one();
        else if (dk == "p0") w = const_percent<0>();
        else if (dk == "p25") w = const_percent<25>();
        else if (dk == "p50") w = const_percent<50>();
        else if (dk == "p100") w = const_percent<100>();
        else if (dk == "seq") { w = dc[dseq % dc.size()]; dseq++; }
        else w = rng(); // rand
        ctx = old; printf("D %a\n", w);
        fflush(stdout); // the chain-state access of getIJKdelta follows: keep the log if a sanitizer aborts there
        ctx = 2; // until the domain test: draws belong to the independent update
        return w; };
    std::function<void(std::vector<double> &)> upd = [&](std::vector<double> &x) -> void {
        std::vector<double> a = x;
        if (uk == "shift") { for (size_t i = 0; i < x.size(); i++) x[i] += uc[i % uc.size()]; }
        else if (uk == "twist") { for (size_t i = 0; i < x.size(); i++) x[i] += uc[0] * a[(i + 1) % x.size()]; }
        pv("U", a, x); };
    DreamDomain inside = [&](const std::vector<double> &x) -> bool { ctx = 0; bool b = dom(x.data(), d); pv("I", x, {b ? 1.0 : 0.0}); return b; };
    DreamPDF P = [&](const std::vector<double> &cand, std::vector<double> &vals) -> void {
        size_t m = cand.size() / (size_t) d; printf("PDF %zu %zu\n", m, vals.size());
        for (size_t i = 0; i < m && i < vals.size(); i++) { vals[i] = pdf(cand.data() + i * d, d);
            pv("P", std::vector<double>(cand.begin() + i * d, cand.begin() + (i + 1) * d), {vals[i]}); } };

    auto dump = [&](size_t h0, size_t p0) {
        printf("endop state:"); pvec(state.getChainState());
        printf(" pdfv:"); pvec(state.pdf_values);
        printf(" ready: %d", (int) state.isPDFReady());
        printf(" accepted: %zu rngpos: %zu numhist: %zu", state.accepted, pos, state.getNumHistory());
        printf(" histold: %zu %zu", h0, p0);
        printf(" hist:"); pvec(state.getHistory());
        printf(" pdfh:"); pvec(state.getHistoryPDF());
        printf("\n");
    };
    // split the ops section at the "|" tokens
    std::vector<std::vector<std::string>> ops; ops.emplace_back();
    for (auto &t : sec["ops:"]) { if (t == "|") ops.emplace_back(); else ops.back().push_back(t); }
    bool lg = (form == "log");
    try { state.setState(x0); } catch (std::exception &e) { printf("exception %s\n", e.what()); }
    for (auto &o : ops) {
        if (o.empty()) continue;
        size_t h0 = state.getHistory().size(), p0 = state.getHistoryPDF().size();
        const std::string &k = o[0];
        try {
            if (k == "run") {
                int nb = atoi(o[1].c_str()), nc = atoi(o[2].c_str());
                printf("op run %d %d\n", nb, nc);
                dcalls = 0; iter = 0; ctx = 0;
                if (uk == "libnone" || uk == "libuniform" || uk == "libgauss") {
                    TypeDistribution dist = (uk == "libuniform") ? dist_uniform : ((uk == "libgauss") ? dist_gaussian : dist_none);
                    double mag = uc.empty() ? 0.0 : uc[0];
                    if (lg) SampleDREAM<logform>(nb, nc, P, inside, state, dist, mag, diff, rng);
                    else    SampleDREAM<regform>(nb, nc, P, inside, state, dist, mag, diff, rng);
                } else {
                    if (lg) SampleDREAM<logform>(nb, nc, P, inside, state, upd, diff, rng);
                    else    SampleDREAM<regform>(nb, nc, P, inside, state, upd, diff, rng);
                }
                ctx = 0;
            } else if (k == "setv") {            // setState(const std::vector<double>&)
                std::vector<double> v = nums(o, 1);
                printf("op setv"); pvec(v); printf("\n");
                state.setState(v);
            } else if (k == "setf") {            // setState(std::function<void(double*)>): abs = overwrite, rel a = x := a x + v
                bool rel = (o[1] == "rel");
                std::vector<double> v = nums(o, rel ? 3 : 2);
                double a = rel ? strtod(o[2].c_str(), nullptr) : 0.0;
                printf("op setf\n");
                size_t ci = 0;
                state.setState([&](double *x) -> void {
                    std::vector<double> old(x, x + d);
                    for (int q = 0; q < d; q++) { double nv = v[(ci * (size_t) d + (size_t) q) % v.size()]; x[q] = rel ? a * x[q] + nv : nv; }
                    pv("F", old, std::vector<double>(x, x + d));
                    ci++; });
            } else if (k == "pdfv") {            // setPDFvalues(const std::vector<double>&): raw = given, true = pdf of the current state
                std::vector<double> v;
                if (o[1] == "true") {
                    const std::vector<double> &cs = state.getChainState();
                    for (int i = 0; i < n; i++) { v.push_back(pdf(cs.data() + (size_t) i * d, d));
                        pv("PX", std::vector<double>(cs.begin() + (size_t) i * d, cs.begin() + (size_t) (i + 1) * d), {v.back()}); }
                } else v = nums(o, 2);
                printf("op pdfv"); pvec(v); printf("\n");
                state.setPDFvalues(v);
            } else if (k == "pdff") {            // setPDFvalues(probability_distribution)
                printf("op pdff\n");
                state.setPDFvalues(P);
            } else if (k == "clearpdf") { printf("op clearpdf\n"); state.clearPDFvalues(); }
            else if (k == "clearhist") { printf("op clearhist\n"); state.clearHistory(); }
            else if (k == "expand") { printf("op expand %s\n", o[1].c_str()); state.expandHistory(atoi(o[1].c_str())); }
            else printf("op unknown\n");
        } catch (std::exception &e) { printf("exception %s\n", e.what()); }
        dump(h0, p0);
    }
    return 0;
}

int main(int argc, char **argv) {
    if (argc < 2) { fprintf(stderr, "usage: dreamdrv cases [nofork]\n"); return 2; }
    bool nofork = argc > 2 && std::string(argv[2]) == "nofork";
    std::ifstream in(argv[1]);
    std::string line, id;
    while (std::getline(in, line)) {
        std::istringstream ss(line); std::string cmd; ss >> cmd;
        if (cmd == "case") { ss >> id; printf("case %s\n", id.c_str()); }
        else if (cmd == "dream") {
            printf("params %s\n", line.c_str());
            fflush(stdout); fprintf(stderr, "=== case %s\n", id.c_str()); fflush(stderr);
            if (nofork) { run_case(line); }
            else {
                pid_t pid = fork();
                if (pid == 0) { run_case(line); fflush(stdout); fflush(stderr); _exit(0); }
                int status = 0; waitpid(pid, &status, 0);
                if (!(WIFEXITED(status) && WEXITSTATUS(status) == 0))
                    printf("\ncrash %d %d\n", WIFEXITED(status) ? WEXITSTATUS(status) : -1, WIFSIGNALED(status) ? WTERMSIG(status) : 0);
            }
            printf("end\n"); fflush(stdout);
        }
    }
    return 0;
}
