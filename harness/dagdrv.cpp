// dagdrv: direct white-box tie of HierarchyManipulations::computeDAGup / computeLevels and of the surplus algorithm choice of
// GridLocalPolynomial::recomputeSurpluses (C01 / C03 / C04).  Read-only.  Input: case file (argv[1]); one result line per case.
//   dag <id> <pwc|localp|semilocalp|localp0|localpb> <d> idx: i11 .. i1d i21 ..      (duplicate-free point set; sorted here)
//   sur <id> <rule name> <order> <d> idx: i.. vals: v..                              (one output; vals in the order of idx)
// Output:
//   r <id> n=<N> d=<d> slots=<1|2> complete=<0|1> same2=<0|1> sameR=<0|1> pts: <N*d> links: <N*d*slots*d> lev: <N>
//        pts    the sorted set, links  for every point, direction j, slot k (0 parent, 1 step-parent entry): the MULTI-INDEX of the linked
//        point (d numbers), d times -1 when the entry is -1;  complete = is_complete of computeDAGup<effrule>(mset, is_complete);
//        same2 = the table of computeDAGup<effrule>(mset) is identical to the one of the is_complete overload;
//        sameR = the run-time overloads computeDAGup(mset, erule) / computeLevels(mset, erule) give the same tables
//   lg <id> <effective rule> <order> <d> 1 pidx: .. vals: .. coef: .. xs: .. ys: ..   (sur: the format of ocaml/corefast_main.ml: the grid holds exactly
//        the given points, values loaded through loadNeededValues -> recomputeSurpluses; coef = surpluses, ys = evaluate at xs (the nodes
//        and their midpoints with the origin))   followed by   s <id> complete=<0|1> n=<N>
//   x <id> <message>  exception
#include <algorithm>
#include <array>
#include <cassert>
#include <cmath>
#include <complex>
#include <cstdint>
#include <cstdio>
#include <cstdlib>
#include <cstring>
#include <fstream>
#include <functional>
#include <iomanip>
#include <iostream>
#include <limits>
#include <map>
#include <memory>
#include <numeric>
#include <set>
#include <sstream>
#include <stdexcept>
#include <string>
#include <vector>
#define private public
#define protected public
#include "TasmanianSparseGrid.hpp"
#include "tsgIndexManipulator.hpp"
#include "tsgHierarchyManipulator.hpp"
#undef private
#undef protected

using namespace TasGrid;

static std::vector<std::string> toks(const std::string &line) { std::vector<std::string> t; std::istringstream ss(line); std::string s; while (ss >> s) t.push_back(s); return t; }
static std::map<std::string, std::vector<std::string>> keyed(const std::vector<std::string> &t, size_t from) {
    std::map<std::string, std::vector<std::string>> m; std::string k;
    for (size_t i = from; i < t.size(); i++) { if (!t[i].empty() && t[i].back() == ':') { k = t[i]; m[k]; } else if (!k.empty()) m[k].push_back(t[i]); }
    return m; }
static std::vector<int> ints(const std::vector<std::string> &v) { std::vector<int> r; for (auto &s : v) r.push_back(atoi(s.c_str())); return r; }

static MultiIndexSet make_set(size_t d, const std::vector<int> &flat) {
    size_t n = flat.size() / d;
    Data2D<int> data(d, n);
    for (size_t i = 0; i < n; i++) std::copy_n(flat.begin() + i * d, d, data.getStrip((int) i));
    return MultiIndexSet(data); // sorts (and would merge duplicates)
}

static bool same_table(const Data2D<int> &a, const Data2D<int> &b) {
    return a.getStride() == b.getStride() && a.getNumStrips() == b.getNumStrips()
           && std::equal(a.begin(), a.end(), b.begin());
}

template<RuleLocal::erule effrule>
static void dag_case(const std::string &id, size_t d, const MultiIndexSet &mset) {
    bool is_complete = true;
    Data2D<int> with = HierarchyManipulations::computeDAGup<effrule>(mset, is_complete);
    Data2D<int> plain = HierarchyManipulations::computeDAGup<effrule>(mset);
    Data2D<int> runtime = HierarchyManipulations::computeDAGup(mset, effrule);
    std::vector<int> lev = HierarchyManipulations::computeLevels<effrule>(mset);
    std::vector<int> levr = HierarchyManipulations::computeLevels(mset, effrule);
    int n = mset.getNumIndexes();
    int slots = RuleLocal::getMaxNumParents<effrule>();
    std::string out = "r " + id + " n=" + std::to_string(n) + " d=" + std::to_string(d) + " slots=" + std::to_string(slots)
                      + " complete=" + (is_complete ? "1" : "0") + " same2=" + (same_table(with, plain) ? "1" : "0")
                      + " sameR=" + ((same_table(plain, runtime) && lev == levr) ? "1" : "0") + " pts:";
    for (int v : mset.indexes) { out += " "; out += std::to_string(v); }
    out += " links:";
    if ((size_t) with.getStride() != (size_t) slots * d || with.getNumStrips() != n) throw std::runtime_error("driver: unexpected shape of the parent table");
    for (int i = 0; i < n; i++) {
        const int *pp = with.getStrip(i);
        for (size_t e = 0; e < (size_t) slots * d; e++) {
            if (pp[e] < -1 || pp[e] >= n) throw std::runtime_error("driver: parent entry out of range");
            for (size_t k = 0; k < d; k++) { out += " "; out += std::to_string(pp[e] == -1 ? -1 : mset.getIndex(pp[e])[k]); }
        }
    }
    out += " lev:";
    for (int v : lev) { out += " "; out += std::to_string(v); }
    printf("%s\n", out.c_str());
}

template<RuleLocal::erule effrule>
static bool complete_of(const MultiIndexSet &mset) { bool c = true; HierarchyManipulations::computeDAGup<effrule>(mset, c); return c; }

int main(int argc, char **argv) {
    if (argc < 2) return 2;
    std::ifstream in(argv[1]); std::string line;
    while (std::getline(in, line)) {
        auto t = toks(line); if (t.size() < 4) continue;
        std::string id = t[1];
        try {
            if (t[0] == "dag") {
                int d = atoi(t[3].c_str());
                auto m = keyed(t, 4);
                std::vector<int> flat = ints(m["idx:"]);
                if (d < 1 || flat.empty() || flat.size() % (size_t) d != 0) { printf("x %s malformed case\n", id.c_str()); continue; }
                for (int v : flat) if (v < 0) throw std::runtime_error("driver: negative index");
                MultiIndexSet mset = make_set((size_t) d, flat);
                if ((size_t) mset.getNumIndexes() * (size_t) d != flat.size()) throw std::runtime_error("driver: duplicate points in the case");
                if (t[2] == "pwc") dag_case<RuleLocal::erule::pwc>(id, (size_t) d, mset);
                else if (t[2] == "localp") dag_case<RuleLocal::erule::localp>(id, (size_t) d, mset);
                else if (t[2] == "semilocalp") dag_case<RuleLocal::erule::semilocalp>(id, (size_t) d, mset);
                else if (t[2] == "localp0") dag_case<RuleLocal::erule::localp0>(id, (size_t) d, mset);
                else if (t[2] == "localpb") dag_case<RuleLocal::erule::localpb>(id, (size_t) d, mset);
                else printf("x %s unknown effective rule\n", id.c_str());
            } else if (t[0] == "sur" && t.size() >= 5) {
                TypeOneDRule rule = IO::getRuleString(t[2]);
                int order = atoi(t[3].c_str()), d = atoi(t[4].c_str());
                auto m = keyed(t, 5);
                std::vector<int> flat = ints(m["idx:"]);
                std::vector<double> vals; for (auto &s : m["vals:"]) vals.push_back(strtod(s.c_str(), nullptr));
                if (d < 1 || flat.empty() || flat.size() % (size_t) d != 0 || vals.size() * (size_t) d != flat.size()) { printf("x %s malformed case\n", id.c_str()); continue; }
                size_t n = vals.size();
                // sort the points, keep the values with them
                std::vector<size_t> perm(n); std::iota(perm.begin(), perm.end(), 0);
                std::sort(perm.begin(), perm.end(), [&](size_t a, size_t b) { return std::lexicographical_compare(flat.begin() + a * d, flat.begin() + (a + 1) * d, flat.begin() + b * d, flat.begin() + (b + 1) * d); });
                std::vector<int> sflat; std::vector<double> svals;
                for (size_t i : perm) { sflat.insert(sflat.end(), flat.begin() + i * d, flat.begin() + (i + 1) * d); svals.push_back(vals[i]); }
                MultiIndexSet mset = make_set((size_t) d, sflat);
                if ((size_t) mset.getNumIndexes() != n) throw std::runtime_error("driver: duplicate points in the case");
                TasmanianSparseGrid grid;
                grid.makeLocalPolynomialGrid(d, 1, 0, order, rule);
                GridLocalPolynomial *g = grid.get<GridLocalPolynomial>();
                // the grid holds nothing but the given set as needed points: loadNeededValues moves it to `points` and calls recomputeSurpluses
                // (the state makeLocalPolynomialGrid leaves with a larger needed set: points empty, values sized for needed, tree of needed)
                g->points = MultiIndexSet();
                g->needed = mset;
                g->values = StorageSet();
                g->values.resize(1, (int) n);
                g->buildTree();
                grid.loadNeededValues(svals);
                if (g->points.indexes != mset.indexes) throw std::runtime_error("driver: the grid does not hold the given set");
                bool complete = true; const char *eff = "localpb";
                switch (g->effective_rule) {
                    case RuleLocal::erule::pwc: complete = complete_of<RuleLocal::erule::pwc>(mset); eff = "pwc"; break;
                    case RuleLocal::erule::localp: complete = complete_of<RuleLocal::erule::localp>(mset); eff = "localp"; break;
                    case RuleLocal::erule::semilocalp: complete = complete_of<RuleLocal::erule::semilocalp>(mset); eff = "semilocalp"; break;
                    case RuleLocal::erule::localp0: complete = complete_of<RuleLocal::erule::localp0>(mset); eff = "localp0"; break;
                    default: complete = complete_of<RuleLocal::erule::localpb>(mset); break;
                }
                std::vector<double> nodes = grid.getLoadedPoints();
                std::vector<double> xs = nodes;
                for (double v : nodes) xs.push_back(0.5 * v + 0.125);
                std::vector<double> ys; grid.evaluateBatch(xs, ys);
                const double *c = grid.getHierarchicalCoefficients();
                printf("lg %s %s %d %d 1 pidx:", id.c_str(), eff, order, d);
                for (int v : mset.indexes) printf(" %d", v);
                printf(" vals:"); for (double v : svals) printf(" %a", v);
                printf(" coef:"); for (size_t i = 0; i < n; i++) printf(" %a", c[i]);
                printf(" xs:"); for (double v : xs) printf(" %a", v);
                printf(" ys:"); for (double v : ys) printf(" %a", v);
                printf("\ns %s complete=%d n=%d\n", id.c_str(), complete ? 1 : 0, (int) n);
            }
        } catch (std::exception &e) { printf("x %s %s\n", id.c_str(), e.what()); }
        fflush(stdout);
    }
    return 0;
}
