// iodrv: driver of the C06 check (write/read round trip).  A copy of tsgdrv's script interpreter over the public
// TasmanianSparseGrid API (same commands, see harness/tsgdrv.cpp) extended by
//   make custom <s> <dims> <outs> <depth> <type> <file> [aw: i..] [ll: i..]     global grid with a custom tabulated rule read from <workdir>/<file>
//   dump <s> raw        white-box (read-only): every serialised member of the live object in the canonical field format
//                       "r <tag> <values>" that ocaml/ioformat_main.ml prints for the decoded file (ints decimal, doubles as 16 hex digits)
//   dump <s> api        the public getters as bit patterns ("a <tag> <values>")
//   digest <s> x: X..   one hash per category of the public query API (const calls only): "o dg <cat>=<hash> ..."
//   deliver <s> <fn> idx: i..   as in tsgdrv but the indexes are taken modulo the length of the remembered candidate list (duplicates dropped)
//   sync <dst> <src>    copy the driver's record of delivered points (bookkeeping of the driver, no library call)
//   digestv <s> x: X..  digest plus the numbers behind the derived categories: "o dv <cat> <n> v.."
//   cmpstream <a> <b>   "o same 0|1": two named in-memory streams are bytewise equal
//   write/read/savebytes as in tsgdrv; read ... file uses read(filename) (format auto-detection),
//   readf <s> ascii|bin <name>   opens <workdir>/<name> itself and calls read(std::ifstream&, binary)
//   writef <s> ascii|bin <name>  opens the file itself and calls write(std::ofstream&, binary)
#include <algorithm>
#include <array>
#include <cassert>
#include <cmath>
#include <complex>
#include <cstdint>
#include <cstdio>
#include <cstdlib>
#include <cstring>
#include <fstream>
#include <functional>
#include <iomanip>
#include <iostream>
#include <limits>
#include <map>
#include <memory>
#include <numeric>
#include <set>
#include <sstream>
#include <stdexcept>
#include <string>
#include <typeinfo>
#include <vector>
#include <unistd.h>
#include <signal.h>
#include <sys/wait.h>
// white-box (read-only) access to the point / needed index sets of every family
#define private public
#define protected public
#include "TasmanianSparseGrid.hpp"
#include "caselimit.hpp"
#undef private
#undef protected

using namespace TasGrid;

static std::map<std::string, TypeOneDRule> RULES = {
    {"clenshaw-curtis", rule_clenshawcurtis}, {"clenshaw-curtis-zero", rule_clenshawcurtis0}, {"chebyshev", rule_chebyshev},
    {"chebyshev-odd", rule_chebyshevodd}, {"gauss-legendre", rule_gausslegendre}, {"gauss-legendre-odd", rule_gausslegendreodd},
    {"gauss-patterson", rule_gausspatterson}, {"leja", rule_leja}, {"leja-odd", rule_lejaodd}, {"rleja", rule_rleja},
    {"rleja-odd", rule_rlejaodd}, {"rleja-double2", rule_rlejadouble2}, {"rleja-double4", rule_rlejadouble4},
    {"rleja-shifted", rule_rlejashifted}, {"rleja-shifted-even", rule_rlejashiftedeven}, {"rleja-shifted-double", rule_rlejashifteddouble},
    {"max-lebesgue", rule_maxlebesgue}, {"max-lebesgue-odd", rule_maxlebesgueodd}, {"min-lebesgue", rule_minlebesgue},
    {"min-lebesgue-odd", rule_minlebesgueodd}, {"min-delta", rule_mindelta}, {"min-delta-odd", rule_mindeltaodd},
    {"gauss-chebyshev1", rule_gausschebyshev1}, {"gauss-chebyshev1-odd", rule_gausschebyshev1odd},
    {"gauss-chebyshev2", rule_gausschebyshev2}, {"gauss-chebyshev2-odd", rule_gausschebyshev2odd}, {"fejer2", rule_fejer2},
    {"gauss-gegenbauer", rule_gaussgegenbauer}, {"gauss-gegenbauer-odd", rule_gaussgegenbauerodd},
    {"gauss-jacobi", rule_gaussjacobi}, {"gauss-jacobi-odd", rule_gaussjacobiodd}, {"gauss-laguerre", rule_gausslaguerre},
    {"gauss-laguerre-odd", rule_gausslaguerreodd}, {"gauss-hermite", rule_gausshermite}, {"gauss-hermite-odd", rule_gausshermiteodd},
    {"custom-tabulated", rule_customtabulated}, {"localp", rule_localp}, {"localp-zero", rule_localp0},
    {"localp-boundary", rule_localpb}, {"semi-localp", rule_semilocalp}, {"wavelet", rule_wavelet}, {"fourier", rule_fourier},
    {"none", rule_none}};
static std::map<std::string, TypeDepth> DEPTHS = {
    {"level", type_level}, {"curved", type_curved}, {"iptotal", type_iptotal}, {"ipcurved", type_ipcurved}, {"qptotal", type_qptotal},
    {"qpcurved", type_qpcurved}, {"hyperbolic", type_hyperbolic}, {"iphyperbolic", type_iphyperbolic}, {"qphyperbolic", type_qphyperbolic},
    {"tensor", type_tensor}, {"iptensor", type_iptensor}, {"qptensor", type_qptensor}, {"none", type_none}};
static std::map<std::string, TypeRefinement> REFS = {
    {"classic", refine_classic}, {"parents", refine_parents_first}, {"direction", refine_direction_selective}, {"fds", refine_fds},
    {"stable", refine_stable}, {"none", refine_none}};

static std::string ruleName(TypeOneDRule r) { for (auto &p : RULES) if (p.second == r) return p.first; return "unknown"; }

static void pd(const char *tag, const double *v, size_t n) { printf("o %s %zu", tag, n); for (size_t i = 0; i < n; i++) printf(" %a", v[i]); printf("\n"); }
static void pd(const char *tag, const std::vector<double> &v) { pd(tag, v.data(), v.size()); }
static void pi(const char *tag, const int *v, size_t n) { printf("o %s %zu", tag, n); for (size_t i = 0; i < n; i++) printf(" %d", v[i]); printf("\n"); }
static void pi(const char *tag, const std::vector<int> &v) { pi(tag, v.data(), v.size()); }

// ---- value functions (deterministic, also re-implemented in tools/gridlib.py) ----
static uint64_t mix(uint64_t h) { h ^= h >> 33; h *= 0xff51afd7ed558ccdULL; h ^= h >> 33; h *= 0xc4ceb9fe1a85ec53ULL; h ^= h >> 33; return h; }
static double fn_value(const std::string &fn, const double *x, int d, int j) {
    if (fn == "zero") return 0.0;
    if (fn == "one") return 1.0 + j;
    if (fn == "hash") { // small dyadic tag of the coordinates (x + 0.0 folds -0.0 into +0.0)
        uint64_t h = 0x9e3779b97f4a7c15ULL + (uint64_t) j;
        for (int i = 0; i < d; i++) { double v = x[i] + 0.0; uint64_t b; memcpy(&b, &v, 8); h = mix(h ^ b); }
        return ((double) (int64_t) (h % 4001) - 2000.0) / 64.0; }
    if (fn == "affine") { double v = 0.5 + j; for (int i = 0; i < d; i++) v += (0.25 * (i + 1) - 0.125 * j) * x[i]; return v; }
    if (fn == "poly") { double v = 1.0 + j; for (int i = 0; i < d; i++) v += (i + 1 + j) * x[i] + 0.5 * x[i] * x[i]; if (d > 1) v += x[0] * x[1]; return v; }
    if (fn == "smooth") { double s = 0, q = 0; for (int i = 0; i < d; i++) { s += x[i]; q += x[i] * x[i]; } return std::exp(-0.5 * q) * std::cos(0.3 * j + 0.7 * s) + 0.1 * j; }
    if (fn == "cosk") { double s = 0; for (int i = 0; i < d; i++) s += (i + 1) * x[i]; return std::cos(6.283185307179586 * s) + j; }
    if (fn == "peak") { double q = 0; for (int i = 0; i < d; i++) q += (x[i] - 0.3) * (x[i] - 0.3); return 1.0 / (0.05 + q) + j; }
    throw std::runtime_error("driver: unknown value function " + fn);
}
static std::vector<double> fn_values(const std::string &fn, const std::vector<double> &pts, int d, int outs) {
    size_t n = (d > 0) ? pts.size() / d : 0; std::vector<double> v(n * (size_t) outs);
    for (size_t p = 0; p < n; p++) for (int j = 0; j < outs; j++) v[p * outs + j] = fn_value(fn, pts.data() + p * d, d, j);
    return v;
}

struct Tok { std::vector<std::string> t; size_t p = 0;
    bool more() const { return p < t.size(); }
    std::string next() { if (p >= t.size()) throw std::runtime_error("driver: missing token"); return t[p++]; }
    int ni() { return atoi(next().c_str()); }
    double nd() { return strtod(next().c_str(), nullptr); }
    bool peek(const std::string &s) const { return p < t.size() && t[p] == s; }
    static bool isKey(const std::string &s) { return !s.empty() && s.back() == ':'; }
    std::vector<int> ints() { std::vector<int> v; while (more() && !isKey(t[p])) v.push_back(ni()); return v; }
    std::vector<double> dbls() { std::vector<double> v; while (more() && !isKey(t[p])) v.push_back(nd()); return v; }
    // optional keyed lists
    std::map<std::string, std::vector<std::string>> keyed() { std::map<std::string, std::vector<std::string>> m; std::string k;
        while (more()) { std::string s = next(); if (isKey(s)) { k = s; m[k]; } else if (!k.empty()) m[k].push_back(s); } return m; }
};
static std::vector<int> toInts(const std::vector<std::string> &v) { std::vector<int> r; for (auto &s : v) r.push_back(atoi(s.c_str())); return r; }
static std::vector<double> toDbls(const std::vector<std::string> &v) { std::vector<double> r; for (auto &s : v) r.push_back(strtod(s.c_str(), nullptr)); return r; }

struct Slot { TasmanianSparseGrid g; std::vector<double> cand; std::set<std::vector<double>> delivered; };   // delivered: points already handed to loadConstructedPoints (never delivered twice)
static std::map<std::string, std::unique_ptr<Slot>> slots;
static std::map<std::string, std::string> streams; // named in-memory streams
static std::string workdir = ".";
static Slot &S(const std::string &n) { auto &p = slots[n]; if (!p) p.reset(new Slot()); return *p; }

static const int MAX_POINTS = 20000;   // grids beyond this size are dropped / refinements beyond it are cleared (keeps every case within its time budget)
static void size_guard(TasmanianSparseGrid &g) { if (g.getNumNeeded() > MAX_POINTS || (g.isWavelet() && g.getNumNeeded() + g.getNumLoaded() > 2500)) {   /* wavelet grids rebuild a dense-ish interpolation matrix on every load/read */ g.clearRefinement(); throw std::runtime_error("driver: refinement too large for this check, cleared"); } }
static uint64_t dig = 0;
static void dmix(const void *p, size_t n) { const unsigned char *c = (const unsigned char *) p; for (size_t i = 0; i < n; i++) dig = mix(dig ^ c[i]) + 0x9e3779b97f4a7c15ULL; }

static void dump(Slot &s, const std::string &what) {
    TasmanianSparseGrid &g = s.g; int d = g.getNumDimensions(), outs = g.getNumOutputs();
    if (what == "meta") {
        const char *ty = g.isGlobal() ? "global" : g.isSequence() ? "sequence" : g.isLocalPolynomial() ? "localp" : g.isWavelet() ? "wavelet" : g.isFourier() ? "fourier" : "empty";
        printf("o meta type=%s dims=%d outs=%d rule=%s order=%d alpha=%a beta=%a loaded=%d needed=%d points=%d trans=%d conf=%d constr=%d\n",
               ty, d, outs, ruleName(g.getRule()).c_str(), g.getOrder(), g.getAlpha(), g.getBeta(), g.getNumLoaded(), g.getNumNeeded(),
               g.getNumPoints(), (int) g.isSetDomainTransfrom(), (int) g.isSetConformalTransformASIN(), (int) g.isUsingConstruction());
        pi("limits", g.getLevelLimits());
        if (g.isSetDomainTransfrom()) { std::vector<double> a, b; g.getDomainTransform(a, b); pd("ta", a); pd("tb", b); }
        if (g.isSetConformalTransformASIN()) pi("conformal", g.getConformalTransformASIN());
    } else if (what == "points") pd("points", g.getLoadedPoints());
    else if (what == "needed") pd("needed", g.getNeededPoints());
    else if (what == "allpoints") pd("allpoints", g.getPoints());
    else if (what == "pidx") { if (g.empty() || g.base->points.empty()) pi("pidx", nullptr, 0); else pi("pidx", g.base->points.indexes); }
    else if (what == "nidx") { if (g.empty() || g.base->needed.empty()) pi("nidx", nullptr, 0); else pi("nidx", g.base->needed.indexes); }
    else if (what == "apipidx") { if (g.empty()) pi("apipidx", nullptr, 0); else pi("apipidx", g.getPointsIndexes(), (size_t) d * g.getNumPoints()); }
    else if (what == "apinidx") { if (g.empty() || g.getNumNeeded() == 0) pi("apinidx", nullptr, 0); else pi("apinidx", g.getNeededIndexes(), (size_t) d * g.getNumNeeded()); }
    else if (what == "values") { const double *v = g.getLoadedValues(); pd("values", v, (v && outs > 0) ? (size_t) outs * g.getNumLoaded() : 0); }
    else if (what == "coef") { const double *c = (g.empty() || outs == 0 || g.getNumLoaded() == 0) ? nullptr : g.getHierarchicalCoefficients();
        size_t n = c ? (size_t) outs * g.getNumLoaded() * (g.isFourier() ? 2 : 1) : 0; pd("coef", c, n); }
    else if (what == "qw") pd("qw", g.getQuadratureWeights());
    else if (what == "polyi") pi("polyi", g.getGlobalPolynomialSpace(true));
    else if (what == "polyq") pi("polyq", g.getGlobalPolynomialSpace(false));
    else if (what == "hsupport") pd("hsupport", g.getHierarchicalSupport());
    else if (what == "hint") pd("hint", g.integrateHierarchicalFunctions());
    else if (what == "bytes") { std::ostringstream os; g.write(os, true); std::string b = os.str(); uint64_t old = dig; dig = 0; dmix(b.data(), b.size()); printf("o bytes %zu %016llx\n", b.size(), (unsigned long long) dig); dig = old; }
    else throw std::runtime_error("driver: unknown dump " + what);
}


// ---- canonical field format shared with ocaml/ioformat_main.ml ----
static std::string hx(double v) { uint64_t b; memcpy(&b, &v, 8); char buf[20]; snprintf(buf, sizeof buf, "%016llx", (unsigned long long) b); return buf; }
static std::string fm_ints(const std::vector<int> &v) { std::string r; for (int i : v) { r += " "; r += std::to_string(i); } return r; }
static std::string fm_dbls(const double *v, size_t n) { std::string r; for (size_t i = 0; i < n; i++) { r += " "; r += hx(v[i]); } return r; }
static std::string fm_dbls(const std::vector<double> &v) { return fm_dbls(v.data(), v.size()); }
static std::string fm_mset(const MultiIndexSet &m) { return " " + std::to_string((int) m.num_dimensions) + " " + std::to_string(m.cache_num_indexes) + " :" + fm_ints(m.indexes); }
static void rl(const char *tag, const std::string &v) { printf("r %s%s\n", tag, v.c_str()); }
static void rl_opt_mset(const char *tag, const MultiIndexSet &m) { if (m.empty()) rl(tag, " none"); else rl(tag, fm_mset(m)); }
static void rl_storage(int outs, const StorageSet &v) { if (outs > 0) rl("values", " " + std::to_string((int) v.num_outputs) + " " + std::to_string((int) v.num_values) + " :" + (v.values.empty() ? std::string(" none") : fm_dbls(v.values))); else rl("values", " absent"); }
template<class T> static void rl_nodes(const T &data) { std::vector<const NodeData*> v; for (auto &d : data) v.push_back(&d); std::string r = " " + std::to_string(v.size());
    for (auto it = v.rbegin(); it != v.rend(); ++it) { r += " |" + fm_ints((*it)->point) + " :" + fm_dbls((*it)->value); } rl("c.nodes", r); }
static void rl_cglobal(const DynamicConstructorDataGlobal &dv) { std::vector<const TensorData*> v; for (auto &t : dv.tensors) v.push_back(&t); std::string r = " " + std::to_string(v.size());
    for (auto it = v.rbegin(); it != v.rend(); ++it) { r += " | " + hx((*it)->weight) + " :" + fm_ints((*it)->tensor); } rl("c.tensors", r); rl_nodes(dv.data);
    int waiting = 0; for (auto &t : dv.tensors) if (t.loaded.empty()) waiting++;   // NOT serialised: tensors marked complete that wait for their parents
    printf("w complete_tensors %d\n", waiting); }
static void rl_csimple(const SimpleConstructData &dv) { rl("c.initial", fm_mset(dv.initial_points)); rl_nodes(dv.data); }
static void rl_updated(const MultiIndexSet &t, const MultiIndexSet &a, const std::vector<int> &w) {
    if (t.empty()) { rl("updated", " none"); return; } rl("updated.tensors", fm_mset(t)); rl("updated.active", fm_mset(a)); rl("updated.w", fm_ints(w)); }

static void dump_raw(TasmanianSparseGrid &g) {
    if (g.empty()) rl("type", " empty");
    else if (g.isGlobal()) { auto *b = g.get<GridGlobal>(); rl("type", " global");
        rl("dims", " " + std::to_string(b->num_dimensions)); rl("outs", " " + std::to_string(b->num_outputs));
        rl("alpha", " " + hx(b->alpha)); rl("beta", " " + hx(b->beta)); rl("rule", " " + std::to_string(IO::getRuleInt(b->rule)));
        if (b->rule == rule_customtabulated) { const CustomTabulated &c = b->custom; std::string d; for (unsigned char ch : c.description) { d += " "; d += std::to_string((int) ch); }
            rl("custom.desc", d); rl("custom.nodes", fm_ints(c.num_nodes)); rl("custom.prec", fm_ints(c.precision)); std::string t;
            for (int l = 0; l < c.num_levels; l++) { t += " |" + fm_dbls(c.weights[l]) + " :" + fm_dbls(c.nodes[l]); } rl("custom.tab", t); }
        else rl("custom", " none");
        rl("tensors", fm_mset(b->tensors)); rl("active", fm_mset(b->active_tensors)); rl("active_w", fm_ints(b->active_w));
        rl_opt_mset("points", b->points); rl_opt_mset("needed", b->needed); rl("max_levels", fm_ints(b->max_levels)); rl_storage(b->num_outputs, b->values);
        rl_updated(b->updated_tensors, b->updated_active_tensors, b->updated_active_w);
        if (g.using_dynamic_construction) rl_cglobal(*b->dynamic_values); }
    else if (g.isSequence()) { auto *b = g.get<GridSequence>(); rl("type", " sequence");
        rl("dims", " " + std::to_string(b->num_dimensions)); rl("outs", " " + std::to_string(b->num_outputs)); rl("rule", " " + std::to_string(IO::getRuleInt(b->rule)));
        rl_opt_mset("points", b->points); rl_opt_mset("needed", b->needed);
        if (b->surpluses.empty()) rl("coef", " none"); else rl("coef", fm_dbls(b->surpluses.vec)); rl_storage(b->num_outputs, b->values);
        if (g.using_dynamic_construction) rl_csimple(*b->dynamic_values); }
    else if (g.isLocalPolynomial()) { auto *b = g.get<GridLocalPolynomial>(); rl("type", " localp");
        rl("dims", " " + std::to_string(b->num_dimensions)); rl("outs", " " + std::to_string(b->num_outputs)); rl("order", " " + std::to_string(b->order));
        rl("top", " " + std::to_string(b->top_level)); rl("rule", " " + std::to_string(IO::getRuleInt(RuleLocal::getRule(b->effective_rule))));
        rl_opt_mset("points", b->points); rl_opt_mset("needed", b->needed);
        if (b->surpluses.empty()) rl("coef", " none"); else rl("coef", fm_dbls(b->surpluses.vec));
        if (b->parents.empty()) rl("parents", " none"); else rl("parents", fm_ints(b->parents.vec));
        rl("roots", fm_ints(b->roots)); if (b->roots.empty()) { rl("pntr", ""); rl("indx", ""); } else { rl("pntr", fm_ints(b->pntr)); rl("indx", fm_ints(b->indx)); }
        rl_storage(b->num_outputs, b->values);
        if (g.using_dynamic_construction) rl_csimple(*b->dynamic_values); }
    else if (g.isWavelet()) { auto *b = g.get<GridWavelet>(); rl("type", " wavelet");
        rl("dims", " " + std::to_string(b->num_dimensions)); rl("outs", " " + std::to_string(b->num_outputs)); rl("order", " " + std::to_string(b->order));
        rl_opt_mset("points", b->points); rl_opt_mset("needed", b->needed);
        if (b->coefficients.empty()) rl("coef", " none"); else rl("coef", fm_dbls(b->coefficients.vec)); rl_storage(b->num_outputs, b->values);
        if (g.using_dynamic_construction) rl_csimple(*b->dynamic_values); }
    else { auto *b = g.get<GridFourier>(); rl("type", " fourier");
        rl("dims", " " + std::to_string(b->num_dimensions)); rl("outs", " " + std::to_string(b->num_outputs));
        rl("tensors", fm_mset(b->tensors)); rl("active", fm_mset(b->active_tensors)); rl("active_w", fm_ints(b->active_w));
        rl_opt_mset("points", b->points); rl_opt_mset("needed", b->needed); rl("max_levels", fm_ints(b->max_levels)); rl_storage(b->num_outputs, b->values);
        if (b->num_outputs > 0) { if (b->fourier_coefs.empty()) rl("coef", " none"); else rl("coef", fm_dbls(b->fourier_coefs.vec)); } else rl("coef", " absent");
        rl_updated(b->updated_tensors, b->updated_active_tensors, b->updated_active_w);
        if (g.using_dynamic_construction) rl_cglobal(*b->dynamic_values); }
    if (g.domain_transform_a.empty()) rl("transform", " none"); else { rl("ta", fm_dbls(g.domain_transform_a)); rl("tb", fm_dbls(g.domain_transform_b)); }
    if (g.conformal_asin_power.empty()) rl("conformal", " none"); else rl("conformal", fm_ints(g.conformal_asin_power));
    if (g.llimits.empty()) rl("limits", " none"); else rl("limits", fm_ints(g.llimits));
    rl("constr", g.using_dynamic_construction ? " 1" : " 0");
}

static void al(const char *tag, const std::string &v) { printf("a %s%s\n", tag, v.c_str()); }
static void dump_api(TasmanianSparseGrid &g) {
    const char *ty = g.isGlobal() ? "global" : g.isSequence() ? "sequence" : g.isLocalPolynomial() ? "localp" : g.isWavelet() ? "wavelet" : g.isFourier() ? "fourier" : "empty";
    int d = g.getNumDimensions(), outs = g.getNumOutputs();
    al("type", std::string(" ") + ty); al("dims", " " + std::to_string(d)); al("outs", " " + std::to_string(outs));
    al("rule", " " + std::to_string(IO::getRuleInt(g.getRule()))); al("order", " " + std::to_string(g.getOrder()));
    al("alpha", " " + hx(g.getAlpha())); al("beta", " " + hx(g.getBeta()));
    al("loaded", " " + std::to_string(g.getNumLoaded())); al("needed", " " + std::to_string(g.getNumNeeded())); al("npoints", " " + std::to_string(g.getNumPoints()));
    if (!g.empty() && g.getNumPoints() > 0) { const int *p = g.getPointsIndexes(); al("pidx", fm_ints(std::vector<int>(p, p + (size_t) d * g.getNumPoints()))); } else if (!g.empty()) al("pidx", "");
    if (g.isLocalPolynomial() && g.getNumNeeded() > 0) { const int *p = g.getNeededIndexes(); al("nidx", fm_ints(std::vector<int>(p, p + (size_t) d * g.getNumNeeded()))); }
    { const double *v = (outs > 0 && g.getNumLoaded() > 0) ? g.getLoadedValues() : nullptr; al("values", v ? fm_dbls(v, (size_t) outs * g.getNumLoaded()) : std::string("")); }   // (the getter indexes an empty vector otherwise)
    { const double *c = (g.empty() || outs == 0 || g.getNumLoaded() == 0) ? nullptr : g.getHierarchicalCoefficients();
      al("coef", c ? fm_dbls(c, (size_t) outs * g.getNumLoaded() * (g.isFourier() ? 2 : 1)) : std::string("")); }
    if (g.isSetDomainTransfrom()) { std::vector<double> a, b; g.getDomainTransform(a, b); al("ta", fm_dbls(a)); al("tb", fm_dbls(b)); } else al("transform", " none");
    if (g.isSetConformalTransformASIN()) al("conformal", fm_ints(g.getConformalTransformASIN())); else al("conformal", " none");
    { auto ll = g.getLevelLimits(); bool any = false; for (int v : ll) if (v != -1) any = true; al("limits", fm_ints(ll)); (void) any; }
    al("constr", g.isUsingConstruction() ? " 1" : " 0");
    if (g.isGlobal() && g.getRule() == rule_customtabulated) al("customdesc", std::string(" ") + g.getCustomRuleDescription());
}

// ---- digest of the public query API, one hash per category (const calls only) ----
static std::string hcat(const std::function<void()> &f) {
    uint64_t old = dig; dig = 0x1234; std::string r;
    try { f(); char buf[20]; snprintf(buf, sizeof buf, "%016llx", (unsigned long long) dig); r = buf; }
    catch (std::invalid_argument &) { r = "x:invalid_argument"; } catch (std::runtime_error &) { r = "x:runtime_error"; } catch (std::exception &) { r = "x:other"; }
    dig = old; return r;
}
static std::vector<double> dvbuf; static bool dvrec = false;
static void dv(const std::vector<double> &v) { size_t n = v.size(); dmix(&n, sizeof n); if (n) dmix(v.data(), n * sizeof(double)); if (dvrec) dvbuf.insert(dvbuf.end(), v.begin(), v.end()); }
static void dvi(const std::vector<int> &v) { size_t n = v.size(); dmix(&n, sizeof n); if (n) dmix(v.data(), n * sizeof(int)); }
static void digest(Slot &s, const std::vector<double> &x, bool verbose) {
    const TasmanianSparseGrid &g = s.g; int d = g.getNumDimensions(), outs = g.getNumOutputs(); size_t nx = d ? x.size() / d : 0;
    bool canev = (!g.empty() && outs > 0 && g.getNumLoaded() > 0);
    bool haspts = (!g.empty() && g.getNumPoints() > 0);   // the weight getters crash on a grid under construction that has no point yet
    std::vector<std::pair<std::string, std::string>> c;
    c.push_back({"meta", hcat([&]() { int t = g.isGlobal() ? 1 : g.isSequence() ? 2 : g.isLocalPolynomial() ? 3 : g.isWavelet() ? 4 : g.isFourier() ? 5 : 0;
        std::vector<int> m = {t, d, outs, (int) g.getRule(), g.getOrder(), g.getNumLoaded(), g.getNumNeeded(), g.getNumPoints(), (int) g.isSetDomainTransfrom(),
                              (int) g.isSetConformalTransformASIN(), (int) g.isUsingConstruction(), (int) g.empty()}; dvi(m); dv({g.getAlpha(), g.getBeta()});
        if (g.isGlobal() && g.getRule() == rule_customtabulated) { std::string ds = g.getCustomRuleDescription(); dmix(ds.data(), ds.size()); } })});
    c.push_back({"points", hcat([&]() { if (!g.empty()) dv(g.getPoints()); })});   // the getters dereference a null base on an empty grid
    c.push_back({"loaded", hcat([&]() { if (!g.empty() && g.getNumLoaded() > 0) dv(g.getLoadedPoints()); })});   // getLoadedPoints() overruns its buffer when outputs == 0
    c.push_back({"needed", hcat([&]() { if (!g.empty()) dv(g.getNeededPoints()); })});
    c.push_back({"pidx", hcat([&]() { if (!g.empty() && g.getNumPoints() > 0) { const int *p = g.getPointsIndexes(); dvi(std::vector<int>(p, p + (size_t) d * g.getNumPoints())); } })});
    c.push_back({"values", hcat([&]() { if (canev) { const double *v = g.getLoadedValues(); dv(std::vector<double>(v, v + (size_t) outs * g.getNumLoaded())); } })});
    c.push_back({"coef", hcat([&]() { if (canev) { const double *p = g.getHierarchicalCoefficients(); dv(std::vector<double>(p, p + (size_t) outs * g.getNumLoaded() * (g.isFourier() ? 2 : 1))); } })});
    c.push_back({"qw", hcat([&]() { if (haspts) dv(g.getQuadratureWeights()); })});
    c.push_back({"iw", hcat([&]() { if (haspts) for (size_t i = 0; i < nx; i++) dv(g.getInterpolationWeights(std::vector<double>(x.begin() + i * d, x.begin() + (i + 1) * d))); })});
    c.push_back({"eval", hcat([&]() { if (canev) for (size_t i = 0; i < nx; i++) { std::vector<double> y; g.evaluate(std::vector<double>(x.begin() + i * d, x.begin() + (i + 1) * d), y); dv(y); } })});
    c.push_back({"evalb", hcat([&]() { if (canev && nx > 0) { std::vector<double> y; g.evaluateBatch(x, y); dv(y); } })});
    c.push_back({"integ", hcat([&]() { if (canev) { std::vector<double> q; g.integrate(q); dv(q); } })});
    c.push_back({"diff", hcat([&]() { if (canev && nx > 0) { std::vector<double> j; g.differentiate(std::vector<double>(x.begin(), x.begin() + d), j); dv(j); } })});
    c.push_back({"hbasis", hcat([&]() { if (!g.empty() && nx > 0 && g.getNumPoints() > 0) { std::vector<double> y; g.evaluateHierarchicalFunctions(x, y); dv(y); } })});
    c.push_back({"hsupport", hcat([&]() { if (!g.empty() && g.getNumPoints() > 0) dv(g.getHierarchicalSupport()); })});
    c.push_back({"poly", hcat([&]() { if ((g.isGlobal() || g.isSequence()) && haspts && !g.isUsingConstruction()) dvi(g.getGlobalPolynomialSpace(true)); })});   // crashes on a constructing grid without tensors
    c.push_back({"trans", hcat([&]() { if (g.isSetDomainTransfrom()) { std::vector<double> a, b; g.getDomainTransform(a, b); dv(a); dv(b); } })});
    c.push_back({"conformal", hcat([&]() { if (g.isSetConformalTransformASIN()) dvi(g.getConformalTransformASIN()); })});
    c.push_back({"limits", hcat([&]() { dvi(g.getLevelLimits()); })});
    c.push_back({"bin", hcat([&]() { std::ostringstream os(std::ios::out | std::ios::binary); g.write(os, true); std::string b = os.str(); dmix(b.data(), b.size()); })});
    c.push_back({"ascii", hcat([&]() { std::ostringstream os; g.write(os, false); std::string b = os.str(); dmix(b.data(), b.size()); })});
    printf("o dg"); for (auto &p : c) printf(" %s=%s", p.first.c_str(), p.second.c_str()); printf("\n");
    if (verbose) { // the numbers behind the derived categories (recomputed from rebuilt caches), for comparisons with a tolerance
        static const char *derived[] = {"qw", "iw", "eval", "evalb", "integ", "diff", "hbasis", "hsupport"};
        // recompute category by category with recording switched on
        std::vector<std::pair<std::string, std::function<void()>>> again = {
            {"qw", [&]() { if (haspts) dv(g.getQuadratureWeights()); }},
            {"iw", [&]() { if (haspts) for (size_t i = 0; i < nx; i++) dv(g.getInterpolationWeights(std::vector<double>(x.begin() + i * d, x.begin() + (i + 1) * d))); }},
            {"eval", [&]() { if (canev) for (size_t i = 0; i < nx; i++) { std::vector<double> y; g.evaluate(std::vector<double>(x.begin() + i * d, x.begin() + (i + 1) * d), y); dv(y); } }},
            {"evalb", [&]() { if (canev && nx > 0) { std::vector<double> y; g.evaluateBatch(x, y); dv(y); } }},
            {"integ", [&]() { if (canev) { std::vector<double> q; g.integrate(q); dv(q); } }},
            {"diff", [&]() { if (canev && nx > 0) { std::vector<double> j; g.differentiate(std::vector<double>(x.begin(), x.begin() + d), j); dv(j); } }},
            {"hbasis", [&]() { if (!g.empty() && nx > 0 && g.getNumPoints() > 0) { std::vector<double> y; g.evaluateHierarchicalFunctions(x, y); dv(y); } }},
            {"hsupport", [&]() { if (!g.empty() && g.getNumPoints() > 0) dv(g.getHierarchicalSupport()); }}};
        (void) derived;
        for (auto &a : again) { dvbuf.clear(); dvrec = true; std::string h = hcat(a.second); dvrec = false; printf("o dv %s %zu", a.first.c_str(), dvbuf.size()); for (double v : dvbuf) printf(" %a", v); printf("\n"); }
    }
}

static void run_line(const std::string &line) {
    Tok k; { std::istringstream ss(line); std::string t; while (ss >> t) k.t.push_back(t); }
    if (k.t.empty() || k.t[0][0] == '#') return;
    std::string cmd = k.next();
    if (cmd == "case") { slots.clear(); streams.clear(); printf("case %s\n", k.next().c_str()); return; }
    printf("c %s\n", line.c_str()); fflush(stdout);
    if (cmd == "make") {
        std::string fam = k.next(); Slot &s = S(k.next()); int d = k.ni(), outs = k.ni(), depth = k.ni();
        if (fam == "global" || fam == "sequence") { TypeDepth ty = DEPTHS.at(k.next()); TypeOneDRule r = RULES.at(k.next()); auto m = k.keyed();
            std::vector<int> aw = toInts(m["aw:"]), ll = toInts(m["ll:"]); double al = 0, be = 0; if (m.count("ab:")) { auto ab = toDbls(m["ab:"]); al = ab[0]; be = ab[1]; }
            if (fam == "global") s.g.makeGlobalGrid(d, outs, depth, ty, r, aw, al, be, nullptr, ll); else s.g.makeSequenceGrid(d, outs, depth, ty, r, aw, ll); }
        else if (fam == "custom") { TypeDepth ty = DEPTHS.at(k.next()); std::string file = workdir + "/" + k.next(); auto m = k.keyed();
            s.g.makeGlobalGrid(d, outs, depth, ty, rule_customtabulated, toInts(m["aw:"]), 0.0, 0.0, file.c_str(), toInts(m["ll:"])); }
        else if (fam == "localp") { int order = k.ni(); TypeOneDRule r = RULES.at(k.next()); auto m = k.keyed(); s.g.makeLocalPolynomialGrid(d, outs, depth, order, r, toInts(m["ll:"])); }
        else if (fam == "wavelet") { int order = k.ni(); auto m = k.keyed(); s.g.makeWaveletGrid(d, outs, depth, order, toInts(m["ll:"])); }
        else if (fam == "fourier") { TypeDepth ty = DEPTHS.at(k.next()); auto m = k.keyed(); s.g.makeFourierGrid(d, outs, depth, ty, toInts(m["aw:"]), toInts(m["ll:"])); }
        else throw std::runtime_error("driver: unknown family");
        s.cand.clear(); s.delivered.clear();
        if (s.g.getNumPoints() > MAX_POINTS) { s.g = TasmanianSparseGrid(); throw std::runtime_error("driver: grid too large for this check, dropped"); }
    }
    else if (cmd == "trans") { Slot &s = S(k.next()); auto m = k.keyed(); s.g.setDomainTransform(toDbls(m["a:"]), toDbls(m["b:"])); }
    else if (cmd == "cleartrans") S(k.next()).g.clearDomainTransform();
    else if (cmd == "conformal") { Slot &s = S(k.next()); s.g.setConformalTransformASIN(k.ints()); }
    else if (cmd == "clearconformal") S(k.next()).g.clearConformalTransform();
    else if (cmd == "clearlimits") S(k.next()).g.clearLevelLimits();
    else if (cmd == "load") { Slot &s = S(k.next()); std::string fn = k.next(); TasmanianSparseGrid &g = s.g;
        std::vector<double> pts = (g.getNumNeeded() > 0) ? g.getNeededPoints() : g.getLoadedPoints();
        g.loadNeededValues(fn_values(fn, pts, g.getNumDimensions(), g.getNumOutputs())); }
    else if (cmd == "loadraw") { Slot &s = S(k.next()); s.g.loadNeededValues(k.dbls()); }
    else if (cmd == "refsurp") { Slot &s = S(k.next()); double tol = k.nd(); TypeRefinement cr = REFS.at(k.next()); int out = k.ni(); auto m = k.keyed();
        std::vector<int> ll = toInts(m["ll:"]); std::string sc = m.count("scale:") ? m["scale:"][0] : "none"; std::string ov = m.count("ov:") ? m["ov:"][0] : "vec";
        TasmanianSparseGrid &g = s.g; std::vector<double> scale;
        if (sc != "none") { size_t n = (size_t) g.getNumLoaded() * (size_t) ((out == -1) ? g.getNumOutputs() : 1); if (sc == "bad") n += 1; scale.resize(n);
            for (size_t i = 0; i < n; i++) scale[i] = (sc == "ones") ? 1.0 : (sc == "half") ? 0.5 : ((double) (mix(i + 17) % 1000) / 500.0); }
        if (ov == "vec") g.setSurplusRefinement(tol, cr, out, ll, scale);
        else g.setSurplusRefinement(tol, cr, out, ll.empty() ? nullptr : ll.data(), scale.empty() ? nullptr : scale.data());
        size_guard(g); }
    else if (cmd == "refsimple") { Slot &s = S(k.next()); double tol = k.nd(); int out = k.ni(); auto m = k.keyed(); s.g.setSurplusRefinement(tol, out, toInts(m["ll:"])); size_guard(s.g); }
    else if (cmd == "refaniso") { Slot &s = S(k.next()); TypeDepth ty = DEPTHS.at(k.next()); int mg = k.ni(); int out = k.ni(); auto m = k.keyed(); s.g.setAnisotropicRefinement(ty, mg, out, toInts(m["ll:"])); size_guard(s.g); }
    else if (cmd == "update") { Slot &s = S(k.next()); int depth = k.ni(); TypeDepth ty = DEPTHS.at(k.next()); auto m = k.keyed(); s.g.updateGrid(depth, ty, toInts(m["aw:"]), toInts(m["ll:"])); if (s.g.getNumPoints() > MAX_POINTS && s.g.getNumLoaded() == 0) { s.g = TasmanianSparseGrid(); throw std::runtime_error("driver: grid too large for this check, dropped"); } size_guard(s.g); }
    else if (cmd == "merge") S(k.next()).g.mergeRefinement();
    else if (cmd == "clearref") S(k.next()).g.clearRefinement();
    else if (cmd == "setcoef") { Slot &s = S(k.next()); std::string fn = k.next(); TasmanianSparseGrid &g = s.g;
        std::vector<double> c = fn_values(fn, g.getPoints(), g.getNumDimensions(), g.getNumOutputs());
        if (g.isFourier()) { std::vector<double> cc(2 * c.size(), 0.0); std::copy(c.begin(), c.end(), cc.begin()); for (size_t i = 0; i < c.size(); i++) cc[c.size() + i] = 0.25 * c[i]; c = cc; }
        g.setHierarchicalCoefficients(c); }
    else if (cmd == "remtol") { Slot &s = S(k.next()); double tol = k.nd(); int out = k.ni(); s.g.removePointsByHierarchicalCoefficient(tol, out); }
    else if (cmd == "remcount") { Slot &s = S(k.next()); int n = k.ni(); int out = k.ni(); s.g.removePointsByHierarchicalCoefficient(n, out); }
    else if (cmd == "begin") { Slot &s = S(k.next()); s.g.beginConstruction(); s.delivered.clear(); }
    else if (cmd == "sync") { Slot &dst = S(k.next()); Slot &src = S(k.next()); dst.delivered = src.delivered; }   // driver bookkeeping only
    else if (cmd == "finish") S(k.next()).g.finishConstruction();
    else if (cmd == "cand") { Slot &s = S(k.next()); std::string kind = k.next(); s.cand.clear();   // a call that throws leaves no remembered list (same on original and restored slots)
        if (kind == "aw") { TypeDepth ty = DEPTHS.at(k.next()); auto m = k.keyed(); s.cand = s.g.getCandidateConstructionPoints(ty, toInts(m["aw:"]), toInts(m["ll:"])); }
        else if (kind == "out") { TypeDepth ty = DEPTHS.at(k.next()); int out = k.ni(); auto m = k.keyed(); s.cand = s.g.getCandidateConstructionPoints(ty, out, toInts(m["ll:"])); }
        else { double tol = k.nd(); TypeRefinement cr = REFS.at(k.next()); int out = k.ni(); auto m = k.keyed(); s.cand = s.g.getCandidateConstructionPoints(tol, cr, out, toInts(m["ll:"])); }
        pd("cand", s.cand); }
    else if (cmd == "deliver") { Slot &s = S(k.next()); std::string fn = k.next(); auto m = k.keyed(); std::vector<int> idx = toInts(m["idx:"]);
        int d = s.g.getNumDimensions(); std::vector<double> x;
        size_t nc = d ? s.cand.size() / d : 0; if (nc == 0) throw std::runtime_error("driver: no candidates to deliver");   // indexes are taken modulo the list length
        for (int i : idx) { size_t j = (size_t) i % nc; std::vector<double> pt(s.cand.begin() + j * d, s.cand.begin() + (j + 1) * d);
            if (!s.delivered.insert(pt).second) continue; x.insert(x.end(), pt.begin(), pt.end()); }
        if (x.empty()) throw std::runtime_error("driver: every selected candidate was delivered before");
        s.g.loadConstructedPoints(x, fn_values(fn, x, d, s.g.getNumOutputs())); }
    else if (cmd == "deliverx") { Slot &s = S(k.next()); std::string fn = k.next(); auto m = k.keyed(); std::vector<double> x0 = toDbls(m["x:"]), x; size_t d = (size_t) s.g.getNumDimensions();
        for (size_t i = 0; d && i + d <= x0.size(); i += d) { std::vector<double> pt(x0.begin() + i, x0.begin() + i + d); if (s.delivered.insert(pt).second) x.insert(x.end(), pt.begin(), pt.end()); }
        if (x.empty()) throw std::runtime_error("driver: every selected point was delivered before");
        s.g.loadConstructedPoints(x, fn_values(fn, x, s.g.getNumDimensions(), s.g.getNumOutputs())); }
    else if (cmd == "copy") { Slot &dst = S(k.next()); Slot &src = S(k.next()); if (k.more()) { int b = k.ni(), e = k.ni(); dst.g.copyGrid(src.g, b, e); } else dst.g.copyGrid(src.g); dst.cand = src.cand; dst.delivered = src.delivered; }
    else if (cmd == "assign") { Slot &dst = S(k.next()); Slot &src = S(k.next()); dst.g = src.g; dst.cand = src.cand; dst.delivered = src.delivered; }
    else if (cmd == "cctor") { std::string dn = k.next(); Slot &src = S(k.next()); std::unique_ptr<Slot> n(new Slot{TasmanianSparseGrid(src.g), src.cand, src.delivered}); slots[dn] = std::move(n); }
    else if (cmd == "write") { Slot &s = S(k.next()); bool bin = (k.next() == "bin"); std::string how = k.next(), name = k.next();
        if (how == "file") s.g.write((workdir + "/" + name).c_str(), bin);
        else { std::ostringstream os(std::ios::out | std::ios::binary); s.g.write(os, bin); streams[name] = os.str(); }
        std::string data; if (how == "file") { std::ifstream f(workdir + "/" + name, std::ios::binary); std::ostringstream b; b << f.rdbuf(); data = b.str(); } else data = streams[name];
        uint64_t old = dig; dig = 0; dmix(data.data(), data.size()); printf("o written %zu %016llx\n", data.size(), (unsigned long long) dig); dig = old; }
    else if (cmd == "read") { Slot &s = S(k.next()); bool bin = (k.next() == "bin"); std::string how = k.next(), name = k.next();
        if (how == "file") s.g.read((workdir + "/" + name).c_str());
        else { std::istringstream is(streams.at(name), std::ios::in | std::ios::binary); s.g.read(is, bin); } s.cand.clear(); }
    else if (cmd == "savebytes") { // save the binary/ascii image of the grid into a file for external decoding
        Slot &s = S(k.next()); bool bin = (k.next() == "bin"); std::string name = k.next(); std::ofstream f(workdir + "/" + name, std::ios::binary); s.g.write(f, bin); }
    else if (cmd == "dump") { Slot &s = S(k.next()); while (k.more()) { std::string w = k.next(); if (w == "raw") dump_raw(s.g); else if (w == "api") dump_api(s.g); else dump(s, w); } }
    else if (cmd == "digest" || cmd == "digestv") { Slot &s = S(k.next()); auto m = k.keyed(); digest(s, toDbls(m["x:"]), cmd == "digestv"); }
    else if (cmd == "cmpstream") { std::string a = k.next(), b = k.next(); printf("o same %d\n", (int) (streams.at(a) == streams.at(b))); }
    else if (cmd == "readf") { Slot &s = S(k.next()); bool bin = (k.next() == "bin"); std::string name = workdir + "/" + k.next();
        std::ifstream f; if (bin) f.open(name, std::ios::in | std::ios::binary); else f.open(name); if (!f.good()) throw std::runtime_error("driver: cannot open " + name); s.g.read(f, bin); s.cand.clear(); }
    else if (cmd == "writef") { Slot &s = S(k.next()); bool bin = (k.next() == "bin"); std::string name = workdir + "/" + k.next();
        std::ofstream f; if (bin) f.open(name, std::ios::out | std::ios::binary); else f.open(name); s.g.write(f, bin); }
    else if (cmd == "iw") { Slot &s = S(k.next()); auto m = k.keyed(); pd("iw", s.g.getInterpolationWeights(toDbls(m["x:"]))); }
    else if (cmd == "dw") { Slot &s = S(k.next()); auto m = k.keyed(); pd("dw", s.g.getDifferentiationWeights(toDbls(m["x:"]))); }
    else if (cmd == "eval") { Slot &s = S(k.next()); auto m = k.keyed(); std::vector<double> x = toDbls(m["x:"]); int d = s.g.getNumDimensions(), o = s.g.getNumOutputs();
        size_t n = d ? x.size() / d : 0; std::vector<double> all; for (size_t i = 0; i < n; i++) { std::vector<double> xi(x.begin() + i * d, x.begin() + (i + 1) * d), y; s.g.evaluate(xi, y); all.insert(all.end(), y.begin(), y.end()); }
        (void) o; pd("eval", all); }
    else if (cmd == "evalb") { Slot &s = S(k.next()); auto m = k.keyed(); std::vector<double> x = toDbls(m["x:"]), y; s.g.evaluateBatch(x, y); pd("evalb", y); }
    else if (cmd == "evalf") { Slot &s = S(k.next()); auto m = k.keyed(); std::vector<double> x = toDbls(m["x:"]); int d = s.g.getNumDimensions();
        size_t n = d ? x.size() / d : 0; std::vector<double> all; for (size_t i = 0; i < n; i++) { std::vector<double> xi(x.begin() + i * d, x.begin() + (i + 1) * d), y; s.g.evaluateFast(xi, y); all.insert(all.end(), y.begin(), y.end()); }
        pd("evalf", all); }
    else if (cmd == "evalpts") { // evaluate / evaluateBatch / evaluateFast at every loaded point
        Slot &s = S(k.next()); TasmanianSparseGrid &g = s.g; std::vector<double> x = g.getLoadedPoints(), yb; int d = g.getNumDimensions();
        g.evaluateBatch(x, yb); pd("evalb", yb); size_t n = d ? x.size() / d : 0; std::vector<double> all, allf;
        for (size_t i = 0; i < n; i++) { std::vector<double> xi(x.begin() + i * d, x.begin() + (i + 1) * d), y, yf; g.evaluate(xi, y); all.insert(all.end(), y.begin(), y.end()); g.evaluateFast(xi, yf); allf.insert(allf.end(), yf.begin(), yf.end()); }
        pd("eval", all); pd("evalf", allf); }
    else if (cmd == "integ") { Slot &s = S(k.next()); std::vector<double> q; s.g.integrate(q); pd("integ", q); }
    else if (cmd == "diff") { Slot &s = S(k.next()); auto m = k.keyed(); std::vector<double> x = toDbls(m["x:"]), j; s.g.differentiate(x, j); pd("diff", j); }
    else if (cmd == "hbasis") { Slot &s = S(k.next()); auto m = k.keyed(); std::vector<double> x = toDbls(m["x:"]), y; s.g.evaluateHierarchicalFunctions(x, y); pd("hbasis", y); }
    else if (cmd == "hsparse") { Slot &s = S(k.next()); auto m = k.keyed(); std::vector<double> x = toDbls(m["x:"]), v; std::vector<int> pn, ix; s.g.evaluateSparseHierarchicalFunctions(x, pn, ix, v); pi("hsp_pntr", pn); pi("hsp_indx", ix); pd("hsp_vals", v); }
    else if (cmd == "inside") { Slot &s = S(k.next()); auto m = k.keyed(); std::vector<double> x = toDbls(m["x:"]); int d = s.g.getNumDimensions(); auto ins = s.g.getDomainInside();
        std::vector<int> r; for (size_t i = 0; d && i + d <= x.size(); i += d) r.push_back(ins(std::vector<double>(x.begin() + i, x.begin() + i + d)) ? 1 : 0); pi("inside", r); }
    else if (cmd == "estaniso") { Slot &s = S(k.next()); TypeDepth ty = DEPTHS.at(k.next()); int out = k.ni(); pi("estaniso", s.g.estimateAnisotropicCoefficients(ty, out)); }
    else throw std::runtime_error("driver: unknown command " + cmd);
}

static void run_guarded(const std::string &line) {
    try { run_line(line); }
    catch (std::invalid_argument &e) { printf("x invalid_argument %s\n", e.what()); }
    catch (std::runtime_error &e) { if (strncmp(e.what(), "driver:", 7) == 0) printf("x driver %s\n", e.what()); else printf("x runtime_error %s\n", e.what()); }
    catch (std::out_of_range &e) { printf("x driver out_of_range %s\n", e.what()); }
    catch (std::exception &e) { printf("x other:%s %s\n", typeid(e).name(), e.what()); }
    fflush(stdout);
}

// Every case runs in its own child process under a CPU-time alarm, so that a crash or a call that does not
// return is an observation about that case ("x crash:<signal>" / "x hang") and the other cases still run.
int main(int argc, char **argv) {
    if (argc < 2) { fprintf(stderr, "usage: tsgdrv script [workdir] [case-timeout-seconds]\n"); return 2; }
    if (argc > 2) workdir = argv[2];
    int case_timeout = (argc > 3) ? atoi(argv[3]) : 20;
    std::ifstream in(argv[1]); std::string line;
    std::vector<std::vector<std::string>> cases; 
    while (std::getline(in, line)) {
        if (line.compare(0, 5, "case ") == 0 || cases.empty()) cases.emplace_back();
        cases.back().push_back(line);
    }
    for (auto &c : cases) {
        fflush(stdout);
        pid_t pid = fork();
        if (pid == 0) {
            verif_case_limit(case_timeout);
            for (auto &l : c) run_guarded(l);
            fflush(stdout);
            _exit(0);
        }
        int status = 0; waitpid(pid, &status, 0);
        if (WIFSIGNALED(status)) {
            if (verif_is_timeout(WTERMSIG(status))) printf("\nx hang no return within %d s\n", case_timeout);
            else printf("\nx crash:%d terminated by signal\n", WTERMSIG(status));
        } else if (WIFEXITED(status) && WEXITSTATUS(status) != 0) printf("\nx crash:exit%d abnormal exit\n", WEXITSTATUS(status));
        fflush(stdout);
    }
    return 0;
}
