// transdrv: white-box driver (read-only, #define private public) for the private domain-transform routines of
// TasmanianSparseGrid that harness/tsgdrv.cpp cannot reach at arbitrary points (C10):
//   mapCanonicalToTransformed, mapTransformedToCanonical<double>, diffCanonicalTransform<double>, getQuadratureScale,
//   mapConformalCanonicalToTransformed, mapConformalTransformedToCanonical<double>, mapConformalWeights,
// together with the public getDomainInside / getHierarchicalSupport on the same grid.
// Input: case file (argv[1]), optional per-case CPU limit in seconds (argv[2], default 10).  Every case runs in a forked child.
//   case <id>
//   unit <rule> <dims> <alpha> <beta> a: a.. b: b.. x: x..
//        a grid whose getRule() is <rule> (global / fourier / localp / wavelet as appropriate), transform (a,b);
//        x = strips of <dims> coordinates.  Output:
//          o fwd   mapCanonicalToTransformed(x)          o inv   mapTransformedToCanonical(x)
//          o jac   diffCanonicalTransform()              o qscale getQuadratureScale()
//          o inside  getDomainInside()(strip) with the transform      o cinside  the same after clearDomainTransform()
//          o hsup  first strip of getHierarchicalSupport() with the transform    o chsup  without
//          o pfwd  public route: getPoints() with the transform      o cpts  getPoints() without
//   conf <dims> <depth> t: t.. x: x..
//        local polynomial grid (dims, depth, order 1) with setConformalTransformASIN(t); x = strips in the canonical domain
//          o cfwd  forward map of x     o cinv  inverse map of cfwd     o cinvx  inverse map of x     o cfwdinv  forward of cinvx
//          o cwpts canonical grid points   o cw  mapConformalWeights applied to a vector of ones
// doubles are printed with %a
#include <algorithm>
#include <array>
#include <cassert>
#include <cmath>
#include <complex>
#include <cstdint>
#include <cstdio>
#include <cstdlib>
#include <cstring>
#include <fstream>
#include <functional>
#include <iomanip>
#include <iostream>
#include <limits>
#include <map>
#include <memory>
#include <numeric>
#include <set>
#include <sstream>
#include <stdexcept>
#include <string>
#include <typeinfo>
#include <vector>
#include <unistd.h>
#include <signal.h>
#include <sys/wait.h>
#define private public
#define protected public
#include "TasmanianSparseGrid.hpp"
#include "caselimit.hpp"
#undef private
#undef protected

using namespace TasGrid;

static std::map<std::string, TypeOneDRule> RULES = {
    {"clenshaw-curtis", rule_clenshawcurtis}, {"clenshaw-curtis-zero", rule_clenshawcurtis0}, {"chebyshev", rule_chebyshev},
    {"chebyshev-odd", rule_chebyshevodd}, {"gauss-legendre", rule_gausslegendre}, {"gauss-legendre-odd", rule_gausslegendreodd},
    {"gauss-patterson", rule_gausspatterson}, {"leja", rule_leja}, {"leja-odd", rule_lejaodd}, {"rleja", rule_rleja},
    {"rleja-odd", rule_rlejaodd}, {"rleja-double2", rule_rlejadouble2}, {"rleja-double4", rule_rlejadouble4},
    {"rleja-shifted", rule_rlejashifted}, {"rleja-shifted-even", rule_rlejashiftedeven}, {"rleja-shifted-double", rule_rlejashifteddouble},
    {"max-lebesgue", rule_maxlebesgue}, {"max-lebesgue-odd", rule_maxlebesgueodd}, {"min-lebesgue", rule_minlebesgue},
    {"min-lebesgue-odd", rule_minlebesgueodd}, {"min-delta", rule_mindelta}, {"min-delta-odd", rule_mindeltaodd},
    {"gauss-chebyshev1", rule_gausschebyshev1}, {"gauss-chebyshev1-odd", rule_gausschebyshev1odd},
    {"gauss-chebyshev2", rule_gausschebyshev2}, {"gauss-chebyshev2-odd", rule_gausschebyshev2odd}, {"fejer2", rule_fejer2},
    {"gauss-gegenbauer", rule_gaussgegenbauer}, {"gauss-gegenbauer-odd", rule_gaussgegenbauerodd},
    {"gauss-jacobi", rule_gaussjacobi}, {"gauss-jacobi-odd", rule_gaussjacobiodd}, {"gauss-laguerre", rule_gausslaguerre},
    {"gauss-laguerre-odd", rule_gausslaguerreodd}, {"gauss-hermite", rule_gausshermite}, {"gauss-hermite-odd", rule_gausshermiteodd},
    {"localp", rule_localp}, {"localp-zero", rule_localp0}, {"localp-boundary", rule_localpb}, {"semi-localp", rule_semilocalp},
    {"wavelet", rule_wavelet}, {"fourier", rule_fourier}};

static void pd(const char *tag, const double *v, size_t n) { printf("o %s %zu", tag, n); for (size_t i = 0; i < n; i++) printf(" %a", v[i]); printf("\n"); }
static void pd(const char *tag, const std::vector<double> &v) { pd(tag, v.data(), v.size()); }
static void pi(const char *tag, const std::vector<int> &v) { printf("o %s %zu", tag, v.size()); for (int i : v) printf(" %d", i); printf("\n"); }

static std::vector<std::string> toks(const std::string &line) { std::vector<std::string> t; std::istringstream ss(line); std::string s; while (ss >> s) t.push_back(s); return t; }
static std::map<std::string, std::vector<std::string>> keyed(const std::vector<std::string> &t, size_t from) {
    std::map<std::string, std::vector<std::string>> m; std::string k;
    for (size_t i = from; i < t.size(); i++) { if (!t[i].empty() && t[i].back() == ':') { k = t[i]; m[k]; } else if (!k.empty()) m[k].push_back(t[i]); }
    return m; }
static std::vector<int> ints(const std::vector<std::string> &v) { std::vector<int> r; for (auto &s : v) r.push_back(atoi(s.c_str())); return r; }
static std::vector<double> dbls(const std::vector<std::string> &v) { std::vector<double> r; for (auto &s : v) r.push_back(strtod(s.c_str(), nullptr)); return r; }

static void make_for_rule(TasmanianSparseGrid &g, TypeOneDRule rule, int d, double alpha, double beta) {
    if (rule == rule_fourier) g.makeFourierGrid(d, 0, 1, type_level);
    else if (rule == rule_wavelet) g.makeWaveletGrid(d, 0, 1, 1);
    else if (rule == rule_localp || rule == rule_localp0 || rule == rule_localpb || rule == rule_semilocalp) g.makeLocalPolynomialGrid(d, 0, 2, 2, rule);
    else g.makeGlobalGrid(d, 0, 1, type_level, rule, std::vector<int>(), alpha, beta);
    if (g.getRule() != rule) throw std::runtime_error("driver: grid does not report the requested rule");
}

static void unit(const std::vector<std::string> &t) {
    TypeOneDRule rule = RULES.at(t[1]); int d = atoi(t[2].c_str()); double alpha = strtod(t[3].c_str(), nullptr), beta = strtod(t[4].c_str(), nullptr);
    auto m = keyed(t, 5); std::vector<double> a = dbls(m["a:"]), b = dbls(m["b:"]), x = dbls(m["x:"]);
    int n = (int) (x.size() / (size_t) d);
    TasmanianSparseGrid g; make_for_rule(g, rule, d, alpha, beta);
    pd("cpts", g.getPoints());
    pd("chsup", g.getHierarchicalSupport().data(), (size_t) d);
    { auto ins = g.getDomainInside(); std::vector<int> r; for (int i = 0; i < n; i++) r.push_back(ins(std::vector<double>(x.begin() + (size_t) i * d, x.begin() + (size_t) (i + 1) * d)) ? 1 : 0); pi("cinside", r); }
    g.setDomainTransform(a, b);
    std::vector<double> xf = x; g.mapCanonicalToTransformed(d, n, rule, xf.data()); pd("fwd", xf);
    std::vector<double> xi = x; g.mapTransformedToCanonical<double>(d, n, rule, xi.data()); pd("inv", xi);
    pd("jac", g.diffCanonicalTransform<double>());
    double qs = g.getQuadratureScale(d, rule); pd("qscale", &qs, 1);
    { auto ins = g.getDomainInside(); std::vector<int> r; for (int i = 0; i < n; i++) r.push_back(ins(std::vector<double>(x.begin() + (size_t) i * d, x.begin() + (size_t) (i + 1) * d)) ? 1 : 0); pi("inside", r); }
    pd("hsup", g.getHierarchicalSupport().data(), (size_t) d);
    pd("pfwd", g.getPoints());
}

static void conf(const std::vector<std::string> &t) {
    int d = atoi(t[1].c_str()), depth = atoi(t[2].c_str()); auto m = keyed(t, 3);
    std::vector<int> tr = ints(m["t:"]); std::vector<double> x = dbls(m["x:"]); int n = (int) (x.size() / (size_t) d);
    TasmanianSparseGrid g; g.makeLocalPolynomialGrid(d, 0, depth, 1, rule_localp);
    g.setConformalTransformASIN(tr);
    std::vector<double> f = x; g.mapConformalCanonicalToTransformed(d, n, f.data()); pd("cfwd", f);
    { Data2D<double> w(d, n, std::vector<double>(f)); g.mapConformalTransformedToCanonical<double>(d, n, w); pd("cinv", w.getStrip(0), (size_t) d * n); }
    { Data2D<double> w(d, n, std::vector<double>(x)); g.mapConformalTransformedToCanonical<double>(d, n, w); pd("cinvx", w.getStrip(0), (size_t) d * n);
      std::vector<double> back(w.getStrip(0), w.getStrip(0) + (size_t) d * n); g.mapConformalCanonicalToTransformed(d, n, back.data()); pd("cfwdinv", back); }
    std::vector<double> pts((size_t) d * g.getNumPoints()); g.base->getPoints(pts.data()); pd("cwpts", pts);
    std::vector<double> w((size_t) g.getNumPoints(), 1.0); g.mapConformalWeights(d, g.getNumPoints(), w.data()); pd("cw", w);
}

static void run_guarded(const std::string &line) {
    std::vector<std::string> t = toks(line);
    if (t.empty() || t[0][0] == '#') return;
    if (t[0] == "case") { printf("case %s\n", t.size() > 1 ? t[1].c_str() : "?"); return; }
    printf("c %s\n", line.c_str()); fflush(stdout);
    try {
        if (t[0] == "unit") unit(t);
        else if (t[0] == "conf") conf(t);
        else throw std::runtime_error("driver: unknown command " + t[0]);
    }
    catch (std::invalid_argument &e) { printf("x invalid_argument %s\n", e.what()); }
    catch (std::runtime_error &e) { if (strncmp(e.what(), "driver:", 7) == 0) printf("x driver %s\n", e.what()); else printf("x runtime_error %s\n", e.what()); }
    catch (std::out_of_range &e) { printf("x driver out_of_range %s\n", e.what()); }
    catch (std::exception &e) { printf("x other:%s %s\n", typeid(e).name(), e.what()); }
    fflush(stdout);
}

int main(int argc, char **argv) {
    if (argc < 2) { fprintf(stderr, "usage: transdrv cases [case-timeout-seconds]\n"); return 2; }
    int case_timeout = (argc > 2) ? atoi(argv[2]) : 10;
    std::ifstream in(argv[1]); std::string line;
    std::vector<std::vector<std::string>> cases;
    while (std::getline(in, line)) {
        if (line.compare(0, 5, "case ") == 0 || cases.empty()) cases.emplace_back();
        cases.back().push_back(line);
    }
    for (auto &c : cases) {
        fflush(stdout);
        pid_t pid = fork();
        if (pid == 0) {
            verif_case_limit(case_timeout);
            for (auto &l : c) run_guarded(l);
            fflush(stdout);
            _exit(0);
        }
        int status = 0; waitpid(pid, &status, 0);
        if (WIFSIGNALED(status)) {
            if (verif_is_timeout(WTERMSIG(status))) printf("\nx hang no return within %d s\n", case_timeout);
            else printf("\nx crash:%d terminated by signal\n", WTERMSIG(status));
        } else if (WIFEXITED(status) && WEXITSTATUS(status) != 0) printf("\nx crash:exit%d abnormal exit\n", WEXITSTATUS(status));
        fflush(stdout);
    }
    return 0;
}
