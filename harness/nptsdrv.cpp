// nptsdrv: the point set of Global / Fourier grids (C08 points; C01, C07).  White-box, read-only.
// Input: case file (argv[1]); one result line per case on stdout.
//   np <id> <rule> <d> maxpts: <n> t: i..
//        calls MultiIndexManipulations::generateNestedPoints(tensors, l -> OneDimensionalMeta::getNumPoints(l, rule)) directly on the
//        given tensor set (lower or not)
//        -> r <id> tens: i.. pts: i..            (tens: the set as the MultiIndexSet stores it)
//   grid <id> global|fourier <rule> <type> <d> <depth> maxpts: <n> w: i.. ll: i.. mode: none|update|aniso type2: <type> depth2: <n> w2: i..
//        makeGlobalGrid / makeFourierGrid with one output, then loadNeededValues, then updateGlobalGrid / updateFourierGrid (mode
//        update: depth2, type2, w2, ll) or setAnisotropicRefinement(type2, depth2 = min_growth, 0, ll) (mode aniso), then loadNeededValues
//        -> r <id> tens: act: actw: tw: pts0: need0:      after make   (tw: computeTensorWeights(tensors))
//                  pts1: need1x:                          after the first load
//                  upd: 0|1 [utens: uact: uactw: utw: need1: pts1b:]   after the update / refinement (upd: 1 when updated_tensors is not empty)
//                  [tens2: act2: pts2: need2:]            after the second load
//   x <id> <message>   exception / too many points
#include <algorithm>
#include <array>
#include <cassert>
#include <cmath>
#include <complex>
#include <cstdint>
#include <cstdio>
#include <cstdlib>
#include <cstring>
#include <fstream>
#include <functional>
#include <iomanip>
#include <iostream>
#include <limits>
#include <map>
#include <memory>
#include <numeric>
#include <set>
#include <sstream>
#include <stdexcept>
#include <string>
#include <vector>
#define private public
#define protected public
#include "TasmanianSparseGrid.hpp"
#include "tsgIndexManipulator.hpp"
#undef private
#undef protected

using namespace TasGrid;

static std::vector<std::string> toks(const std::string &line) { std::vector<std::string> t; std::istringstream ss(line); std::string s; while (ss >> s) t.push_back(s); return t; }
static std::map<std::string, std::vector<std::string>> keyed(const std::vector<std::string> &t, size_t from) {
    std::map<std::string, std::vector<std::string>> m; std::string k;
    for (size_t i = from; i < t.size(); i++) { if (!t[i].empty() && t[i].back() == ':') { k = t[i]; m[k]; } else if (!k.empty()) m[k].push_back(t[i]); }
    return m; }
static std::vector<int> ints(const std::vector<std::string> &v) { std::vector<int> r; for (auto &s : v) r.push_back(atoi(s.c_str())); return r; }

static std::string out;
static void put(const char *key, const std::vector<int> &s) { out += " "; out += key; for (int v : s) { out += " "; out += std::to_string(v); } }
static void put(const char *key, const MultiIndexSet &s) { put(key, s.indexes); }

static double estimate(const MultiIndexSet &s, std::function<double(int)> f) {
    double total = 0.0; size_t d = s.getNumDimensions();
    for (int i = 0; i < s.getNumIndexes(); i++) { const int *p = s.getIndex(i); double v = 1.0; for (size_t j = 0; j < d; j++) v *= f(p[j]); total += v; }
    return total;
}

template<class G> static void dump_made(G *g) {
    put("tens:", g->tensors); put("act:", g->active_tensors); put("actw:", g->active_w);
    put("tw:", MultiIndexManipulations::computeTensorWeights(g->tensors));
    put("pts0:", g->points); put("need0:", g->needed);
}
template<class G> static void dump_updated(G *g) {
    bool upd = !g->updated_tensors.empty();
    out += upd ? " upd: 1" : " upd: 0";
    if (upd) {
        put("utens:", g->updated_tensors); put("uact:", g->updated_active_tensors); put("uactw:", g->updated_active_w);
        put("utw:", MultiIndexManipulations::computeTensorWeights(g->updated_tensors));
    }
    put("need1:", g->needed); put("pts1b:", g->points);
}
template<class G> static void dump_final(G *g) { put("tens2:", g->tensors); put("act2:", g->active_tensors); put("pts2:", g->points); put("need2:", g->needed); }

static void load_values(TasmanianSparseGrid &grid) {
    int n = grid.getNumNeeded(), d = grid.getNumDimensions();
    if (n == 0) return;
    std::vector<double> x = grid.getNeededPoints(), v((size_t) n);
    for (int i = 0; i < n; i++) { double s = 0.0; for (int j = 0; j < d; j++) s += (1.0 + 0.3 * j) * x[(size_t) i * d + j]; v[i] = std::exp(0.5 * s) + 0.1 * std::cos(3.0 * s); }
    grid.loadNeededValues(v);
}

int main(int argc, char **argv) {
    if (argc < 2) return 2;
    std::ifstream in(argv[1]); std::string line;
    while (std::getline(in, line)) {
        auto t = toks(line); if (t.size() < 4) continue;
        std::string id = t[1];
        try {
            if (t[0] == "np") {
                TypeOneDRule rule = (t[2] == "fourier") ? rule_fourier : IO::getRuleString(t[2]);
                if (rule == rule_none) { printf("x %s unknown rule\n", id.c_str()); continue; }
                int d = atoi(t[3].c_str());
                auto m = keyed(t, 4);
                std::vector<int> tv = ints(m["t:"]);
                double maxpts = m["maxpts:"].empty() ? 20000.0 : atof(m["maxpts:"][0].c_str());
                if (d < 1 || tv.size() % (size_t) d != 0) { printf("x %s bad tensor list\n", id.c_str()); continue; }
                Data2D<int> raw((size_t) d, 0);
                for (size_t i = 0; i < tv.size(); i += (size_t) d) raw.appendStrip(std::vector<int>(tv.begin() + (long) i, tv.begin() + (long) i + d));
                MultiIndexSet tensors(raw);
                if (estimate(tensors, [&](int l) -> double { return (l > 20) ? 1e18 : (double) OneDimensionalMeta::getNumPoints(l, rule); }) > maxpts) {
                    printf("x %s too many points\n", id.c_str()); continue; }
                MultiIndexSet pts = MultiIndexManipulations::generateNestedPoints(tensors, [&](int l) -> int { return OneDimensionalMeta::getNumPoints(l, rule); });
                out = "r " + id; put("tens:", tensors); put("pts:", pts);
                printf("%s\n", out.c_str());
            } else if (t[0] == "grid" && t.size() >= 7) {
                std::string fam = t[2];
                TypeOneDRule rule = (fam == "fourier") ? rule_fourier : IO::getRuleString(t[3]);
                TypeDepth type = IO::getDepthTypeString(t[4]);
                int d = atoi(t[5].c_str()), depth = atoi(t[6].c_str());
                auto m = keyed(t, 7);
                std::vector<int> w = ints(m["w:"]), ll = ints(m["ll:"]), w2 = ints(m["w2:"]);
                double maxpts = m["maxpts:"].empty() ? 20000.0 : atof(m["maxpts:"][0].c_str());
                std::string mode = m["mode:"].empty() ? "none" : m["mode:"][0];
                TypeDepth type2 = m["type2:"].empty() ? type : IO::getDepthTypeString(m["type2:"][0]);
                int depth2 = m["depth2:"].empty() ? depth : atoi(m["depth2:"][0].c_str());
                if (rule == rule_none || type == type_none || type2 == type_none) { printf("x %s unknown rule or type\n", id.c_str()); continue; }
                if (fam == "global" && OneDimensionalMeta::isNonNested(rule)) { printf("x %s non-nested rule\n", id.c_str()); continue; }
                auto np = [&](int l) -> double { return (l > 20) ? 1e18 : (double) OneDimensionalMeta::getNumPoints(l, rule); };
                AccelerationContext acc;
                // size guard on the selections before any grid is built
                {
                    MultiIndexSet ts, ts2;
                    if (fam == "global") { GridGlobal g0(&acc); ts = g0.selectTensors((size_t) d, depth, type, w, rule, ll); if (mode == "update") ts2 = g0.selectTensors((size_t) d, depth2, type2, w2, rule, ll); }
                    else { GridFourier g0(&acc); ts = g0.selectTensors((size_t) d, depth, type, w, ll); if (mode == "update") ts2 = g0.selectTensors((size_t) d, depth2, type2, w2, ll); }
                    if (estimate(ts, np) > maxpts || (!ts2.empty() && estimate(ts2, np) > maxpts)) { printf("x %s too many points\n", id.c_str()); continue; }
                }
                TasmanianSparseGrid grid;
                out = "r " + id;
                if (fam == "global") grid.makeGlobalGrid(d, 1, depth, type, rule, w, 0.0, 0.0, nullptr, ll);
                else grid.makeFourierGrid(d, 1, depth, type, w, ll);
                if (fam == "global") dump_made(grid.get<GridGlobal>()); else dump_made(grid.get<GridFourier>());
                load_values(grid);
                if (fam == "global") { put("pts1:", grid.get<GridGlobal>()->points); put("need1x:", grid.get<GridGlobal>()->needed); }
                else { put("pts1:", grid.get<GridFourier>()->points); put("need1x:", grid.get<GridFourier>()->needed); }
                if (mode != "none") {
                    if (mode == "update") { if (fam == "global") grid.updateGlobalGrid(depth2, type2, w2, ll); else grid.updateFourierGrid(depth2, type2, w2, ll); }
                    else grid.setAnisotropicRefinement(type2, depth2, 0, ll);
                    if (grid.getNumNeeded() > maxpts) { printf("x %s too many points after refinement\n", id.c_str()); continue; }
                    if (fam == "global") dump_updated(grid.get<GridGlobal>()); else dump_updated(grid.get<GridFourier>());
                    load_values(grid);
                    if (fam == "global") dump_final(grid.get<GridGlobal>()); else dump_final(grid.get<GridFourier>());
                }
                printf("%s\n", out.c_str());
            }
        } catch (std::exception &e) { printf("x %s %s\n", id.c_str(), e.what()); }
        fflush(stdout);
    }
    return 0;
}
