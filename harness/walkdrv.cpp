// walkdrv: the shared script interpreter harness/tsgdrv.cpp (all its commands, see the grammar in its header comment)
// plus the white-box (read-only) observation of the evaluation tree of Local Polynomial grids (C04, tree walk):
//
//   wdump <s> <nrandom> <seed> [cap]      (with more than <cap> points only `o wskip n` is printed)
//       o wmeta erule=<0 pwc|1 localp|2 semilocalp|3 localp0|4 localpb> order= dims= outs= n= set=<points|needed> surp=<0|1>
//       o widx  n*d i..      multi-indexes of the set the tree was built from (points, or needed when nothing is loaded)
//       o wroots k i.. / o wpntr n+1 i.. / o windx k i..     the private tree of buildTree()
//       o wsurp n*outs v..   the private surpluses (when surp=1)
//     then for every probe point x (canonical coordinates; the script sets no domain transform):
//       o wx d x..
//       o wsi k i.. / o wsv k v..    the private walkTree<1>(work, x, sindx, svals, nullptr): indexes in visiting order, values
//       o wpi k i.. / o wpv k v..    the public evaluateSparseHierarchicalFunctions row
//       o wdn n v..                  the public evaluateHierarchicalFunctions row (dense)
//       o wev outs y..               evaluate(x) (when surp=1)
//     probe points: <nrandom> random points of [-1,1]^d on the 2^-40 lattice (so that x + 3.0 and the scaled coordinates are
//     computed exactly), 2 unrestricted random doubles, nodes, node +- support in one direction (closed support
//     boundary), the same +- 2^-30 (just inside / just outside), the domain corners -1 / +1 and a point outside the domain.
//
//   wddump <s> <nrandom> <seed> [cap]     (C05, derivative modes of the tree walk; same probe points as wdump)
//       o dmeta (as wmeta) / o didx n*d i.. / o dsurp n*outs v..
//     then for every probe point x:
//       o dx d x..
//       o d4i k i.. / o d4v k*d v..  the private walkTree<4>(work, x, sindx, svals, nullptr): indexes in visiting order, gradient vectors
//       o ddf outs*d y..             differentiate(x) (when surp=1; walkTree<3>)
//
// tsgdrv.cpp is compiled into this file unchanged (its main() is renamed); same fork-per-case loop.
#define main tsgdrv_main_unused
#include "tsgdrv.cpp"
#undef main

static void wdump(Slot &s, int nr, uint64_t seed, int cap) {
    TasmanianSparseGrid &g = s.g;
    if (!g.isLocalPolynomial()) throw std::runtime_error("driver: wdump needs a local polynomial grid");
    const GridLocalPolynomial *lp = g.get<GridLocalPolynomial>();
    int d = lp->num_dimensions, outs = lp->num_outputs;
    const MultiIndexSet &work = (lp->points.empty()) ? lp->needed : lp->points;
    int n = work.getNumIndexes();
    if (cap > 0 && n > cap) { printf("o wskip %d\n", n); return; }
    bool surp = (!lp->points.empty()) && outs > 0 && (int) lp->surpluses.getNumStrips() == n && (int) lp->surpluses.getStride() == outs;
    printf("o wmeta erule=%d order=%d dims=%d outs=%d n=%d set=%s surp=%d\n", (int) lp->effective_rule, lp->order, d, outs, n,
           lp->points.empty() ? "needed" : "points", surp ? 1 : 0);
    pi("widx", work.indexes);
    pi("wroots", lp->roots); pi("wpntr", lp->pntr); pi("windx", lp->indx);
    if (surp) pd("wsurp", lp->surpluses.data(), (size_t) n * (size_t) outs);
    if (n == 0) return;
    std::vector<double> pts = g.getPoints(), sup = g.getHierarchicalSupport();
    auto rnd = [&]() -> double { seed = mix(seed + 0x9e3779b97f4a7c15ULL); return (double) (seed >> 11) / 9007199254740992.0; };
    auto lattice = [&](double v) -> double { return std::floor(v * 1099511627776.0) / 1099511627776.0; };
    std::vector<std::vector<double>> X;
    for (int i = 0; i < nr; i++) { std::vector<double> x(d); for (int j = 0; j < d; j++) x[j] = lattice(-1.0 + 2.0 * rnd()); X.push_back(x); }
    for (int i = 0; i < 2; i++) { std::vector<double> x(d); for (int j = 0; j < d; j++) x[j] = -1.0 + 2.0 * rnd(); X.push_back(x); }
    for (int i = 0; i < 3; i++) { size_t p = (size_t) (rnd() * n) % n; X.emplace_back(pts.begin() + p * d, pts.begin() + (p + 1) * d); }
    const double eps = 1.0 / 1073741824.0;
    for (int i = 0; i < 8; i++) {
        size_t p = (size_t) (rnd() * n) % n; int dir = (int) (rnd() * d) % d; double sg = (rnd() < 0.5) ? -1.0 : 1.0;
        // the other coordinates: the node of p (inside its support) or random
        std::vector<double> x(pts.begin() + p * d, pts.begin() + (p + 1) * d);
        if (rnd() < 0.5) for (int j = 0; j < d; j++) if (j != dir) x[j] = lattice(-1.0 + 2.0 * rnd());
        int kind = i % 4;   // 0,1: exactly on the closed boundary; 2: just inside; 3: just outside
        if (lp->effective_rule == RuleLocal::erule::pwc) {
            // order 0: the thresholds (support for the value, 2 x support for isSupported) are multiples of 3^-level, not binary64
            // numbers: probe well inside the value cell, in the supported-but-zero ring, and on both sides of 2 x support
            static const double mult[4] = {0.5, 1.5, 1.9, 2.1};
            x[dir] = pts[p * d + dir] + sg * mult[kind] * sup[p * d + dir];
        } else {
            x[dir] = pts[p * d + dir] + sg * sup[p * d + dir];
            if (kind == 2) x[dir] -= sg * eps;
            if (kind == 3) x[dir] += sg * eps;
        }
        X.push_back(x);
    }
    { std::vector<double> x(d, 1.0); X.push_back(x); for (int j = 0; j < d; j++) x[j] = (rnd() < 0.5) ? -1.0 : 1.0; X.push_back(x);
      for (int j = 0; j < d; j++) x[j] = lattice(-1.0 + 2.0 * rnd()); x[(int) (rnd() * d) % d] = (rnd() < 0.5) ? -1.0 - eps : 1.0 + eps; X.push_back(x); }
    if (lp->effective_rule == RuleLocal::erule::pwc)   // order 0: a coordinate exactly at a node sits on the 2 x support threshold of the neighbour cells
        for (size_t i = (size_t) nr + 3; i < X.size(); i++) for (int j = 0; j < d; j++) X[i][j] += (1.0 + j) / 4096.0 * ((i % 2) ? 1.0 : -1.0);
    for (auto &x : X) {
        pd("wx", x);
        std::vector<int> si; std::vector<double> sv;
        lp->walkTree<1>(work, x.data(), si, sv, nullptr);
        pi("wsi", si); pd("wsv", sv);
        std::vector<int> pn, ix; std::vector<double> v, dn;
        g.evaluateSparseHierarchicalFunctions(x, pn, ix, v);
        pi("wpi", ix); pd("wpv", v);
        g.evaluateHierarchicalFunctions(x, dn);
        pd("wdn", dn);
        if (surp) { std::vector<double> y; g.evaluate(x, y); pd("wev", y); }
    }
}

static bool run_extra(const std::string &line) {
    Tok k; { std::istringstream ss(line); std::string t; while (ss >> t) k.t.push_back(t); }
    if (k.t.empty() || k.t[0] != "wdump") return false;
    k.next();
    printf("c %s\n", line.c_str()); fflush(stdout);
    try { Slot &s = S(k.next()); int nr = k.ni(); uint64_t seed = (uint64_t) k.ni(); int cap = k.more() ? k.ni() : 0; wdump(s, nr, seed, cap); }
    catch (std::invalid_argument &e) { printf("x invalid_argument %s\n", e.what()); }
    catch (std::runtime_error &e) { if (strncmp(e.what(), "driver:", 7) == 0) printf("x driver %s\n", e.what()); else printf("x runtime_error %s\n", e.what()); }
    catch (std::out_of_range &e) { printf("x driver out_of_range %s\n", e.what()); }
    catch (std::exception &e) { printf("x other:%s %s\n", typeid(e).name(), e.what()); }
    fflush(stdout);
    return true;
}

// C05 tree walk: the derivative modes.  Probe points are generated exactly as in wdump (binary rules only).
static void wddump(Slot &s, int nr, uint64_t seed, int cap) {
    TasmanianSparseGrid &g = s.g;
    if (!g.isLocalPolynomial()) throw std::runtime_error("driver: wddump needs a local polynomial grid");
    const GridLocalPolynomial *lp = g.get<GridLocalPolynomial>();
    int d = lp->num_dimensions, outs = lp->num_outputs;
    const MultiIndexSet &work = (lp->points.empty()) ? lp->needed : lp->points;
    int n = work.getNumIndexes();
    if (cap > 0 && n > cap) { printf("o dskip %d\n", n); return; }
    bool surp = (!lp->points.empty()) && outs > 0 && (int) lp->surpluses.getNumStrips() == n && (int) lp->surpluses.getStride() == outs;
    printf("o dmeta erule=%d order=%d dims=%d outs=%d n=%d set=%s surp=%d\n", (int) lp->effective_rule, lp->order, d, outs, n,
           lp->points.empty() ? "needed" : "points", surp ? 1 : 0);
    pi("didx", work.indexes);
    if (surp) pd("dsurp", lp->surpluses.data(), (size_t) n * (size_t) outs);
    if (n == 0) return;
    std::vector<double> pts = g.getPoints(), sup = g.getHierarchicalSupport();
    auto rnd = [&]() -> double { seed = mix(seed + 0x9e3779b97f4a7c15ULL); return (double) (seed >> 11) / 9007199254740992.0; };
    auto lattice = [&](double v) -> double { return std::floor(v * 1099511627776.0) / 1099511627776.0; };
    std::vector<std::vector<double>> X;
    for (int i = 0; i < nr; i++) { std::vector<double> x(d); for (int j = 0; j < d; j++) x[j] = lattice(-1.0 + 2.0 * rnd()); X.push_back(x); }
    for (int i = 0; i < 2; i++) { std::vector<double> x(d); for (int j = 0; j < d; j++) x[j] = -1.0 + 2.0 * rnd(); X.push_back(x); }
    for (int i = 0; i < 3; i++) { size_t p = (size_t) (rnd() * n) % n; X.emplace_back(pts.begin() + p * d, pts.begin() + (p + 1) * d); }
    const double eps = 1.0 / 1073741824.0;
    for (int i = 0; i < 8; i++) {
        size_t p = (size_t) (rnd() * n) % n; int dir = (int) (rnd() * d) % d; double sg = (rnd() < 0.5) ? -1.0 : 1.0;
        std::vector<double> x(pts.begin() + p * d, pts.begin() + (p + 1) * d);
        if (rnd() < 0.5) for (int j = 0; j < d; j++) if (j != dir) x[j] = lattice(-1.0 + 2.0 * rnd());
        int kind = i % 4;   // 0,1: exactly on the closed boundary; 2: just inside; 3: just outside
        x[dir] = pts[p * d + dir] + sg * sup[p * d + dir];
        if (kind == 2) x[dir] -= sg * eps;
        if (kind == 3) x[dir] += sg * eps;
        X.push_back(x);
    }
    { std::vector<double> x(d, 1.0); X.push_back(x); for (int j = 0; j < d; j++) x[j] = (rnd() < 0.5) ? -1.0 : 1.0; X.push_back(x);
      for (int j = 0; j < d; j++) x[j] = lattice(-1.0 + 2.0 * rnd()); x[(int) (rnd() * d) % d] = (rnd() < 0.5) ? -1.0 - eps : 1.0 + eps; X.push_back(x); }
    for (auto &x : X) {
        pd("dx", x);
        std::vector<int> si; std::vector<double> sv;
        lp->walkTree<4>(work, x.data(), si, sv, nullptr);
        pi("d4i", si); pd("d4v", sv);
        if (surp) { std::vector<double> jac((size_t) outs * (size_t) d, 0.0); lp->differentiate(x.data(), jac.data()); pd("ddf", jac); }
    }
}

static bool run_extra_diff(const std::string &line) {
    Tok k; { std::istringstream ss(line); std::string t; while (ss >> t) k.t.push_back(t); }
    if (k.t.empty() || k.t[0] != "wddump") return false;
    k.next();
    printf("c %s\n", line.c_str()); fflush(stdout);
    try { Slot &s = S(k.next()); int nr = k.ni(); uint64_t seed = (uint64_t) k.ni(); int cap = k.more() ? k.ni() : 0; wddump(s, nr, seed, cap); }
    catch (std::invalid_argument &e) { printf("x invalid_argument %s\n", e.what()); }
    catch (std::runtime_error &e) { if (strncmp(e.what(), "driver:", 7) == 0) printf("x driver %s\n", e.what()); else printf("x runtime_error %s\n", e.what()); }
    catch (std::out_of_range &e) { printf("x driver out_of_range %s\n", e.what()); }
    catch (std::exception &e) { printf("x other:%s %s\n", typeid(e).name(), e.what()); }
    fflush(stdout);
    return true;
}

int main(int argc, char **argv) {
    if (argc < 2) { fprintf(stderr, "usage: walkdrv script [workdir] [case-timeout-seconds]\n"); return 2; }
    if (argc > 2) workdir = argv[2];
    int case_timeout = (argc > 3) ? atoi(argv[3]) : 20;
    std::ifstream in(argv[1]); std::string line;
    std::vector<std::vector<std::string>> cases;
    while (std::getline(in, line)) {
        if (line.compare(0, 5, "case ") == 0 || cases.empty()) cases.emplace_back();
        cases.back().push_back(line);
    }
    for (auto &c : cases) {
        fflush(stdout);
        pid_t pid = fork();
        if (pid == 0) {
            verif_case_limit(case_timeout);
            for (auto &l : c) if (!run_extra(l) && !run_extra_diff(l)) run_guarded(l);
            fflush(stdout);
            _exit(0);
        }
        int status = 0; waitpid(pid, &status, 0);
        if (WIFSIGNALED(status)) {
            if (verif_is_timeout(WTERMSIG(status))) printf("\nx hang no return within %d s\n", case_timeout);
            else printf("\nx crash:%d terminated by signal\n", WTERMSIG(status));
        } else if (WIFEXITED(status) && WEXITSTATUS(status) != 0) printf("\nx crash:exit%d abnormal exit\n", WEXITSTATUS(status));
        fflush(stdout);
    }
    return 0;
}
