// clidrv — executes, through the PUBLIC library API, the call sequence that the extracted Coq model (ocaml/cli_main)
// plans for every invocation of a tasgrid script (C16).  It contains no knowledge of the tasgrid commands: for each
// invocation it asks the model ("pre", then "plan" with the facts read from the grid file) and interprets the plan.
//
//   clidrv <model-runner> <script-file> <workdir> [first-invocation]
//
// script-file: one invocation per line (the argv of tasgrid, blank separated); lines "snap <file> ..." name the
// grid files to snapshot (copied to <file>.api<i> after invocation i).  All files are relative to <workdir>.
// stdout: one line per invocation:  inv <i> ok | reject <why> | exception <type> <what>
// what the tool would print goes to <workdir>/stdout.api<i>.
//
// Matrix files are read and written by the independent code below (not by the tool's readMatrix/writeMatrix):
//   binary: 'T''S''G' int32 rows int32 cols rows*cols doubles;   ASCII: "rows cols\n" then rows lines of %25.17e.
#include <cstdio>
#include <cstdlib>
#include <cstring>
#include <cerrno>
#include <string>
#include <vector>
#include <sstream>
#include <fstream>
#include <iostream>
#include <stdexcept>
#include <unistd.h>
#include <sys/wait.h>

#include "TasmanianSparseGrid.hpp"
#include "TasmanianAddons.hpp"
#include "tsgExoticQuadrature.hpp"

using namespace TasGrid;

struct Reject : std::runtime_error { explicit Reject(const std::string &s) : std::runtime_error(s) {} };

struct Mat { int rows = 0, cols = 0; std::vector<double> v; };

static std::string slurp(const std::string &fn, bool &ok){
    std::ifstream f(fn, std::ios::binary);
    ok = f.good();
    std::stringstream ss; ss << f.rdbuf();
    return ss.str();
}

static Mat read_matrix(const std::string &fn){
    bool ok; std::string s = slurp(fn, ok);
    if (!ok) throw Reject("cannot open " + fn);
    Mat m;
    if (s.size() >= 3 && s[0] == 'T' && s[1] == 'S' && s[2] == 'G'){
        if (s.size() < 11) throw Reject("truncated binary matrix " + fn);
        int32_t r, c; std::memcpy(&r, s.data() + 3, 4); std::memcpy(&c, s.data() + 7, 4);
        m.rows = r; m.cols = c;
        size_t n = (size_t) r * (size_t) c;
        if (s.size() != 11 + 8 * n) throw Reject("binary matrix has wrong length " + fn);
        m.v.resize(n);
        if (n) std::memcpy(m.v.data(), s.data() + 11, 8 * n);
    }else{
        const char *p = s.c_str(); char *e;
        long r = std::strtol(p, &e, 10); if (e == p) throw Reject("bad ascii matrix " + fn); p = e;
        long c = std::strtol(p, &e, 10); if (e == p) throw Reject("bad ascii matrix " + fn); p = e;
        m.rows = (int) r; m.cols = (int) c;
        size_t n = (size_t) r * (size_t) c;
        m.v.resize(n);
        for(size_t i = 0; i < n; i++){
            m.v[i] = std::strtod(p, &e);
            if (e == p) throw Reject("ascii matrix has too few entries " + fn);
            p = e;
        }
    }
    return m;
}

struct Sink { std::string file; bool ascii; bool print; };

static FILE *g_stdout = nullptr;   // what the tool would print

static void write_matrix_file(const std::string &fn, bool ascii, int rows, int cols, const double *d){
    if (fn.empty()) return;
    FILE *f = std::fopen(fn.c_str(), "wb");
    if (!f) throw Reject("cannot write " + fn);
    if (ascii){
        std::fprintf(f, "%d %d\n", rows, cols);
        for(int i = 0; i < rows; i++){
            for(int j = 0; j < cols; j++) std::fprintf(f, "%s%25.17e", (j ? " " : ""), d[(size_t) i * cols + j]);
            std::fprintf(f, "\n");
        }
    }else{
        std::fwrite("TSG", 1, 3, f);
        int32_t r = rows, c = cols;
        std::fwrite(&r, 4, 1, f); std::fwrite(&c, 4, 1, f);
        if ((size_t) rows * cols) std::fwrite(d, 8, (size_t) rows * cols, f);
    }
    std::fclose(f);
}
static void print_matrix(bool print, int rows, int cols, const double *d, bool cplx = false){
    if (!print) return;
    std::fprintf(g_stdout, "%d %d\n", rows, cols);
    for(int i = 0; i < rows; i++){
        const double *r = d + (size_t) i * cols * (cplx ? 2 : 1);
        for(int j = 0; j < cols; j++){
            if (cplx) std::fprintf(g_stdout, " (%.17e,%.17e)", r[2 * j], r[2 * j + 1]);
            else std::fprintf(g_stdout, "%s%25.17e", (j ? " " : ""), r[j]);
        }
        std::fprintf(g_stdout, "\n");
    }
    std::fprintf(g_stdout, "\n");
}
static void emit(const Sink &s, int rows, int cols, const double *d){
    write_matrix_file(s.file, s.ascii, rows, cols, d);
    print_matrix(s.print, rows, cols, d);
}

// ------------------------------------------------------------------------------------------------
static std::vector<std::string> split(const std::string &line){
    std::vector<std::string> t; std::istringstream is(line); std::string w;
    while(is >> w) t.push_back(w);
    return t;
}
static std::string run_capture(const std::vector<std::string> &argv){
    int fd[2];
    if (pipe(fd) != 0) throw std::runtime_error("pipe failed");
    pid_t pid = fork();
    if (pid == 0){
        dup2(fd[1], 1); close(fd[0]); close(fd[1]);
        std::vector<char*> a;
        for(auto &s : argv) a.push_back(const_cast<char*>(s.c_str()));
        a.push_back(nullptr);
        execv(a[0], a.data());
        _exit(127);
    }
    close(fd[1]);
    std::string out; char buf[4096]; ssize_t n;
    while((n = read(fd[0], buf, sizeof buf)) > 0) out.append(buf, (size_t) n);
    close(fd[0]);
    int st; waitpid(pid, &st, 0);
    if (!WIFEXITED(st) || WEXITSTATUS(st) != 0) throw std::runtime_error("model runner failed");
    return out;
}

static std::string untok(const std::string &s){ return (s == "-") ? std::string() : s; }

static std::vector<int> ivec(const std::string &spec){
    if (spec == "none") return std::vector<int>();
    // row:<file>:<len>
    size_t a = spec.find(':'), b = spec.rfind(':');
    std::string fn = spec.substr(a + 1, b - a - 1);
    int len = std::atoi(spec.substr(b + 1).c_str());
    Mat m = read_matrix(fn);
    if (m.rows != 1) throw Reject("matrix " + fn + " must have one row");
    if (m.cols != len) throw Reject("matrix " + fn + " has wrong number of entries");
    std::vector<int> r(m.v.size());
    for(size_t i = 0; i < r.size(); i++) r[i] = static_cast<int>(m.v[i]);
    return r;
}
static double dbl(const std::string &tok){
    char *e; double v = std::strtod(tok.c_str(), &e);
    if (e == tok.c_str()) throw Reject("not a number: " + tok);
    return v;
}
static Sink sink(const std::vector<std::string> &t, size_t k){
    Sink s; s.file = untok(t.at(k)); s.ascii = (t.at(k + 1) == "a"); s.print = (t.at(k + 2) == "p"); return s;
}
static Mat xmat(const std::string &fn, int dims){
    if (fn.empty() || fn == "-"){ Mat e; e.rows = 0; e.cols = dims; return e; }   // no -xfile: an empty set of points
    Mat m = read_matrix(fn);
    if (m.cols != dims) throw Reject("points file " + fn + " must have one column per dimension");
    return m;
}

static void write_sparse(const Sink &s, int cols, const std::vector<int> &pntr, const std::vector<int> &indx, const std::vector<double> &vals){
    int rows = (int) pntr.size() - 1, nnz = (int) indx.size();
    auto ascii = [&](FILE *f){
        std::fprintf(f, "%d %d %d\n", rows, cols, nnz);
        for(size_t i = 0; i < pntr.size(); i++) std::fprintf(f, "%s%d", (i ? " " : ""), pntr[i]);
        std::fprintf(f, "\n");
        for(size_t i = 0; i < indx.size(); i++) std::fprintf(f, "%s%d", (i ? " " : ""), indx[i]);
        std::fprintf(f, "\n");
        for(size_t i = 0; i < vals.size(); i++) std::fprintf(f, "%s%.17e", (i ? " " : ""), vals[i]);
        std::fprintf(f, "\n");
    };
    if (!s.file.empty()){
        FILE *f = std::fopen(s.file.c_str(), "wb");
        if (!f) throw Reject("cannot write " + s.file);
        if (s.ascii) ascii(f);
        else{
            std::fwrite("TSG", 1, 3, f);
            int32_t h[3] = {rows, cols, nnz};
            std::fwrite(h, 4, 3, f);
            if (!pntr.empty()) std::fwrite(pntr.data(), 4, pntr.size(), f);
            if (!indx.empty()) std::fwrite(indx.data(), 4, indx.size(), f);
            if (!vals.empty()) std::fwrite(vals.data(), 8, vals.size(), f);
        }
        std::fclose(f);
    }
    if (s.print) ascii(g_stdout);
}

// one library call of the plan
static void exec_call(TasmanianSparseGrid &grid, const std::vector<std::string> &t){
    const std::string &op = t.at(0);
    auto I = [&](size_t k){ return std::atoi(t.at(k).c_str()); };
    auto TY = [&](size_t k){ return IO::getDepthTypeString(untok(t.at(k))); };
    auto RU = [&](size_t k){ return IO::getRuleString(untok(t.at(k))); };
    int dims = grid.getNumDimensions(), outs = grid.getNumOutputs();
    if (op == "read_grid"){
        grid.read(t.at(1).c_str());
    }else if (op == "make_global"){
        auto an = ivec(t.at(6)); auto li = ivec(t.at(10));
        grid.makeGlobalGrid(I(1), I(2), I(3), TY(4), RU(5), an, dbl(t.at(7)), dbl(t.at(8)), untok(t.at(9)).c_str(), li);
    }else if (op == "make_sequence"){
        auto an = ivec(t.at(6)); auto li = ivec(t.at(7));
        grid.makeSequenceGrid(I(1), I(2), I(3), TY(4), RU(5), an, li);
    }else if (op == "make_fourier"){
        auto an = ivec(t.at(5)); auto li = ivec(t.at(6));
        grid.makeFourierGrid(I(1), I(2), I(3), TY(4), an, li);
    }else if (op == "make_localp"){
        auto li = ivec(t.at(6));
        grid.makeLocalPolynomialGrid(I(1), I(2), I(3), I(4), RU(5), li);
    }else if (op == "make_wavelet"){
        auto li = ivec(t.at(5));
        grid.makeWaveletGrid(I(1), I(2), I(3), I(4), li);
    }else if (op == "set_transform"){
        Mat m = read_matrix(t.at(1));
        if (m.cols != 2) throw Reject("transform file must have two columns");
        if (m.rows != I(2)) throw Reject("transform file must have one row per dimension");
        std::vector<double> a((size_t) m.rows), b((size_t) m.rows);
        for(int i = 0; i < m.rows; i++){ a[i] = m.v[2 * i]; b[i] = m.v[2 * i + 1]; }
        grid.setDomainTransform(a, b);
    }else if (op == "set_conformal_asin"){
        auto c = ivec("row:" + t.at(1) + ":" + t.at(2));
        grid.setConformalTransformASIN(c);
    }else if (op == "update"){
        auto an = ivec(t.at(3));
        grid.updateGrid(I(1), TY(2), an);
    }else if (op == "out_points"){
        auto p = grid.getPoints();
        emit(sink(t, 1), grid.getNumPoints(), dims, p.data());
    }else if (op == "out_needed"){
        auto p = grid.getNeededPoints();
        emit(sink(t, 1), grid.getNumNeeded(), dims, p.data());
    }else if (op == "out_quadrature"){
        auto p = grid.getPoints(); auto w = grid.getQuadratureWeights();
        int n = grid.getNumPoints();
        std::vector<double> c((size_t) n * (dims + 1));
        for(int i = 0; i < n; i++){
            c[(size_t) i * (dims + 1)] = w[i];
            for(int j = 0; j < dims; j++) c[(size_t) i * (dims + 1) + 1 + j] = p[(size_t) i * dims + j];
        }
        emit(sink(t, 1), n, dims + 1, c.data());
    }else if (op == "out_points_idx" || op == "out_needed_idx"){
        bool needed = (op == "out_needed_idx");
        const int *p = needed ? grid.getNeededIndexes() : grid.getPointsIndexes();
        int n = needed ? grid.getNumNeeded() : grid.getNumPoints();
        std::vector<double> d((size_t) n * dims);
        for(size_t i = 0; i < d.size(); i++) d[i] = (double) p[i];
        emit(sink(t, 1), n, dims, d.data());
    }else if (op == "evaluate"){
        Mat x = xmat(t.at(1), dims);
        std::vector<double> y((size_t) x.rows * outs);
        grid.evaluateBatch(x.v.data(), x.rows, y.data());
        emit(sink(t, 2), x.rows, outs, y.data());
    }else if (op == "differentiate"){
        Mat x = xmat(t.at(1), dims);
        std::vector<double> y((size_t) x.rows * outs * dims);
        for(int i = 0; i < x.rows; i++) grid.differentiate(x.v.data() + (size_t) i * dims, y.data() + (size_t) i * outs * dims);
        emit(sink(t, 2), x.rows, outs * dims, y.data());
    }else if (op == "inter_weights"){
        Mat x = xmat(t.at(1), dims);
        int n = grid.getNumPoints();
        std::vector<double> y((size_t) x.rows * n);
        for(int i = 0; i < x.rows; i++) grid.getInterpolationWeights(x.v.data() + (size_t) i * dims, y.data() + (size_t) i * n);
        emit(sink(t, 2), x.rows, n, y.data());
    }else if (op == "diff_weights"){
        Mat x = xmat(t.at(1), dims);
        int n = grid.getNumPoints() * dims;
        std::vector<double> y((size_t) x.rows * n);
        for(int i = 0; i < x.rows; i++) grid.getDifferentiationWeights(x.v.data() + (size_t) i * dims, y.data() + (size_t) i * n);
        emit(sink(t, 2), x.rows, n, y.data());
    }else if (op == "hier_dense"){
        Mat x = xmat(t.at(1), dims);
        int n = grid.getNumPoints() * (grid.isFourier() ? 2 : 1);
        std::vector<double> y((size_t) x.rows * n);
        grid.evaluateHierarchicalFunctions(x.v.data(), x.rows, y.data());
        emit(sink(t, 2), x.rows, n, y.data());
    }else if (op == "hier_sparse"){
        Mat x = xmat(t.at(1), dims);
        std::vector<int> pntr, indx; std::vector<double> vals;
        grid.evaluateSparseHierarchicalFunctions(x.v, pntr, indx, vals);
        write_sparse(sink(t, 2), grid.getNumPoints(), pntr, indx, vals);
    }else if (op == "integrate"){
        auto q = grid.integrate();
        emit(sink(t, 1), outs, 1, q.data());          // the tool writes one row per output
    }else if (op == "hsupport"){
        auto s = grid.getHierarchicalSupport();
        emit(sink(t, 1), grid.getNumPoints(), dims, s.data());
    }else if (op == "aniso_coeff"){
        auto ab = grid.estimateAnisotropicCoefficients(TY(1), I(2));
        std::vector<double> d(ab.begin(), ab.end());
        emit(sink(t, 3), (int) d.size(), 1, d.data());  // one row per coefficient
    }else if (op == "get_coeff"){
        const double *c = grid.getHierarchicalCoefficients();
        int n = grid.getNumPoints();
        Sink s = sink(t, 2);
        if (I(1)){   // complex coefficients: API layout = all real parts, then all imaginary parts; file = interleaved pairs
            std::vector<double> w((size_t) n * 2 * outs);
            for(int p = 0; p < n; p++) for(int j = 0; j < outs; j++){
                w[(size_t) p * 2 * outs + 2 * j] = c[(size_t) p * outs + j];
                w[(size_t) p * 2 * outs + 2 * j + 1] = c[(size_t) (n + p) * outs + j];
            }
            write_matrix_file(s.file, s.ascii, n, 2 * outs, w.data());
            print_matrix(s.print, n, outs, w.data(), true);
        }else{
            emit(s, n, outs, c);
        }
    }else if (op == "load_values"){
        std::vector<double> v;
        if (outs > 0){
            Mat m = read_matrix(t.at(1));
            if (m.cols != outs) throw Reject("values file must have one column per output");
            v = m.v;
        }
        grid.loadNeededValues(v);
    }else if (op == "begin_construction"){
        grid.beginConstruction();
    }else if (op == "finish_construction"){
        grid.finishConstruction();
    }else if (op == "load_constructed"){
        Mat x = xmat(t.at(1), dims);
        Mat v = read_matrix(t.at(2));
        if (v.cols != outs) throw Reject("values file must have one column per output");
        if (v.rows != x.rows) throw Reject("points and values files must have the same number of rows");
        grid.loadConstructedPoints(x.v, v.v);
    }else if (op == "set_coeff"){
        Mat m = read_matrix(t.at(1));
        int n = grid.getNumPoints();
        bool cplx = I(2) != 0;
        if (m.rows != n) throw Reject("coefficient file must have one row per point");
        if (m.cols != outs * (cplx ? 2 : 1)) throw Reject("coefficient file has wrong number of columns");
        if (cplx){
            std::vector<double> c((size_t) 2 * n * outs);
            for(int p = 0; p < n; p++) for(int j = 0; j < outs; j++){
                c[(size_t) p * outs + j] = m.v[(size_t) p * 2 * outs + 2 * j];
                c[(size_t) (n + p) * outs + j] = m.v[(size_t) p * 2 * outs + 2 * j + 1];
            }
            grid.setHierarchicalCoefficients(c);
        }else{
            grid.setHierarchicalCoefficients(m.v);
        }
    }else if (op == "clear_refinement"){
        grid.clearRefinement();
    }else if (op == "merge_refinement"){
        grid.mergeRefinement();
    }else if (op == "print_using_construct"){
        std::fprintf(g_stdout, "dynamic construction: %s\n", grid.isUsingConstruction() ? "enabled" : "disabled");
    }else if (op == "print_stats"){
        std::ostringstream os; grid.printStats(os);
        std::fputs(os.str().c_str(), g_stdout);
    }else if (op == "poly_space"){
        auto p = grid.getGlobalPolynomialSpace(I(1) != 0);
        std::vector<double> d(p.begin(), p.end());
        emit(sink(t, 2), (int) d.size() / dims, dims, d.data());
    }else if (op == "refine_aniso"){
        auto li = ivec(t.at(4));
        grid.setAnisotropicRefinement(TY(1), I(2), I(3), li);
    }else if (op == "refine_surplus"){
        auto li = ivec(t.at(4));
        TypeRefinement crit = IO::getTypeRefinementString(t.at(2));
        std::string sf = untok(t.at(5));
        if (sf.empty()){
            grid.setSurplusRefinement(dbl(t.at(1)), crit, I(3), li);
        }else{
            // documented shape: one row per point (in the order of getNumLoaded()), one weight per active output;
            // the raw-array overload is documented to behave the same without the size test
            Mat m = read_matrix(sf);
            if (m.rows != grid.getNumPoints()) throw Reject("the number of weights must match the number of points");
            if (m.cols != I(6)) throw Reject("the weights must have one column per active output");
            grid.setSurplusRefinement(dbl(t.at(1)), crit, I(3), (li.empty() ? nullptr : li.data()), m.v.data());
        }
    }else if (op == "cand_aniso_weights"){
        auto w = ivec(t.at(2)); auto li = ivec(t.at(3));
        auto p = grid.getCandidateConstructionPoints(TY(1), w, li);
        emit(sink(t, 4), (int) p.size() / dims, dims, p.data());
    }else if (op == "cand_aniso_out"){
        auto li = ivec(t.at(3));
        auto p = grid.getCandidateConstructionPoints(TY(1), I(2), li);
        emit(sink(t, 4), (int) p.size() / dims, dims, p.data());
    }else if (op == "cand_surplus"){
        auto li = ivec(t.at(4));
        TypeRefinement crit = IO::getTypeRefinementString(t.at(2));
        std::string sf = untok(t.at(5));
        std::vector<double> scale;
        if (!sf.empty()){
            Mat m = read_matrix(sf);
            if (m.rows != grid.getNumPoints()) throw Reject("the number of weights must match the number of points");
            if (m.cols != I(6)) throw Reject("the weights must have one column per active output");
            scale = m.v;
        }
        auto p = grid.getCandidateConstructionPoints(dbl(t.at(1)), crit, I(3), li, scale);
        emit(sink(t, 7), (int) p.size() / dims, dims, p.data());
    }else if (op == "exotic"){
        TasmanianSparseGrid w;
        w.read(t.at(3).c_str());
        if (w.getNumDimensions() != 1) throw Reject("the weight function surrogate must be one-dimensional");
        if (w.getNumLoaded() == 0) throw Reject("the weight function surrogate must have loaded values");
        CustomTabulated ct = getExoticQuadrature(I(1), dbl(t.at(2)), w, t.at(4).c_str(), I(5) != 0);
        Sink s = sink(t, 6);
        std::ostringstream os; ct.write<mode_ascii>(os);
        if (!s.file.empty()){ std::ofstream f(s.file, std::ios::out | std::ios::trunc); f << os.str(); }
        if (s.print) std::fputs(os.str().c_str(), g_stdout);
    }else if (op == "write_grid"){
        grid.write(t.at(1).c_str(), (t.at(2) == "a") ? mode_ascii : mode_binary);
    }else{
        throw std::runtime_error("clidrv: unknown plan call " + op);
    }
}

static void copy_file(const std::string &a, const std::string &b){
    std::ifstream in(a, std::ios::binary);
    if (!in.good()){ std::remove(b.c_str()); return; }
    std::ofstream out(b, std::ios::binary | std::ios::trunc);
    out << in.rdbuf();
}

int main(int argc, char **argv){
    if (argc != 4 && argc != 5){ std::fprintf(stderr, "usage: clidrv <model-runner> <script> <workdir> [first-invocation]\n"); return 2; }
    int first = (argc == 5) ? std::atoi(argv[4]) : 0;   // resume after a crash of the library inside an earlier invocation
    std::string runner = argv[1];
    std::ifstream sf(argv[2]);
    if (!sf.good()){ std::fprintf(stderr, "cannot read script\n"); return 2; }
    if (chdir(argv[3]) != 0){ std::fprintf(stderr, "cannot chdir\n"); return 2; }
    std::vector<std::string> snaps;
    std::string line; int idx = 0;
    while(std::getline(sf, line)){
        auto args = split(line);
        if (args.empty()) continue;
        if (args[0] == "snap"){ snaps.assign(args.begin() + 1, args.end()); continue; }
        if (idx < first){ idx++; continue; }
        std::string status = "ok";
        std::string so = "stdout.api" + std::to_string(idx);
        g_stdout = std::fopen(so.c_str(), "wb");
        try{
            std::vector<std::string> cmd = {runner, "pre", "--"};
            cmd.insert(cmd.end(), args.begin(), args.end());
            auto pre = split(run_capture(cmd));
            if (pre.empty()) throw std::runtime_error("model runner printed nothing");
            if (pre[0] == "reject") throw Reject("model " + pre.at(1));
            std::vector<std::string> gi = {"-", "0", "0", "0", "0"};
            if (pre[0] == "read"){
                TasmanianSparseGrid probe;
                try{ probe.read(pre.at(1).c_str()); }catch(std::runtime_error &e){ throw Reject(std::string("unreadable grid file: ") + e.what()); }
                const char *k = probe.isGlobal() ? "global" : probe.isSequence() ? "sequence" : probe.isLocalPolynomial() ? "localp" :
                                probe.isWavelet() ? "wavelet" : probe.isFourier() ? "fourier" : "-";
                if (std::string(k) == "-") throw Reject("empty grid");
                gi = {k, std::to_string(probe.getNumDimensions()), std::to_string(probe.getNumOutputs()),
                      probe.getNumLoaded() > 0 ? "1" : "0", probe.isUsingConstruction() ? "1" : "0"};
            }
            cmd = {runner, "plan"};
            cmd.insert(cmd.end(), gi.begin(), gi.end());
            cmd.push_back("--");
            cmd.insert(cmd.end(), args.begin(), args.end());
            std::istringstream plan(run_capture(cmd));
            std::vector<std::vector<std::string>> calls;
            std::string pl; bool ended = false;
            while(std::getline(plan, pl)){
                auto t = split(pl);
                if (t.empty()) continue;
                if (t[0] == "reject") throw Reject("model " + t.at(1));
                if (t[0] == "end"){ ended = true; break; }
                calls.push_back(t);
            }
            if (!ended) throw std::runtime_error("plan without end");
            TasmanianSparseGrid grid;
            for(auto &c : calls) exec_call(grid, c);
        }catch(Reject &e){
            status = std::string("reject ") + e.what();
        }catch(std::invalid_argument &e){
            status = std::string("exception invalid_argument ") + e.what();
        }catch(std::runtime_error &e){
            status = std::string("exception runtime_error ") + e.what();
        }catch(std::exception &e){
            status = std::string("exception other ") + e.what();
        }
        std::fclose(g_stdout);
        for(auto &s : snaps) copy_file(s, s + ".api" + std::to_string(idx));
        for(auto &c : status) if (c == '\n') c = ' ';
        std::printf("inv %d %s\n", idx, status.c_str());
        std::fflush(stdout);
        idx++;
    }
    return 0;
}
