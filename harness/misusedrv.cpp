// misusedrv: C14 driver.  Builds a grid state twice (slot g and its twin h) from `setup` lines, issues ONE violating call
// ("recipe") on g, and reports the exception (exact dynamic type, what()), digests of g before / after and of the twin,
// and the results of the follow-up calls on g and on the reference (the twin, or a default-constructed grid when g is empty).
// Every case runs in a forked child under an alarm: a crash, a sanitizer abort or a hang is an observation of that case.
//
//   case <id>
//   setup make global|sequence|localp|wavelet|fourier ...      (grammar of harness/tsgdrv.cpp without the slot name)
//   setup trans a: .. b: .. | conformal i.. | load <fn> | refsurp <tol> <crit> <out> | refsimple <tol> <out> |
//         refaniso <type> <mingrowth> <out> | merge | begin | park <fn> | update <depth> <type>
//   bad <recipe>          issue the recipe on g
//   follow                follow-up calls on g and on the reference
//   misusedrv --list      prints the recipe names
#include <algorithm>
#include <cmath>
#include <cstdint>
#include <cstdio>
#include <cstdlib>
#include <cstring>
#include <fstream>
#include <functional>
#include <iostream>
#include <map>
#include <memory>
#include <sstream>
#include <stdexcept>
#include <string>
#include <typeinfo>
#include <vector>
#include <cxxabi.h>
#include <unistd.h>
#include <signal.h>
#include <sys/stat.h>
#include <sys/wait.h>
#include "TasmanianSparseGrid.hpp"
#include "caselimit.hpp"

using namespace TasGrid;
typedef TasmanianSparseGrid G;

static std::string workdir = ".";
static std::string caseid = "none";

// ---------------------------------------------------------------- names (copied from tsgdrv.cpp)
static std::map<std::string, TypeOneDRule> RULES = {
    {"clenshaw-curtis", rule_clenshawcurtis}, {"clenshaw-curtis-zero", rule_clenshawcurtis0}, {"chebyshev", rule_chebyshev},
    {"gauss-legendre", rule_gausslegendre}, {"gauss-patterson", rule_gausspatterson}, {"leja", rule_leja}, {"rleja", rule_rleja},
    {"rleja-shifted", rule_rlejashifted}, {"max-lebesgue", rule_maxlebesgue}, {"min-lebesgue", rule_minlebesgue}, {"min-delta", rule_mindelta},
    {"fejer2", rule_fejer2}, {"gauss-hermite", rule_gausshermite}, {"custom-tabulated", rule_customtabulated}, {"localp", rule_localp},
    {"localp-zero", rule_localp0}, {"localp-boundary", rule_localpb}, {"semi-localp", rule_semilocalp}, {"wavelet", rule_wavelet},
    {"fourier", rule_fourier}, {"none", rule_none}};
static std::map<std::string, TypeDepth> DEPTHS = {
    {"level", type_level}, {"curved", type_curved}, {"iptotal", type_iptotal}, {"ipcurved", type_ipcurved}, {"qptotal", type_qptotal},
    {"qpcurved", type_qpcurved}, {"hyperbolic", type_hyperbolic}, {"iphyperbolic", type_iphyperbolic}, {"qphyperbolic", type_qphyperbolic},
    {"tensor", type_tensor}, {"iptensor", type_iptensor}, {"qptensor", type_qptensor}, {"none", type_none}};
static std::map<std::string, TypeRefinement> REFS = {
    {"classic", refine_classic}, {"parents", refine_parents_first}, {"direction", refine_direction_selective}, {"fds", refine_fds},
    {"stable", refine_stable}};

static uint64_t mix(uint64_t h) { h ^= h >> 33; h *= 0xff51afd7ed558ccdULL; h ^= h >> 33; h *= 0xc4ceb9fe1a85ec53ULL; h ^= h >> 33; return h; }
struct Hash { uint64_t h = 0x1234567;
    void bytes(const void *p, size_t n) { const unsigned char *c = (const unsigned char *) p; for (size_t i = 0; i < n; i++) h = mix(h ^ c[i]) + 0x9e3779b97f4a7c15ULL; }
    void i(long long v) { bytes(&v, sizeof(v)); }
    void d(const std::vector<double> &v) { i((long long) v.size()); for (double x : v) { double y = x + 0.0; bytes(&y, 8); } }
    void iv(const std::vector<int> &v) { i((long long) v.size()); for (int x : v) i(x); }
    void s(const std::string &v) { i((long long) v.size()); bytes(v.data(), v.size()); } };

static double fn_value(const std::string &fn, const double *x, int d, int j) {
    if (fn == "hash") { uint64_t h = 0x9e3779b97f4a7c15ULL + (uint64_t) j;
        for (int i = 0; i < d; i++) { double v = x[i] + 0.0; uint64_t b; memcpy(&b, &v, 8); h = mix(h ^ b); }
        return ((double) (int64_t) (h % 4001) - 2000.0) / 64.0; }
    if (fn == "poly") { double v = 1.0 + j; for (int i = 0; i < d; i++) v += (i + 1 + j) * x[i] + 0.5 * x[i] * x[i]; if (d > 1) v += x[0] * x[1]; return v; }
    if (fn == "smooth") { double s = 0, q = 0; for (int i = 0; i < d; i++) { s += x[i]; q += x[i] * x[i]; } return std::exp(-0.5 * q) * std::cos(0.3 * j + 0.7 * s) + 0.1 * j; }
    if (fn == "peak") { double q = 0; for (int i = 0; i < d; i++) q += (x[i] - 0.3) * (x[i] - 0.3); return 1.0 / (0.05 + q) + j; }
    throw std::runtime_error("driver: unknown value function " + fn);
}
static std::vector<double> fn_values(const std::string &fn, const std::vector<double> &pts, int d, int outs) {
    size_t n = (d > 0) ? pts.size() / d : 0; std::vector<double> v(n * (size_t) outs);
    for (size_t p = 0; p < n; p++) for (int j = 0; j < outs; j++) v[p * outs + j] = fn_value(fn, pts.data() + p * d, d, j);
    return v;
}

struct Tok { std::vector<std::string> t; size_t p = 0;
    bool more() const { return p < t.size(); }
    std::string next() { if (p >= t.size()) throw std::runtime_error("driver: missing token"); return t[p++]; }
    int ni() { return atoi(next().c_str()); }
    double nd() { return strtod(next().c_str(), nullptr); }
    static bool isKey(const std::string &s) { return !s.empty() && s.back() == ':'; }
    std::vector<int> ints() { std::vector<int> v; while (more() && !isKey(t[p])) v.push_back(ni()); return v; }
    std::map<std::string, std::vector<std::string>> keyed() { std::map<std::string, std::vector<std::string>> m; std::string k;
        while (more()) { std::string s = next(); if (isKey(s)) { k = s; m[k]; } else if (!k.empty()) m[k].push_back(s); } return m; } };
static std::vector<int> toInts(const std::vector<std::string> &v) { std::vector<int> r; for (auto &s : v) r.push_back(atoi(s.c_str())); return r; }
static std::vector<double> toDbls(const std::vector<std::string> &v) { std::vector<double> r; for (auto &s : v) r.push_back(strtod(s.c_str(), nullptr)); return r; }

// ---------------------------------------------------------------- setup commands (valid calls)
static void setup_cmd(G &g, Tok k) {
    std::string cmd = k.next();
    if (cmd == "make") {
        std::string fam = k.next(); int d = k.ni(), outs = k.ni(), depth = k.ni();
        if (fam == "global" || fam == "sequence") { TypeDepth ty = DEPTHS.at(k.next()); TypeOneDRule r = RULES.at(k.next()); auto m = k.keyed();
            std::vector<int> aw = toInts(m["aw:"]), ll = toInts(m["ll:"]); std::string file = m.count("file:") ? (workdir + "/" + m["file:"][0]) : "";
            if (fam == "global") g.makeGlobalGrid(d, outs, depth, ty, r, aw, 0.0, 0.0, file.empty() ? nullptr : file.c_str(), ll); else g.makeSequenceGrid(d, outs, depth, ty, r, aw, ll); }
        else if (fam == "localp") { int order = k.ni(); TypeOneDRule r = RULES.at(k.next()); auto m = k.keyed(); g.makeLocalPolynomialGrid(d, outs, depth, order, r, toInts(m["ll:"])); }
        else if (fam == "wavelet") { int order = k.ni(); auto m = k.keyed(); g.makeWaveletGrid(d, outs, depth, order, toInts(m["ll:"])); }
        else if (fam == "fourier") { TypeDepth ty = DEPTHS.at(k.next()); auto m = k.keyed(); g.makeFourierGrid(d, outs, depth, ty, toInts(m["aw:"]), toInts(m["ll:"])); }
        else throw std::runtime_error("driver: unknown family");
    }
    else if (cmd == "trans") { auto m = k.keyed(); g.setDomainTransform(toDbls(m["a:"]), toDbls(m["b:"])); }
    else if (cmd == "conformal") g.setConformalTransformASIN(k.ints());
    else if (cmd == "load") { std::string fn = k.next(); std::vector<double> pts = (g.getNumNeeded() > 0) ? g.getNeededPoints() : g.getLoadedPoints();
        g.loadNeededValues(fn_values(fn, pts, g.getNumDimensions(), g.getNumOutputs())); }
    else if (cmd == "refsurp") { double tol = k.nd(); TypeRefinement cr = REFS.at(k.next()); int out = k.ni(); g.setSurplusRefinement(tol, cr, out, std::vector<int>()); }
    else if (cmd == "refsimple") { double tol = k.nd(); int out = k.ni(); g.setSurplusRefinement(tol, out, std::vector<int>()); }
    else if (cmd == "refaniso") { TypeDepth ty = DEPTHS.at(k.next()); int mg = k.ni(); int out = k.ni(); g.setAnisotropicRefinement(ty, mg, out, std::vector<int>()); }
    else if (cmd == "update") { int depth = k.ni(); TypeDepth ty = DEPTHS.at(k.next()); g.updateGrid(depth, ty, std::vector<int>(), std::vector<int>()); }
    else if (cmd == "merge") g.mergeRefinement();
    else if (cmd == "setcoef") { std::string fn = k.next(); std::vector<double> c = fn_values(fn, g.getPoints(), g.getNumDimensions(), g.getNumOutputs());
        if (g.isFourier()) { std::vector<double> cc(2 * c.size(), 0.0); std::copy(c.begin(), c.end(), cc.begin()); for (size_t i = 0; i < c.size(); i++) cc[c.size() + i] = 0.25 * c[i]; c = cc; }
        g.setHierarchicalCoefficients(c); }
    else if (cmd == "begin") g.beginConstruction();
    else if (cmd == "park" || cmd == "parkonly") { // deliver the least important candidates (they stay parked) and the most important one
        std::string fn = k.next(); int d = g.getNumDimensions(); std::vector<double> c;
        if (g.isLocalPolynomial() || g.isWavelet()) c = g.getCandidateConstructionPoints(1e-4, refine_classic, -1);
        else c = g.getCandidateConstructionPoints(type_level, std::vector<int>(d, 1));
        size_t n = c.size() / d; std::vector<double> x;
        std::vector<size_t> pick = {n - 1, n - 2}; if (cmd == "park") pick.push_back(0);
        for (size_t i : pick) if (i < n) x.insert(x.end(), c.begin() + i * d, c.begin() + (i + 1) * d);
        g.loadConstructedPoints(x, fn_values(fn, x, d, g.getNumOutputs())); }
    else throw std::runtime_error("driver: unknown setup command " + cmd);
}

// ---------------------------------------------------------------- digests
static std::vector<double> probes(const G &g) {
    // points of the (transformed) domain: loaded points and midpoints of consecutive loaded points
    int d = g.getNumDimensions(); std::vector<double> p = g.getLoadedPoints(); size_t n = p.size() / d; std::vector<double> x;
    for (size_t i = 0; i < n && i < 6; i++) { x.insert(x.end(), p.begin() + i * d, p.begin() + (i + 1) * d);
        if (i + 1 < n) for (int j = 0; j < d; j++) x.push_back(0.5 * (p[i * d + j] + p[(i + 1) * d + j])); }
    return x;
}
struct Digest { uint64_t core, aux, bytes; std::string limits; int loaded, needed; bool empty, constructing; };
static Digest digest(const G &g) {
    Digest r; Hash c, a, b; r.empty = g.empty(); r.loaded = g.getNumLoaded(); r.needed = g.getNumNeeded(); r.constructing = g.isUsingConstruction();
    c.i(g.isGlobal() ? 1 : g.isSequence() ? 2 : g.isLocalPolynomial() ? 3 : g.isWavelet() ? 4 : g.isFourier() ? 5 : 0);
    c.i(g.getNumDimensions()); c.i(g.getNumOutputs()); c.i((int) g.getRule()); c.i(g.getOrder()); c.i(r.loaded); c.i(r.needed); c.i(g.getNumPoints()); c.i(r.constructing);
    if (!g.empty()) {
        int outs = g.getNumOutputs();
        // with zero outputs the library documents getPoints() as the only accessor (getLoadedPoints() sizes its vector by getNumLoaded() == 0)
        if (outs == 0) c.d(g.getPoints()); else { c.d(g.getLoadedPoints()); c.d(g.getNeededPoints()); }
        if (outs > 0 && r.loaded > 0) {
            const double *v = g.getLoadedValues(); c.bytes(v, sizeof(double) * (size_t) outs * r.loaded);
            std::vector<double> x = probes(g), y; g.evaluateBatch(x, y); c.d(y);
        }
    }
    std::vector<int> ll = g.getLevelLimits(); a.iv(ll); { std::ostringstream os; for (int v : ll) os << v << ","; r.limits = os.str(); if (r.limits.empty()) r.limits = "-"; }
    std::vector<double> ta, tb; g.getDomainTransform(ta, tb); a.d(ta); a.d(tb);
    a.i(g.isSetConformalTransformASIN()); if (g.isSetConformalTransformASIN()) a.iv(g.getConformalTransformASIN());
    std::ostringstream os(std::ios::out | std::ios::binary); g.write(os, true); b.s(os.str());
    r.core = c.h; r.aux = a.h; r.bytes = b.h; return r;
}
static void print_digest(const char *tag, const Digest &d) {
    printf("%s core=%016llx aux=%016llx bytes=%016llx limits=%s loaded=%d needed=%d empty=%d constructing=%d\n", tag, (unsigned long long) d.core,
           (unsigned long long) d.aux, (unsigned long long) d.bytes, d.limits.c_str(), d.loaded, d.needed, (int) d.empty, (int) d.constructing);
}

static std::string demangle(const char *n) { int st = 0; char *p = abi::__cxa_demangle(n, nullptr, nullptr, &st); std::string s = (st == 0 && p) ? p : n; free(p); return s; }

// runs f and prints  "<tag> ok" | "<tag> invalid_argument|runtime_error|other:<type> <len> <what>"
template<class F> static bool guarded(const char *tag, F f) {
    try { f(); printf("%s none\n", tag); fflush(stdout); return false; }
    catch (std::exception &e) {
        const std::type_info &ti = typeid(e); std::string ty = (ti == typeid(std::invalid_argument)) ? "invalid_argument" : (ti == typeid(std::runtime_error)) ? "runtime_error" : ("other:" + demangle(ti.name()));
        std::string w = e.what() ? e.what() : ""; std::string w1 = w.substr(0, 160); for (auto &ch : w1) if (ch == '\n') ch = ' ';
        for (auto &ch : ty) if (ch == ' ') ch = '_';
        printf("%s %s %zu %s\n", tag, ty.c_str(), w.size(), w1.c_str()); fflush(stdout); return true; }
    catch (...) { printf("%s other:non-std-exception 0 \n", tag); fflush(stdout); return true; }
}

// ---------------------------------------------------------------- recipes
typedef std::function<void(G &)> Recipe;
static std::map<std::string, Recipe> &recipes() { static std::map<std::string, Recipe> r; return r; }
static std::string wfile(const std::string &name, const std::string &content) { std::string p = workdir + "/" + caseid + "." + name; std::ofstream f(p, std::ios::binary); f << content; return p; }
static std::string valid_bytes(bool binary) { G t; t.makeLocalPolynomialGrid(2, 1, 2, 1, rule_localp, std::vector<int>()); std::ostringstream os(std::ios::out | std::ios::binary); t.write(os, binary); return os.str(); }
static void read_str(G &g, const std::string &s, bool binary) { std::istringstream is(s, std::ios::in | std::ios::binary); g.read(is, binary); }
static const char *GOOD_TABLE = "description: verif table\nlevels: 3\n1 1\n2 3\n3 5\n2.0 0.0\n1.0 -0.5773502691896257\n1.0 0.5773502691896257\n"
                                "0.5555555555555556 -0.7745966692414834\n0.8888888888888888 0.0\n0.5555555555555556 0.7745966692414834\n";

static void register_recipes() {
    auto &R = recipes();
    typedef std::vector<int> VI; typedef std::vector<double> VD;
    auto D = [](G &g) { return std::max(g.getNumDimensions(), 1); };
    // ---- make*: issued on whatever g currently is
    R["mg.dims0"] = [](G &g) { g.makeGlobalGrid(0, 1, 2, type_level, rule_clenshawcurtis, VI()); };
    R["mg.dimsneg"] = [](G &g) { g.makeGlobalGrid(-3, 1, 2, type_level, rule_clenshawcurtis, VI()); };
    R["mg.outsneg"] = [](G &g) { g.makeGlobalGrid(2, -1, 2, type_level, rule_clenshawcurtis, VI()); };
    R["mg.depthneg"] = [](G &g) { g.makeGlobalGrid(2, 1, -1, type_level, rule_clenshawcurtis, VI()); };
    R["mg.rule-localp"] = [](G &g) { g.makeGlobalGrid(2, 1, 2, type_level, rule_localp, VI()); };
    R["mg.rule-fourier"] = [](G &g) { g.makeGlobalGrid(2, 1, 2, type_level, rule_fourier, VI()); };
    R["mg.rule-none"] = [](G &g) { g.makeGlobalGrid(2, 1, 2, type_level, rule_none, VI()); };
    R["mg.aw-long"] = [](G &g) { g.makeGlobalGrid(2, 1, 2, type_level, rule_clenshawcurtis, VI{1, 1, 1}); };
    R["mg.aw-curved-short"] = [](G &g) { g.makeGlobalGrid(2, 1, 2, type_curved, rule_clenshawcurtis, VI{1, 1}); };
    R["mg.ll-long"] = [](G &g) { g.makeGlobalGrid(2, 1, 2, type_level, rule_clenshawcurtis, VI(), 0.0, 0.0, nullptr, VI{1, 1, 1}); };
    R["mg.ll-short"] = [](G &g) { g.makeGlobalGrid(2, 1, 2, type_level, rule_clenshawcurtis, VI(), 0.0, 0.0, nullptr, VI{1}); };
    R["mg.custom-nofilename"] = [](G &g) { g.makeGlobalGrid(2, 1, 1, type_level, rule_customtabulated, VI(), 0.0, 0.0, nullptr, VI{2, 2}); };
    R["mg.custom-nofile"] = [](G &g) { std::string p = workdir + "/does-not-exist/table"; g.makeGlobalGrid(2, 1, 1, type_level, rule_customtabulated, VI(), 0.0, 0.0, p.c_str(), VI{2, 2}); };
    R["mg.custom-nofile-nolimits"] = [](G &g) { std::string p = workdir + "/does-not-exist/table"; g.makeGlobalGrid(2, 1, 1, type_level, rule_customtabulated, VI()); (void) p; };
    R["mg.custom-badformat"] = [](G &g) { std::string p = wfile("badtable", "this is not a table\n1 2 3\n"); g.makeGlobalGrid(2, 1, 1, type_level, rule_customtabulated, VI(), 0.0, 0.0, p.c_str(), VI{2, 2}); };
    R["mg.custom-badline2"] = [](G &g) { std::string p = wfile("badtable2", "description: x\nlevel: 3\n"); g.makeGlobalGrid(2, 1, 1, type_level, rule_customtabulated, VI(), 0.0, 0.0, p.c_str()); };
    R["mg.custom-dir"] = [](G &g) { g.makeGlobalGrid(2, 1, 1, type_level, rule_customtabulated, VI(), 0.0, 0.0, workdir.c_str(), VI{1, 1}); };
    R["mg.custom-tooshort"] = [](G &g) { std::string p = wfile("table", GOOD_TABLE); g.makeGlobalGrid(2, 1, 6, type_level, rule_customtabulated, VI(), 0.0, 0.0, p.c_str(), VI{9, 9}); };
    R["mg.gp-toodeep"] = [](G &g) { g.makeGlobalGrid(2, 1, 12, type_level, rule_gausspatterson, VI(), 0.0, 0.0, nullptr, VI{20, 20}); };
    R["mgraw.dims0"] = [](G &g) { g.makeGlobalGrid(0, 1, 2, type_level, rule_clenshawcurtis, (const int *) nullptr); };
    R["mgraw.outsneg"] = [](G &g) { g.makeGlobalGrid(2, -2, 2, type_level, rule_clenshawcurtis, (const int *) nullptr); };
    R["mgraw.depthneg"] = [](G &g) { g.makeGlobalGrid(2, 1, -2, type_level, rule_clenshawcurtis, (const int *) nullptr); };
    R["mgraw.rule-wavelet"] = [](G &g) { g.makeGlobalGrid(2, 1, 2, type_level, rule_wavelet, (const int *) nullptr); };
    R["ms.dims0"] = [](G &g) { g.makeSequenceGrid(0, 1, 2, type_level, rule_leja, VI()); };
    R["ms.outsneg"] = [](G &g) { g.makeSequenceGrid(2, -1, 2, type_level, rule_leja, VI()); };
    R["ms.depthneg"] = [](G &g) { g.makeSequenceGrid(2, 1, -1, type_level, rule_leja, VI()); };
    R["ms.rule-cc"] = [](G &g) { g.makeSequenceGrid(2, 1, 2, type_level, rule_clenshawcurtis, VI()); };
    R["ms.rule-localp"] = [](G &g) { g.makeSequenceGrid(2, 1, 2, type_level, rule_localp, VI()); };
    R["ms.aw-long"] = [](G &g) { g.makeSequenceGrid(2, 1, 2, type_iptotal, rule_leja, VI{1, 2, 3}); };
    R["ms.aw-curved-short"] = [](G &g) { g.makeSequenceGrid(2, 1, 2, type_ipcurved, rule_leja, VI{1, 2, 3}); };
    R["ms.ll-long"] = [](G &g) { g.makeSequenceGrid(2, 1, 2, type_level, rule_leja, VI(), VI{1, 2, 3}); };
    R["msraw.dims0"] = [](G &g) { g.makeSequenceGrid(0, 1, 2, type_level, rule_leja, (const int *) nullptr); };
    R["msraw.rule-gl"] = [](G &g) { g.makeSequenceGrid(2, 1, 2, type_level, rule_gausslegendre, (const int *) nullptr); };
    R["ml.dims0"] = [](G &g) { g.makeLocalPolynomialGrid(0, 1, 2, 1, rule_localp, VI()); };
    R["ml.outsneg"] = [](G &g) { g.makeLocalPolynomialGrid(2, -1, 2, 1, rule_localp, VI()); };
    R["ml.depthneg"] = [](G &g) { g.makeLocalPolynomialGrid(2, 1, -1, 1, rule_localp, VI()); };
    R["ml.order-2"] = [](G &g) { g.makeLocalPolynomialGrid(2, 1, 2, -2, rule_localp, VI()); };
    R["ml.rule-leja"] = [](G &g) { g.makeLocalPolynomialGrid(2, 1, 2, 1, rule_leja, VI()); };
    R["ml.rule-wavelet"] = [](G &g) { g.makeLocalPolynomialGrid(2, 1, 2, 1, rule_wavelet, VI()); };
    R["ml.ll-long"] = [](G &g) { g.makeLocalPolynomialGrid(2, 1, 2, 1, rule_localp, VI{1, 2, 3}); };
    R["mlraw.dims0"] = [](G &g) { g.makeLocalPolynomialGrid(0, 1, 2, 1, rule_localp, (const int *) nullptr); };
    R["mlraw.order-5"] = [](G &g) { g.makeLocalPolynomialGrid(2, 1, 2, -5, rule_localp, (const int *) nullptr); };
    R["mw.dims0"] = [](G &g) { g.makeWaveletGrid(0, 1, 1, 1, VI()); };
    R["mw.outsneg"] = [](G &g) { g.makeWaveletGrid(2, -1, 1, 1, VI()); };
    R["mw.depthneg"] = [](G &g) { g.makeWaveletGrid(2, 1, -1, 1, VI()); };
    R["mw.order2"] = [](G &g) { g.makeWaveletGrid(2, 1, 1, 2, VI()); };
    R["mw.order0"] = [](G &g) { g.makeWaveletGrid(2, 1, 1, 0, VI()); };
    R["mw.ll-long"] = [](G &g) { g.makeWaveletGrid(2, 1, 1, 1, VI{1, 2, 3}); };
    R["mwraw.dims0"] = [](G &g) { g.makeWaveletGrid(0, 1, 1, 1, (const int *) nullptr); };
    R["mwraw.order5"] = [](G &g) { g.makeWaveletGrid(2, 1, 1, 5, (const int *) nullptr); };
    R["mf.dims0"] = [](G &g) { g.makeFourierGrid(0, 1, 2, type_level, VI()); };
    R["mf.outsneg"] = [](G &g) { g.makeFourierGrid(2, -1, 2, type_level, VI()); };
    R["mf.depthneg"] = [](G &g) { g.makeFourierGrid(2, 1, -1, type_level, VI()); };
    R["mf.aw-long"] = [](G &g) { g.makeFourierGrid(2, 1, 2, type_level, VI{1, 2, 3}); };
    R["mf.ll-long"] = [](G &g) { g.makeFourierGrid(2, 1, 2, type_level, VI(), VI{1, 2, 3}); };
    R["mfraw.dims0"] = [](G &g) { g.makeFourierGrid(0, 1, 2, type_level, (const int *) nullptr); };
    R["mfraw.depthneg"] = [](G &g) { g.makeFourierGrid(2, 1, -4, type_level, (const int *) nullptr); };
    // ---- update
    R["upd.vec"] = [](G &g) { g.updateGrid(2, type_level, VI()); };
    R["upd.vec-limits"] = [D](G &g) { g.updateGrid(2, type_level, VI(), VI(D(g), 1)); };
    R["upd.raw"] = [](G &g) { g.updateGrid(2, type_level); };
    R["upd.depthneg"] = [](G &g) { g.updateGrid(-1, type_level, VI()); };
    R["upd.aw-long"] = [D](G &g) { g.updateGrid(3, type_level, VI(D(g) + 1, 1)); };
    R["upd.ll-long"] = [D](G &g) { g.updateGrid(3, type_level, VI(), VI(D(g) + 1, 1)); };
    R["updglobal.vec"] = [](G &g) { g.updateGlobalGrid(2, type_level, VI()); };
    R["updglobal.depthneg"] = [](G &g) { g.updateGlobalGrid(-1, type_level, VI()); };
    R["updglobal.aw-long"] = [D](G &g) { g.updateGlobalGrid(3, type_level, VI(D(g) + 1, 1)); };
    R["updseq.vec"] = [](G &g) { g.updateSequenceGrid(2, type_level, VI()); };
    R["updseq.depthneg"] = [](G &g) { g.updateSequenceGrid(-1, type_level, VI()); };
    R["updseq.ll-long"] = [D](G &g) { g.updateSequenceGrid(3, type_level, VI(), VI(D(g) + 2, 1)); };
    R["updfourier.vec"] = [](G &g) { g.updateFourierGrid(2, type_level, VI()); };
    R["updfourier.depthneg"] = [](G &g) { g.updateFourierGrid(-1, type_level, VI()); };
    R["updfourier.aw-long"] = [D](G &g) { g.updateFourierGrid(3, type_level, VI(D(g) + 1, 1)); };
    R["upd.table-toodeep"] = [D](G &g) { g.updateGrid(14, type_level, VI(), VI(D(g), 20)); };
    // ---- weights / evaluate / load
    R["iw.long"] = [D](G &g) { g.getInterpolationWeights(VD(D(g) + 1, 0.1)); };
    R["iw.short"] = [D](G &g) { g.getInterpolationWeights(VD(D(g) - 1, 0.1)); };
    R["iw2.long"] = [D](G &g) { VD w; g.getInterpolationWeights(VD(D(g) + 2, 0.1), w); };
    R["dw.long"] = [D](G &g) { g.getDifferentiationWeights(VD(D(g) + 1, 0.1)); };
    R["dw.short"] = [D](G &g) { g.getDifferentiationWeights(VD(D(g) - 1, 0.1)); };
    R["dw2.long"] = [D](G &g) { VD w; g.getDifferentiationWeights(VD(D(g) + 3, 0.1), w); };
    auto need = [](G &g) { size_t n = (size_t) g.getNumNeeded(); if (n == 0) n = (size_t) g.getNumPoints(); return n * (size_t) g.getNumOutputs(); };
    R["load.long"] = [need](G &g) { g.loadNeededValues(VD(need(g) + 1, 1.0)); };
    R["load.short"] = [need](G &g) { size_t n = need(g); g.loadNeededValues(VD(n > 0 ? n - 1 : 3, 1.0)); };
    R["load.empty"] = [need](G &g) { size_t n = need(g); g.loadNeededValues(n > 0 ? VD() : VD(2, 1.0)); };
    R["loadpts.long"] = [need](G &g) { g.loadNeededPoints(VD(need(g) + 5, 1.0)); };
    R["eval.long"] = [D](G &g) { VD y; g.evaluate(VD(D(g) + 1, 0.1), y); };
    R["eval.short"] = [D](G &g) { VD y; g.evaluate(VD(D(g) - 1, 0.1), y); };
    R["evalbatch.float"] = [D](G &g) { std::vector<float> x(D(g), 0.1f), y; g.evaluateBatch(x, y); };
    R["evalfast.float"] = [D](G &g) { std::vector<float> x(D(g), 0.1f), y; g.evaluateFast(x, y); };
    R["evalbatch.floatraw"] = [D](G &g) { std::vector<float> x(D(g), 0.1f), y(8, 0.0f); g.evaluateBatch(x.data(), 1, y.data()); };
    R["evalbatchgpu.double"] = [D](G &g) { VD x(D(g), 0.1), y(8, 0.0); g.evaluateBatchGPU(x.data(), 1, y.data()); };
    R["evalbatchgpu.float"] = [D](G &g) { std::vector<float> x(D(g), 0.1f), y(8, 0.0f); g.evaluateBatchGPU(x.data(), 1, y.data()); };
    // ---- transforms
    R["trans.a-long"] = [D](G &g) { g.setDomainTransform(VD(D(g) + 1, 0.0), VD(D(g), 2.0)); };
    R["trans.b-long"] = [D](G &g) { g.setDomainTransform(VD(D(g), 0.0), VD(D(g) + 1, 2.0)); };
    R["trans.both-short"] = [D](G &g) { g.setDomainTransform(VD(D(g) - 1, 0.0), VD(D(g) - 1, 2.0)); };
    R["trans.a-empty"] = [D](G &g) { g.setDomainTransform(VD(), VD(D(g), 2.0)); };
    R["trans.empty-grid"] = [](G &g) { g.setDomainTransform(VD{0.0, 0.0}, VD{1.0, 1.0}); };
    R["transraw.empty-grid"] = [](G &g) { double a[2] = {0, 0}, b[2] = {1, 1}; g.setDomainTransform(a, b); };
    R["gettrans.raw"] = [](G &g) { double a[8], b[8]; g.getDomainTransform(a, b); };
    R["getconformal.unset"] = [](G &g) { g.getConformalTransformASIN(); };
    R["setconformal.empty-grid"] = [](G &g) { g.setConformalTransformASIN(VI{4, 4}); };
    // ---- refinement
    R["aniso.call"] = [](G &g) { g.setAnisotropicRefinement(type_iptotal, 1, 0, VI()); };
    R["anisoraw.call"] = [](G &g) { g.setAnisotropicRefinement(type_iptotal, 1, 0); };
    R["aniso.call-limits"] = [D](G &g) { g.setAnisotropicRefinement(type_iptotal, 1, 0, VI(D(g), 1)); };
    R["getaniso.call"] = [](G &g) { g.getAnisotropicRefinement(type_iptotal, 1, 0, VI()); };
    R["aniso.growth0"] = [](G &g) { g.setAnisotropicRefinement(type_iptotal, 0, 0, VI()); };
    R["aniso.growthneg"] = [D](G &g) { g.setAnisotropicRefinement(type_iptotal, -3, 0, VI(D(g), 2)); };
    R["aniso.out-high"] = [](G &g) { g.setAnisotropicRefinement(type_iptotal, 1, g.getNumOutputs(), VI()); };
    R["aniso.out-low"] = [D](G &g) { g.setAnisotropicRefinement(type_iptotal, 1, -2, VI(D(g), 2)); };
    R["aniso.ll-long"] = [D](G &g) { g.setAnisotropicRefinement(type_iptotal, 1, 0, VI(D(g) + 1, 2)); };
    R["anisoraw.growth0"] = [](G &g) { g.setAnisotropicRefinement(type_iptotal, 0, 0); };
    R["anisoraw.out-high"] = [](G &g) { g.setAnisotropicRefinement(type_iptotal, 1, g.getNumOutputs() + 3); };
    R["estimate.call"] = [](G &g) { g.estimateAnisotropicCoefficients(type_iptotal, 0); };
    R["estimate.out-high"] = [](G &g) { g.estimateAnisotropicCoefficients(type_iptotal, g.getNumOutputs()); };
    R["estimate.out-low"] = [](G &g) { g.estimateAnisotropicCoefficients(type_iptotal, -2); };
    R["surp.call"] = [](G &g) { g.setSurplusRefinement(0.01, 0, VI()); };
    R["surpraw.call"] = [](G &g) { g.setSurplusRefinement(0.01, 0); };
    R["surp.call-limits"] = [D](G &g) { g.setSurplusRefinement(0.01, 0, VI(D(g), 1)); };
    R["getsurp.call"] = [](G &g) { g.getSurplusRefinement(0.01, 0, VI()); };
    R["surp.out-high"] = [](G &g) { g.setSurplusRefinement(0.01, g.getNumOutputs(), VI()); };
    R["surp.out-low"] = [D](G &g) { g.setSurplusRefinement(0.01, -2, VI(D(g), 2)); };
    R["surp.tolneg"] = [](G &g) { g.setSurplusRefinement(-0.5, 0, VI()); };
    R["surp.tolneg-limits"] = [D](G &g) { g.setSurplusRefinement(-0.5, 0, VI(D(g), 2)); };
    R["surp.ll-long"] = [D](G &g) { g.setSurplusRefinement(0.01, 0, VI(D(g) + 1, 2)); };
    R["lsurp.call"] = [](G &g) { g.setSurplusRefinement(0.01, refine_classic, 0, VI()); };
    R["lsurp.call-limits"] = [D](G &g) { g.setSurplusRefinement(0.01, refine_classic, 0, VI(D(g), 1)); };
    R["lsurpraw.call"] = [](G &g) { g.setSurplusRefinement(0.01, refine_classic, 0); };
    R["lsurpraw.call-limits"] = [D](G &g) { VI l(D(g), 1); g.setSurplusRefinement(0.01, refine_classic, 0, l.data()); };
    R["getlsurp.call"] = [](G &g) { g.getSurplusRefinement(0.01, refine_classic, 0, VI()); };
    R["lsurp.out-high"] = [](G &g) { g.setSurplusRefinement(0.01, refine_classic, g.getNumOutputs(), VI()); };
    R["lsurp.out-high-limits"] = [D](G &g) { g.setSurplusRefinement(0.01, refine_classic, g.getNumOutputs(), VI(D(g), 2)); };
    R["lsurp.out-low"] = [](G &g) { g.setSurplusRefinement(0.01, refine_fds, -2, VI()); };
    R["lsurp.ll-long"] = [D](G &g) { g.setSurplusRefinement(0.01, refine_classic, 0, VI(D(g) + 1, 2)); };
    R["lsurp.scale-long"] = [](G &g) { g.setSurplusRefinement(0.01, refine_classic, 0, VI(), VD((size_t) g.getNumLoaded() + 1, 1.0)); };
    R["lsurp.scale-short-all"] = [](G &g) { g.setSurplusRefinement(0.01, refine_classic, -1, VI(), VD((size_t) g.getNumLoaded() * g.getNumOutputs() + 2, 1.0)); };
    R["lsurp.tolneg-limits"] = [D](G &g) { g.setSurplusRefinement(-1.0, refine_classic, 0, VI(D(g), 2)); };
    R["lsurpraw.out-high"] = [](G &g) { g.setSurplusRefinement(0.01, refine_classic, g.getNumOutputs() + 1); };
    // ---- construction
    R["cand.aw"] = [D](G &g) { g.getCandidateConstructionPoints(type_level, VI(D(g), 1)); };
    R["cand.aw-limits"] = [D](G &g) { g.getCandidateConstructionPoints(type_level, VI(D(g), 1), VI(D(g), 1)); };
    R["cand.aw-long"] = [D](G &g) { g.getCandidateConstructionPoints(type_level, VI(D(g) + 1, 1)); };
    R["cand.aw-empty"] = [](G &g) { g.getCandidateConstructionPoints(type_level); };
    R["cand.aw-curved-short"] = [D](G &g) { g.getCandidateConstructionPoints(type_ipcurved, VI(D(g), 1)); };
    R["cand.aw-curved-short-plain"] = [D](G &g) { g.getCandidateConstructionPoints(type_curved, VI(D(g), 1)); };       // every curved type needs 2 * dimensions weights
    R["cand.aw-curved-short-qp"] = [D](G &g) { g.getCandidateConstructionPoints(type_qpcurved, VI(D(g), 1)); };
    R["cand.aw-level-long2"] = [D](G &g) { g.getCandidateConstructionPoints(type_qptotal, VI(2 * D(g), 1)); };          // and every other type exactly dimensions
    R["cand.aw-ll-long"] = [D](G &g) { g.getCandidateConstructionPoints(type_level, VI(D(g), 1), VI(D(g) + 1, 3)); };
    R["cand.out"] = [](G &g) { g.getCandidateConstructionPoints(type_iptotal, 0); };
    R["cand.out-high"] = [](G &g) { g.getCandidateConstructionPoints(type_iptotal, g.getNumOutputs()); };
    R["cand.out-low"] = [D](G &g) { g.getCandidateConstructionPoints(type_iptotal, -2, VI(D(g), 3)); };
    R["cand.out-ll-long"] = [D](G &g) { g.getCandidateConstructionPoints(type_iptotal, 0, VI(D(g) + 1, 3)); };
    R["cand.surp"] = [](G &g) { g.getCandidateConstructionPoints(0.01, refine_classic, 0); };
    R["cand.surp-out-high"] = [](G &g) { g.getCandidateConstructionPoints(0.01, refine_classic, g.getNumOutputs()); };
    R["cand.surp-ll-long"] = [D](G &g) { g.getCandidateConstructionPoints(0.01, refine_classic, 0, VI(D(g) + 1, 3)); };
    R["loadc.y-short"] = [D](G &g) { int d = D(g); g.loadConstructedPoints(VD(2 * d, 0.0), VD((size_t) std::max(g.getNumOutputs() * 2 - 1, 0), 1.0)); };
    R["loadc.y-empty"] = [D](G &g) { int d = D(g); g.loadConstructedPoints(VD(d, 0.0), VD()); };
    R["loadc.call"] = [D](G &g) { int d = D(g); g.loadConstructedPoints(VD(d, 0.0), VD((size_t) g.getNumOutputs(), 1.0)); };
    R["loadcraw.call"] = [D](G &g) { int d = D(g); VD x(d, 0.0), y((size_t) g.getNumOutputs() + 1, 1.0); g.loadConstructedPoints(x.data(), 1, y.data()); };
    R["begin.empty-grid"] = [](G &g) { g.beginConstruction(); };
    // ---- hierarchical
    R["coef.long"] = [](G &g) { g.setHierarchicalCoefficients(VD((size_t) g.getNumOutputs() * g.getNumPoints() * (g.isFourier() ? 2 : 1) + 1, 0.5)); };
    R["coef.empty"] = [](G &g) { size_t n = (size_t) g.getNumOutputs() * g.getNumPoints(); g.setHierarchicalCoefficients(n > 0 ? VD() : VD(3, 0.5)); };
    R["coef.fourier-half"] = [](G &g) { g.setHierarchicalCoefficients(VD((size_t) g.getNumOutputs() * g.getNumPoints(), 0.5)); };
    R["polyspace.call"] = [](G &g) { g.getGlobalPolynomialSpace(true); };
    R["polyspace.quad"] = [](G &g) { g.getGlobalPolynomialSpace(false); };
    R["remove.tol"] = [](G &g) { g.removePointsByHierarchicalCoefficient(0.5, 0); };
    R["remove.count"] = [](G &g) { g.removePointsByHierarchicalCoefficient(3, 0); };
    R["hbasis.empty-grid"] = [](G &g) { VD y; g.evaluateHierarchicalFunctions(VD{0.1, 0.1}, y); };
    R["hsparse.call"] = [D](G &g) { VI p, i; VD v; g.evaluateSparseHierarchicalFunctions(VD(D(g), 0.1), p, i, v); };
    R["hint.empty-grid"] = [](G &g) { g.integrateHierarchicalFunctions(); };
    R["pidx.empty-grid"] = [](G &g) { g.getPointsIndexes(); };
    R["nidx.call"] = [](G &g) { g.getNeededIndexes(); };
    R["diff.conformal"] = [D](G &g) { g.setConformalTransformASIN(VI(D(g), 4)); VD j; g.differentiate(VD(D(g), 0.1), j); };
    // ---- acceleration
    R["cublas"] = [](G &g) { int x = 0; g.setCuBlasHandle(&x); };
    R["cusparse"] = [](G &g) { int x = 0; g.setCuSparseHandle(&x); };
    R["cusolver"] = [](G &g) { int x = 0; g.setCuSolverHandle(&x); };
    R["rocblas"] = [](G &g) { int x = 0; g.setRocBlasHandle(&x); };
    R["rocsparse"] = [](G &g) { int x = 0; g.setRocSparseHandle(&x); };
    R["sycl"] = [](G &g) { int x = 0; g.setSycleQueue(&x); };
    R["gpuid.neg"] = [](G &g) { g.setGPUID(-1); };
    R["gpuid.high"] = [](G &g) { g.setGPUID(G::getNumGPUs() + 5); };
    R["gpuid.cuda-high"] = [](G &g) { g.enableAcceleration(accel_gpu_cuda, G::getNumGPUs() + 5); };
    R["hbasisgpu"] = [D](G &g) { VD x(D(g), 0.1), y(64, 0.0); g.evaluateHierarchicalFunctionsGPU(x.data(), 1, y.data()); };
    R["hbasisgpu.float"] = [D](G &g) { std::vector<float> x(D(g), 0.1f), y(64, 0.0f); g.evaluateHierarchicalFunctionsGPU(x.data(), 1, y.data()); };
    R["hsparsegpu"] = [D](G &g) { VD x(D(g), 0.1); int *p = nullptr, *i = nullptr; double *v = nullptr; int nz = 0; g.evaluateSparseHierarchicalFunctionsGPU(x.data(), 1, p, i, v, nz); };
    // ---- files and streams
    R["rb.magic"] = [](G &g) { std::string s = valid_bytes(true); s[0] = 'X'; read_str(g, s, true); };
    R["rb.magic3"] = [](G &g) { std::string s = valid_bytes(true); s[2] = 'g'; read_str(g, s, true); };
    R["rb.version"] = [](G &g) { std::string s = valid_bytes(true); s[3] = '4'; read_str(g, s, true); };
    R["rb.version-future"] = [](G &g) { std::string s = valid_bytes(true); s[3] = '9'; read_str(g, s, true); };
    R["rb.type"] = [](G &g) { std::string s = valid_bytes(true); s[4] = 'x'; read_str(g, s, true); };
    R["rb.type-upper"] = [](G &g) { std::string s = valid_bytes(true); s[4] = 'P'; read_str(g, s, true); };
    R["rb.trunc0"] = [](G &g) { read_str(g, "", true); };
    R["rb.trunc2"] = [](G &g) { read_str(g, "TS", true); };
    R["rb.trunc3"] = [](G &g) { read_str(g, "TSG", true); };
    R["rb.domainflag"] = [](G &g) { std::string s = valid_bytes(true); s[s.size() - 5] = 'q'; read_str(g, s, true); };
    R["rb.endflag"] = [](G &g) { std::string s = valid_bytes(true); s[s.size() - 1] = 'q'; read_str(g, s, true); };
    R["rb.empty-domain"] = [](G &g) { read_str(g, std::string("TSG5ey") + std::string(64, '\0'), true); };
    R["rb.empty-conformal"] = [](G &g) { read_str(g, std::string("TSG5ena") + std::string(64, '\0'), true); };
    R["rb.empty-limits"] = [](G &g) { read_str(g, std::string("TSG5enny") + std::string(64, '\0'), true); };
    R["ra.empty-domain"] = [](G &g) { G e; std::ostringstream os; e.write(os, false); std::string s = os.str(); size_t p = s.find("canonical"); s.replace(p, 9, "custom\n0.0 1.0"); read_str(g, s, false); };
    R["rb.ascii-as-binary"] = [](G &g) { read_str(g, valid_bytes(false), true); };
    R["ra.word1"] = [](G &g) { std::string s = valid_bytes(false); s.replace(0, 9, "TASMANIAM"); read_str(g, s, false); };
    R["ra.word2"] = [](G &g) { std::string s = valid_bytes(false); s.replace(10, 2, "GS"); read_str(g, s, false); };
    R["ra.future"] = [](G &g) { std::string s = valid_bytes(false); size_t e = s.find('\n'); s.replace(13, e - 13, "99.0"); read_str(g, s, false); };
    R["ra.future-minor"] = [](G &g) { std::string s = valid_bytes(false); size_t e = s.find('\n'); s.replace(13, e - 13, std::to_string(G::getVersionMajor()) + "." + std::to_string(G::getVersionMinor() + 1)); read_str(g, s, false); };
    R["ra.old"] = [](G &g) { std::string s = valid_bytes(false); size_t e = s.find('\n'); s.replace(13, e - 13, "2.1"); read_str(g, s, false); };
    R["ra.nodot"] = [](G &g) { std::string s = valid_bytes(false); size_t e = s.find('\n'); s.replace(13, e - 13, "seven"); read_str(g, s, false); };
    R["ra.version-text"] = [](G &g) { std::string s = valid_bytes(false); size_t e = s.find('\n'); s.replace(13, e - 13, "x.y"); read_str(g, s, false); };
    R["ra.version-huge"] = [](G &g) { std::string s = valid_bytes(false); size_t e = s.find('\n'); s.replace(13, e - 13, "99999999999999999999.0"); read_str(g, s, false); };
    R["ra.warning"] = [](G &g) { std::string s = valid_bytes(false); size_t p = s.find("WARNING"); s.replace(p, 7, "CAUTION"); read_str(g, s, false); };
    R["ra.type"] = [](G &g) { std::string s = valid_bytes(false); size_t p = s.find("localpolynomial"); s.replace(p, 15, "hypercube"); read_str(g, s, false); };
    R["ra.empty"] = [](G &g) { read_str(g, "", false); };
    R["ra.binary-as-ascii"] = [](G &g) { read_str(g, valid_bytes(true), false); };
    R["ra.domain"] = [](G &g) { std::string s = valid_bytes(false); size_t p = s.find("canonical"); s.replace(p, 9, "spherical"); read_str(g, s, false); };
    R["ra.end"] = [](G &g) { std::string s = valid_bytes(false); size_t p = s.rfind("TASMANIAN SG end"); s.replace(p, 16, "TASMANIAN SG fin"); read_str(g, s, false); };
    R["rf.nofile"] = [](G &g) { g.read((workdir + "/no-such-dir/no-such-file").c_str()); };
    R["rf.nofile-string"] = [](G &g) { g.read(workdir + "/no-such-file.tsg"); };
    R["rf.dir"] = [](G &g) { g.read(workdir.c_str()); };
    R["rf.emptyfile"] = [](G &g) { g.read(wfile("empty", "").c_str()); };
    R["rf.magic"] = [](G &g) { std::string s = valid_bytes(true); s[1] = 's'; g.read(wfile("badmagic", s).c_str()); };
    R["rf.version"] = [](G &g) { std::string s = valid_bytes(true); s[3] = '6'; g.read(wfile("badversion", s).c_str()); };
    R["rf.type"] = [](G &g) { std::string s = valid_bytes(true); s[4] = 'z'; g.read(wfile("badtype", s).c_str()); };
    R["rf.text"] = [](G &g) { g.read(wfile("text", "hello world\nthis is not a grid\n").c_str()); };
    R["rf.future"] = [](G &g) { std::string s = valid_bytes(false); size_t e = s.find('\n'); s.replace(13, e - 13, "42.7"); g.read(wfile("future", s).c_str()); };
    R["rf.trunc4"] = [](G &g) { g.read(wfile("trunc4", "TSG5").c_str()); };
    R["wf.nodir"] = [](G &g) { g.write((workdir + "/no-such-dir/out.tsg").c_str(), true); };
    R["wf.nodir-ascii"] = [](G &g) { g.write((workdir + "/no-such-dir/out.tsg").c_str(), false); };
}

// ---------------------------------------------------------------- follow-ups
static void follow(const char *who, G &g, std::vector<int> L) {
    char tag[64];
    auto T = [&](const char *n) { snprintf(tag, sizeof(tag), "f %s %s", who, n); return tag; };
    auto H = [&](const char *n, uint64_t h) { printf("f %s %s.value %016llx\n", who, n, (unsigned long long) h); };
    if (g.empty()) {
        guarded(T("empty.queries"), [&]() { Hash h; h.i(g.getNumPoints()); h.i(g.getNumDimensions()); h.i(g.getNumOutputs()); h.i(g.isEmpty()); h.iv(g.getLevelLimits()); H("empty.queries", h.h); });
        guarded(T("empty.write-read"), [&]() { for (bool bin : {true, false}) { std::ostringstream os(std::ios::out | std::ios::binary); g.write(os, bin); G r; read_str(r, os.str(), bin); Hash h; h.s(os.str()); h.i(r.empty()); H(bin ? "empty.write-read-bin" : "empty.write-read-ascii", h.h); } });
        guarded(T("empty.copy"), [&]() { G c; c.copyGrid(g); G c2(g); Hash h; h.i(c.empty()); h.i(c2.empty()); H("empty.copy", h.h); });
        guarded(T("empty.remake"), [&]() { g.makeLocalPolynomialGrid(2, 1, 2, 1, rule_localp, std::vector<int>()); g.loadNeededValues(fn_values("poly", g.getNeededPoints(), 2, 1)); H("empty.remake", digest(g).bytes); });
        if (g.empty()) return;
    }
    int d = g.getNumDimensions(), outs = g.getNumOutputs();
    // the refinement follow-ups pass the level limits the grid had BEFORE the bad call explicitly (no restriction = -1), so that they do not
    // depend on limits stored by a failed call (that effect is reported separately from the digests)
    if (L.size() != (size_t) d) L = std::vector<int>((size_t) d, -1);
    guarded(T("evaluate"), [&]() { Hash h; if (outs > 0 && g.getNumLoaded() > 0) { std::vector<double> x = probes(g), y; g.evaluateBatch(x, y); h.d(y); std::vector<double> y1; g.evaluate(std::vector<double>(x.begin(), x.begin() + d), y1); h.d(y1); h.d(g.integrate()); } H("evaluate", h.h); });
    guarded(T("getpoints"), [&]() { Hash h; if (g.getNumPoints() > 0) { h.d(g.getPoints()); if (outs > 0) { h.d(g.getLoadedPoints()); h.d(g.getNeededPoints()); } h.d(g.getQuadratureWeights()); } H("getpoints", h.h); });
    guarded(T("refine"), [&]() { Hash h;
        if (g.isUsingConstruction()) { if (outs > 0) { if (g.isLocalPolynomial() || g.isWavelet()) h.d(g.getCandidateConstructionPoints(1e-3, refine_classic, -1, L)); else h.d(g.getCandidateConstructionPoints(type_level, std::vector<int>(d, 1), L)); } }
        else if (outs > 0 && g.getNumLoaded() > 0) {
            if (g.isLocalPolynomial() || g.isWavelet()) g.setSurplusRefinement(1e-3, refine_classic, -1, L);
            else if (g.isSequence()) g.setSurplusRefinement(1e-3, 0, L);
            else if (g.isFourier() || (g.isGlobal() && g.getRule() != rule_gausslegendre && g.getRule() != rule_customtabulated)) g.setAnisotropicRefinement(type_iptotal, 2, 0, L);
            h.d(g.getNeededPoints()); }
        H("refine", h.h); });
    guarded(T("load"), [&]() { Hash h;
        if (g.isUsingConstruction()) { if (outs > 0) { std::vector<double> c = (g.isLocalPolynomial() || g.isWavelet()) ? g.getCandidateConstructionPoints(1e-3, refine_classic, -1, L) : g.getCandidateConstructionPoints(type_level, std::vector<int>(d, 1), L);
                if (c.size() >= (size_t) d) { std::vector<double> x(c.begin(), c.begin() + d); g.loadConstructedPoints(x, fn_values("smooth", x, d, outs)); } } }
        else if (outs > 0) { std::vector<double> pts = (g.getNumNeeded() > 0) ? g.getNeededPoints() : g.getLoadedPoints(); g.loadNeededValues(fn_values("smooth", pts, d, outs)); }
        h.i(g.getNumLoaded()); h.i(g.getNumNeeded()); H("load", h.h); });
    guarded(T("write"), [&]() { for (bool bin : {true, false}) { std::ostringstream os(std::ios::out | std::ios::binary); g.write(os, bin); G r; read_str(r, os.str(), bin);
            Digest a = digest(g), b = digest(r); Hash h; h.s(bin ? os.str() : std::string("ascii")); H(bin ? "write-bin" : "write-ascii", h.h);
            printf("f %s %s %s\n", who, bin ? "readback-bin" : "readback-ascii", (a.bytes == b.bytes && a.core == b.core) ? "same" : (bin ? "DIFFERENT" : (a.loaded == b.loaded && a.needed == b.needed ? "same-counts" : "DIFFERENT"))); } });
    guarded(T("copy"), [&]() { G c; c.copyGrid(g); Digest a = digest(g), b = digest(c); printf("f %s copy-digest %s\n", who, (a.core == b.core && a.aux == b.aux && a.bytes == b.bytes) ? "same" : "DIFFERENT"); G c2; c2 = g; (void) c2.getNumPoints(); });
    print_digest((std::string("f ") + who + " final").c_str(), digest(g));
}

int main(int argc, char **argv) {
    register_recipes();
    if (argc > 1 && std::string(argv[1]) == "--list") { for (auto &p : recipes()) printf("%s\n", p.first.c_str()); return 0; }
    if (argc < 2) { fprintf(stderr, "usage: misusedrv script [workdir] [case-timeout-seconds] | --list\n"); return 2; }
    if (argc > 2) workdir = argv[2];
    int case_timeout = (argc > 3) ? atoi(argv[3]) : 20;
    std::ifstream in(argv[1]); std::string line; std::vector<std::vector<std::string>> cases;
    while (std::getline(in, line)) { if (line.compare(0, 5, "case ") == 0 || cases.empty()) cases.emplace_back(); cases.back().push_back(line); }
    for (auto &c : cases) {
        fflush(stdout); fflush(stderr);
        pid_t pid = fork();
        if (pid == 0) {
            verif_case_limit(case_timeout);
            G g, h; bool setup_ok = true;
            for (auto &l : c) {
                Tok k; { std::istringstream ss(l); std::string t; while (ss >> t) k.t.push_back(t); }
                if (k.t.empty() || k.t[0][0] == '#') continue;
                std::string cmd = k.next();
                if (cmd == "case") { caseid = k.next(); printf("case %s\n", caseid.c_str()); fprintf(stderr, "@@case %s\n", caseid.c_str()); fflush(stderr); }
                else if (cmd == "setup") { Tok k1 = k, k2 = k; bool e1 = guarded("s", [&]() { setup_cmd(g, k1); }); if (e1) setup_ok = false; else { try { setup_cmd(h, k2); } catch (...) { setup_ok = false; } } }
                else if (cmd == "bad") {
                    if (!setup_ok) { printf("skip setup-failed\n"); break; }
                    std::string name = k.next(); auto it = recipes().find(name);
                    if (it == recipes().end()) { printf("skip unknown-recipe %s\n", name.c_str()); break; }
                    print_digest("pre", digest(g)); print_digest("twin", digest(h)); fflush(stdout);
                    printf("callbegin\n"); fflush(stdout);
                    guarded("x", [&]() { it->second(g); });
                    print_digest("post", digest(g)); fflush(stdout);
                }
                else if (cmd == "follow") { if (!setup_ok) break; std::vector<int> L = h.getLevelLimits();
                    if (g.empty()) { G fresh; follow("r", fresh, L); } else follow("r", h, L);      // the reference first: a failure there is not caused by the bad call
                    printf("f r end ok\n"); fflush(stdout);
                    follow("g", g, L); printf("f g end ok\n"); }
                fflush(stdout);
            }
            printf("done\n"); fflush(stdout);
            _exit(0);
        }
        int status = 0; waitpid(pid, &status, 0);
        if (WIFSIGNALED(status)) { if (verif_is_timeout(WTERMSIG(status))) printf("crash hang no return within %d s\n", case_timeout); else printf("crash signal %d\n", WTERMSIG(status)); }
        else if (WIFEXITED(status) && WEXITSTATUS(status) != 0) printf("crash exit %d\n", WEXITSTATUS(status));
        fflush(stdout);
    }
    return 0;
}
