// condrv: the shared script interpreter harness/tsgdrv.cpp (all its commands, see the grammar in its header comment)
// plus the white-box (read-only) observations that C09 / C11 need and tsgdrv does not have:
//
//   xdump <s> parked      dynamic construction data of the grid in slot <s>:
//                           o cstate <0|1>                      1 when a dynamic_values object exists
//                           o cinit n i..                       SimpleConstructData::initial_points (Sequence/LocalPoly/Wavelet)
//                           o cparked n i..                     multi-indexes of the parked samples (list order)
//                           o cpvals n v..                      their value blocks (list order)
//                           o ctens n i..  / o ctw n w.. / o ctdone n 0|1..   registered tensors, weights, "all points present"
//                                                               flags (Global / Fourier)
//   copyx <dst> <src> <b> <e>   copyGrid(src, b, e) WITHOUT the range check of the harness (for the documented
//                         "outputs_end outside of the range" behaviour)
//   selfassign <s>        g = g  (operator= with the same object on both sides)
//   make custom <s> <dims> <outs> <depth> <type> <file> [aw: i..] [ll: i..]
//                         Global grid with rule_customtabulated, the table is read from <workdir>/<file> (same spelling as harness/iodrv.cpp)
//   loadoff <s> <fn> <off>   as "load", the value of output j is fn(x) of output j + off (a sub-range copy is loaded with the values of its own range)
//   xdump <s> custom      white-box: the CustomTabulated table held by the Global grid in slot <s>:
//                           o custlev n  num_levels num_nodes.. precision..   /  o custtab n  weights and nodes of every level  /  o custdesc n bytes
//
// tsgdrv.cpp is compiled into this file unchanged (its main() is renamed); the case loop below is the same
// fork-per-case loop with a CPU alarm.
#define main tsgdrv_main_unused
#include "tsgdrv.cpp"
#include "caselimit.hpp"
#undef main

static void pparked(const std::forward_list<NodeData> &data, size_t d, size_t outs) {
    std::vector<int> ix; std::vector<double> vals;
    for (auto const &n : data) { ix.insert(ix.end(), n.point.begin(), n.point.end()); vals.insert(vals.end(), n.value.begin(), n.value.end()); }
    (void) d; (void) outs;
    pi("cparked", ix); pd("cpvals", vals);
}
static void psimple(const SimpleConstructData *dv, size_t d, size_t outs) {
    printf("o cstate %d\n", dv ? 1 : 0); if (!dv) return;
    if (dv->initial_points.empty()) pi("cinit", nullptr, 0); else pi("cinit", dv->initial_points.indexes);
    pparked(dv->data, d, outs);
}
static void pglobal(const DynamicConstructorDataGlobal *dv, size_t d, size_t outs) {
    printf("o cstate %d\n", dv ? 1 : 0); if (!dv) return;
    std::vector<int> tens, done; std::vector<double> w;
    for (auto const &t : dv->tensors) { tens.insert(tens.end(), t.tensor.begin(), t.tensor.end()); w.push_back(t.weight); done.push_back(t.loaded.empty() ? 1 : 0); }
    pi("ctens", tens); pd("ctw", w); pi("ctdone", done);
    pparked(dv->data, d, outs);
}

static bool run_extra(const std::string &line) {
    Tok k; { std::istringstream ss(line); std::string t; while (ss >> t) k.t.push_back(t); }
    if (k.t.empty()) return false;
    std::string cmd = k.t[0];
    bool mkcustom = (cmd == "make" && k.t.size() > 1 && k.t[1] == "custom");
    if (cmd != "xdump" && cmd != "copyx" && cmd != "selfassign" && cmd != "loadoff" && !mkcustom) return false;
    k.next();
    printf("c %s\n", line.c_str()); fflush(stdout);
    try {
        if (cmd == "xdump") {
            Slot &s = S(k.next()); std::string what = k.next(); TasmanianSparseGrid &g = s.g;
            size_t d = (size_t) g.getNumDimensions(), outs = (size_t) g.getNumOutputs();
            if (what == "parked") {
                if (g.isSequence()) psimple(g.get<GridSequence>()->dynamic_values.get(), d, outs);
                else if (g.isLocalPolynomial()) psimple(g.get<GridLocalPolynomial>()->dynamic_values.get(), d, outs);
                else if (g.isWavelet()) psimple(g.get<GridWavelet>()->dynamic_values.get(), d, outs);
                else if (g.isGlobal()) pglobal(g.get<GridGlobal>()->dynamic_values.get(), d, outs);
                else if (g.isFourier()) pglobal(g.get<GridFourier>()->dynamic_values.get(), d, outs);
                else printf("o cstate 0\n");
            } else if (what == "custom") {
                std::vector<double> lev, tab, desc;
                if (g.isGlobal()) { const CustomTabulated &c = g.get<GridGlobal>()->custom; lev.push_back((double) c.num_levels);
                    for (int v : c.num_nodes) lev.push_back((double) v); for (int v : c.precision) lev.push_back((double) v);
                    for (size_t l = 0; l < c.weights.size(); l++) { tab.insert(tab.end(), c.weights[l].begin(), c.weights[l].end()); if (l < c.nodes.size()) tab.insert(tab.end(), c.nodes[l].begin(), c.nodes[l].end()); }
                    for (unsigned char ch : c.description) desc.push_back((double) ch); }
                pd("custlev", lev); pd("custtab", tab); pd("custdesc", desc);
            } else throw std::runtime_error("driver: unknown xdump " + what);
        } else if (cmd == "loadoff") {
            Slot &s = S(k.next()); std::string fn = k.next(); int off = k.ni(); TasmanianSparseGrid &g = s.g; int d = g.getNumDimensions(), outs = g.getNumOutputs();
            std::vector<double> pts = (g.getNumNeeded() > 0) ? g.getNeededPoints() : g.getLoadedPoints(); size_t n = (d > 0) ? pts.size() / (size_t) d : 0;
            std::vector<double> v(n * (size_t) outs);
            for (size_t p = 0; p < n; p++) for (int j = 0; j < outs; j++) v[p * outs + j] = fn_value(fn, pts.data() + p * d, d, j + off);
            g.loadNeededValues(v);
        } else if (mkcustom) {
            k.next(); Slot &s = S(k.next()); int d = k.ni(), outs = k.ni(), depth = k.ni(); TypeDepth ty = DEPTHS.at(k.next()); std::string file = workdir + "/" + k.next(); auto m = k.keyed();
            s.g.makeGlobalGrid(d, outs, depth, ty, rule_customtabulated, toInts(m["aw:"]), 0.0, 0.0, file.c_str(), toInts(m["ll:"])); s.cand.clear();
        } else if (cmd == "copyx") {
            Slot &dst = S(k.next()); Slot &src = S(k.next()); int b = k.ni(), e = k.ni(); dst.g.copyGrid(src.g, b, e); dst.cand = src.cand;
        } else if (cmd == "selfassign") {
            Slot &s = S(k.next()); TasmanianSparseGrid &ref = s.g; s.g = ref;
        }
    }
    catch (std::invalid_argument &e) { printf("x invalid_argument %s\n", e.what()); }
    catch (std::runtime_error &e) { if (strncmp(e.what(), "driver:", 7) == 0) printf("x driver %s\n", e.what()); else printf("x runtime_error %s\n", e.what()); }
    catch (std::out_of_range &e) { printf("x driver out_of_range %s\n", e.what()); }
    catch (std::exception &e) { printf("x other:%s %s\n", typeid(e).name(), e.what()); }
    fflush(stdout);
    return true;
}

int main(int argc, char **argv) {
    if (argc < 2) { fprintf(stderr, "usage: condrv script [workdir] [case-timeout-seconds]\n"); return 2; }
    if (argc > 2) workdir = argv[2];
    int case_timeout = (argc > 3) ? atoi(argv[3]) : 20;
    std::ifstream in(argv[1]); std::string line;
    std::vector<std::vector<std::string>> cases;
    while (std::getline(in, line)) {
        if (line.compare(0, 5, "case ") == 0 || cases.empty()) cases.emplace_back();
        cases.back().push_back(line);
    }
    for (auto &c : cases) {
        fflush(stdout);
        pid_t pid = fork();
        if (pid == 0) {
            verif_case_limit(case_timeout);
            for (auto &l : c) if (!run_extra(l)) run_guarded(l);
            fflush(stdout);
            _exit(0);
        }
        int status = 0; waitpid(pid, &status, 0);
        if (WIFSIGNALED(status)) {
            if (verif_is_timeout(WTERMSIG(status))) printf("\nx hang no return within %d s\n", case_timeout);
            else printf("\nx crash:%d terminated by signal\n", WTERMSIG(status));
        } else if (WIFEXITED(status) && WEXITSTATUS(status) != 0) printf("\nx crash:exit%d abnormal exit\n", WEXITSTATUS(status));
        fflush(stdout);
    }
    return 0;
}
