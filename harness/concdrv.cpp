// concdrv: N threads execute const calls against ONE `const TasmanianSparseGrid&` (property C12).
// Input: script file (argv[1]), work directory (argv[2]), per-burst timeout in seconds (argv[3]).
//
//   burst <id>                 start of a burst; everything up to the next `burst` line belongs to it
//   s <setup command>          state-building command, executed single-threaded, twice: once for the reference grid and
//                              once for the shared grid (so the shared grid is FRESH when the threads start: lazily built
//                              caches are absent).  Commands (subset of the tsgdrv grammar, slot name omitted):
//       make global|sequence <dims> <outs> <depth> <type> <rule> [aw: i..] [ab: a b] [ll: i..]
//       make localp <dims> <outs> <depth> <order> <rule> [ll: i..]
//       make wavelet <dims> <outs> <depth> <order> [ll: i..]       make fourier <dims> <outs> <depth> <type> [aw: i..] [ll: i..]
//       trans a: a.. b: b.. | conformal t.. | load <fn> | refsurp <tol> <crit> <output> | refsimple <tol> <output>
//       refaniso <type> <mingrowth> <output> | merge | clearref | roundtrip ascii|bin   (write to a file, read it back)
//       copyof                  (replace the grid by a copy-constructed copy of itself)
//   threads <N>
//   op <thread> <kind> [ascii|bin] [x: x..]      one const call of thread <thread>; kinds:
//       eval evalb evalf iw qw dw integ diff hbasis hsparse points loaded needed values coef hsupport hint write polyi
//       meta estaniso
//   end
//
// Every burst runs in its own child process (a crash or a hang is an observation about that burst).  In the child:
//   1. the reference results: every op executed alone, sequentially, on the reference grid;
//   2. the threads are started, wait at a barrier, and execute their op lists on the shared const grid;
//   3. results are compared byte for byte (doubles are printed with %a).
// Output:  burst <id> / p reference-done / r <opindex> same|DIFF <kind> / e <id> exit=<code> (66 = ThreadSanitizer reported) ...
// stderr of the child (the ThreadSanitizer reports) goes to <workdir>/<id>.tsan
#include <algorithm>
#include <atomic>
#include <cmath>
#include <cstdint>
#include <cstdio>
#include <cstdlib>
#include <cstring>
#include <fstream>
#include <iostream>
#include <map>
#include <memory>
#include <sstream>
#include <stdexcept>
#include <string>
#include <thread>
#include <typeinfo>
#include <vector>
#include <unistd.h>
#include <signal.h>
#include <fcntl.h>
#include <sys/wait.h>
#include "TasmanianSparseGrid.hpp"

using namespace TasGrid;

static std::map<std::string, TypeOneDRule> RULES = {
    {"clenshaw-curtis", rule_clenshawcurtis}, {"clenshaw-curtis-zero", rule_clenshawcurtis0}, {"chebyshev", rule_chebyshev},
    {"chebyshev-odd", rule_chebyshevodd}, {"gauss-legendre", rule_gausslegendre}, {"gauss-legendre-odd", rule_gausslegendreodd},
    {"gauss-patterson", rule_gausspatterson}, {"leja", rule_leja}, {"leja-odd", rule_lejaodd}, {"rleja", rule_rleja},
    {"rleja-odd", rule_rlejaodd}, {"rleja-double2", rule_rlejadouble2}, {"rleja-double4", rule_rlejadouble4},
    {"rleja-shifted", rule_rlejashifted}, {"rleja-shifted-even", rule_rlejashiftedeven}, {"rleja-shifted-double", rule_rlejashifteddouble},
    {"max-lebesgue", rule_maxlebesgue}, {"max-lebesgue-odd", rule_maxlebesgueodd}, {"min-lebesgue", rule_minlebesgue},
    {"min-lebesgue-odd", rule_minlebesgueodd}, {"min-delta", rule_mindelta}, {"min-delta-odd", rule_mindeltaodd},
    {"gauss-chebyshev1", rule_gausschebyshev1}, {"gauss-chebyshev1-odd", rule_gausschebyshev1odd},
    {"gauss-chebyshev2", rule_gausschebyshev2}, {"gauss-chebyshev2-odd", rule_gausschebyshev2odd}, {"fejer2", rule_fejer2},
    {"gauss-gegenbauer", rule_gaussgegenbauer}, {"gauss-gegenbauer-odd", rule_gaussgegenbauerodd},
    {"gauss-jacobi", rule_gaussjacobi}, {"gauss-jacobi-odd", rule_gaussjacobiodd}, {"gauss-laguerre", rule_gausslaguerre},
    {"gauss-laguerre-odd", rule_gausslaguerreodd}, {"gauss-hermite", rule_gausshermite}, {"gauss-hermite-odd", rule_gausshermiteodd},
    {"localp", rule_localp}, {"localp-zero", rule_localp0}, {"localp-boundary", rule_localpb}, {"semi-localp", rule_semilocalp}};
static std::map<std::string, TypeDepth> DEPTHS = {
    {"level", type_level}, {"curved", type_curved}, {"iptotal", type_iptotal}, {"ipcurved", type_ipcurved}, {"qptotal", type_qptotal},
    {"qpcurved", type_qpcurved}, {"hyperbolic", type_hyperbolic}, {"iphyperbolic", type_iphyperbolic}, {"qphyperbolic", type_qphyperbolic},
    {"tensor", type_tensor}, {"iptensor", type_iptensor}, {"qptensor", type_qptensor}};
static std::map<std::string, TypeRefinement> REFS = {
    {"classic", refine_classic}, {"parents", refine_parents_first}, {"direction", refine_direction_selective}, {"fds", refine_fds},
    {"stable", refine_stable}};

static uint64_t mix(uint64_t h) { h ^= h >> 33; h *= 0xff51afd7ed558ccdULL; h ^= h >> 33; h *= 0xc4ceb9fe1a85ec53ULL; h ^= h >> 33; return h; }
static double fn_value(const std::string &fn, const double *x, int d, int j) {
    if (fn == "zero") return 0.0;
    if (fn == "hash") { uint64_t h = 0x9e3779b97f4a7c15ULL + (uint64_t) j;
        for (int i = 0; i < d; i++) { double v = x[i] + 0.0; uint64_t b; memcpy(&b, &v, 8); h = mix(h ^ b); }
        return ((double) (int64_t) (h % 4001) - 2000.0) / 64.0; }
    if (fn == "poly") { double v = 1.0 + j; for (int i = 0; i < d; i++) v += (i + 1 + j) * x[i] + 0.5 * x[i] * x[i]; if (d > 1) v += x[0] * x[1]; return v; }
    if (fn == "smooth") { double s = 0, q = 0; for (int i = 0; i < d; i++) { s += x[i]; q += x[i] * x[i]; } return std::exp(-0.5 * q) * std::cos(0.3 * j + 0.7 * s) + 0.1 * j; }
    if (fn == "peak") { double q = 0; for (int i = 0; i < d; i++) q += (x[i] - 0.3) * (x[i] - 0.3); return 1.0 / (0.05 + q) + j; }
    throw std::runtime_error("driver: unknown value function " + fn);
}

struct Tok { std::vector<std::string> t; size_t p = 0;
    explicit Tok(const std::string &line) { std::istringstream ss(line); std::string s; while (ss >> s) t.push_back(s); }
    bool more() const { return p < t.size(); }
    std::string next() { if (p >= t.size()) throw std::runtime_error("driver: missing token"); return t[p++]; }
    int ni() { return atoi(next().c_str()); }
    double nd() { return strtod(next().c_str(), nullptr); }
    static bool isKey(const std::string &s) { return !s.empty() && s.back() == ':'; }
    std::vector<int> ints() { std::vector<int> v; while (more() && !isKey(t[p])) v.push_back(ni()); return v; }
    std::map<std::string, std::vector<std::string>> keyed() { std::map<std::string, std::vector<std::string>> m; std::string k;
        while (more()) { std::string s = next(); if (isKey(s)) { k = s; m[k]; } else if (!k.empty()) m[k].push_back(s); } return m; }
};
static std::vector<int> toInts(const std::vector<std::string> &v) { std::vector<int> r; for (auto &s : v) r.push_back(atoi(s.c_str())); return r; }
static std::vector<double> toDbls(const std::vector<std::string> &v) { std::vector<double> r; for (auto &s : v) r.push_back(strtod(s.c_str(), nullptr)); return r; }

static std::string workdir = ".";

// ---- single-threaded state building -------------------------------------------------------------------------------
static void setup(TasmanianSparseGrid &g, const std::string &line, const std::string &tag) {
    Tok k(line); std::string cmd = k.next();
    if (cmd == "make") { std::string fam = k.next(); int d = k.ni(), outs = k.ni(), depth = k.ni();
        if (fam == "global" || fam == "sequence") { TypeDepth ty = DEPTHS.at(k.next()); TypeOneDRule r = RULES.at(k.next()); auto m = k.keyed();
            std::vector<int> aw = toInts(m["aw:"]), ll = toInts(m["ll:"]); double al = 0, be = 0; if (m.count("ab:")) { auto ab = toDbls(m["ab:"]); al = ab[0]; be = ab[1]; }
            if (fam == "global") g.makeGlobalGrid(d, outs, depth, ty, r, aw, al, be, nullptr, ll); else g.makeSequenceGrid(d, outs, depth, ty, r, aw, ll); }
        else if (fam == "localp") { int order = k.ni(); TypeOneDRule r = RULES.at(k.next()); auto m = k.keyed(); g.makeLocalPolynomialGrid(d, outs, depth, order, r, toInts(m["ll:"])); }
        else if (fam == "wavelet") { int order = k.ni(); auto m = k.keyed(); g.makeWaveletGrid(d, outs, depth, order, toInts(m["ll:"])); }
        else if (fam == "fourier") { TypeDepth ty = DEPTHS.at(k.next()); auto m = k.keyed(); g.makeFourierGrid(d, outs, depth, ty, toInts(m["aw:"]), toInts(m["ll:"])); }
        else throw std::runtime_error("driver: unknown family"); }
    else if (cmd == "trans") { auto m = k.keyed(); g.setDomainTransform(toDbls(m["a:"]), toDbls(m["b:"])); }
    else if (cmd == "conformal") g.setConformalTransformASIN(k.ints());
    else if (cmd == "load") { std::string fn = k.next(); int d = g.getNumDimensions(), outs = g.getNumOutputs();
        std::vector<double> pts = (g.getNumNeeded() > 0) ? g.getNeededPoints() : g.getLoadedPoints();
        size_t n = d ? pts.size() / d : 0; std::vector<double> v(n * (size_t) outs);
        for (size_t p = 0; p < n; p++) for (int j = 0; j < outs; j++) v[p * outs + j] = fn_value(fn, pts.data() + p * d, d, j);
        g.loadNeededValues(v); }
    else if (cmd == "refsurp") { double tol = k.nd(); TypeRefinement cr = REFS.at(k.next()); int out = k.ni(); g.setSurplusRefinement(tol, cr, out); }
    else if (cmd == "refsimple") { double tol = k.nd(); int out = k.ni(); g.setSurplusRefinement(tol, out); }
    else if (cmd == "refaniso") { TypeDepth ty = DEPTHS.at(k.next()); int mg = k.ni(); int out = k.ni(); g.setAnisotropicRefinement(ty, mg, out); }
    else if (cmd == "merge") g.mergeRefinement();
    else if (cmd == "clearref") g.clearRefinement();
    else if (cmd == "roundtrip") { bool bin = (k.next() == "bin"); std::string f = workdir + "/" + tag + ".tsg"; g.write(f.c_str(), bin); TasmanianSparseGrid h; h.read(f.c_str()); g = std::move(h); unlink(f.c_str()); }
    else if (cmd == "copyof") { TasmanianSparseGrid h(g); g = std::move(h); }
    else throw std::runtime_error("driver: unknown setup command " + cmd);
}

// ---- one const call; the result is rendered to a string ---------------------------------------------------------------
static void ad(std::string &s, const double *v, size_t n) { char b[40]; for (size_t i = 0; i < n; i++) { snprintf(b, sizeof b, " %a", v[i]); s += b; } }
static void ad(std::string &s, const std::vector<double> &v) { ad(s, v.data(), v.size()); }
static void ai(std::string &s, const std::vector<int> &v) { char b[24]; for (int i : v) { snprintf(b, sizeof b, " %d", i); s += b; } }

struct Op { int thread; std::string kind; bool bin; std::vector<double> x; std::string text; };

static std::string call(const TasmanianSparseGrid &g, const Op &op) {
    std::string s;
    try {
        int d = g.getNumDimensions(), outs = g.getNumOutputs();
        const std::string &k = op.kind;
        if (k == "eval") { size_t n = d ? op.x.size() / d : 0; for (size_t i = 0; i < n; i++) { std::vector<double> xi(op.x.begin() + i * d, op.x.begin() + (i + 1) * d), y; g.evaluate(xi, y); ad(s, y); } }
        else if (k == "evalb") { std::vector<double> y; g.evaluateBatch(op.x, y); ad(s, y); }
        else if (k == "evalf") { size_t n = d ? op.x.size() / d : 0; for (size_t i = 0; i < n; i++) { std::vector<double> xi(op.x.begin() + i * d, op.x.begin() + (i + 1) * d), y; g.evaluateFast(xi, y); ad(s, y); } }
        else if (k == "iw") { size_t n = d ? op.x.size() / d : 0; for (size_t i = 0; i < n; i++) { std::vector<double> xi(op.x.begin() + i * d, op.x.begin() + (i + 1) * d); ad(s, g.getInterpolationWeights(xi)); } }
        else if (k == "dw") { size_t n = d ? op.x.size() / d : 0; for (size_t i = 0; i < n; i++) { std::vector<double> xi(op.x.begin() + i * d, op.x.begin() + (i + 1) * d); ad(s, g.getDifferentiationWeights(xi)); } }
        else if (k == "qw") ad(s, g.getQuadratureWeights());
        else if (k == "integ") { std::vector<double> q; g.integrate(q); ad(s, q); }
        else if (k == "diff") { size_t n = d ? op.x.size() / d : 0; for (size_t i = 0; i < n; i++) { std::vector<double> xi(op.x.begin() + i * d, op.x.begin() + (i + 1) * d), j; g.differentiate(xi, j); ad(s, j); } }
        else if (k == "hbasis") { std::vector<double> y; g.evaluateHierarchicalFunctions(op.x, y); ad(s, y); }
        else if (k == "hsparse") { std::vector<int> pn, ix; std::vector<double> v; g.evaluateSparseHierarchicalFunctions(op.x, pn, ix, v); ai(s, pn); s += " |"; ai(s, ix); s += " |"; ad(s, v); }
        else if (k == "points") ad(s, g.getPoints());
        else if (k == "loaded") ad(s, g.getLoadedPoints());
        else if (k == "needed") ad(s, g.getNeededPoints());
        else if (k == "values") { const double *v = g.getLoadedValues(); ad(s, v, (v && outs > 0) ? (size_t) outs * g.getNumLoaded() : 0); }
        else if (k == "coef") { const double *c = (g.empty() || outs == 0 || g.getNumLoaded() == 0) ? nullptr : g.getHierarchicalCoefficients();
            ad(s, c, c ? (size_t) outs * g.getNumLoaded() * (g.isFourier() ? 2 : 1) : 0); }
        else if (k == "hsupport") ad(s, g.getHierarchicalSupport());
        else if (k == "hint") ad(s, g.integrateHierarchicalFunctions());
        else if (k == "write") { std::ostringstream os(std::ios::out | std::ios::binary); g.write(os, op.bin); std::string b = os.str(); uint64_t h = 0;
            for (unsigned char c : b) h = mix(h ^ c) + 0x9e3779b97f4a7c15ULL; char t[64]; snprintf(t, sizeof t, " %zu %016llx", b.size(), (unsigned long long) h); s += t; }
        else if (k == "polyi") ai(s, g.getGlobalPolynomialSpace(true));
        else if (k == "estaniso") ai(s, g.estimateAnisotropicCoefficients(type_iptotal, 0));
        else if (k == "meta") { char t[200]; snprintf(t, sizeof t, " %d %d %d %d %d %d %a %a %d %d", d, outs, g.getNumLoaded(), g.getNumNeeded(), g.getNumPoints(), g.getOrder(),
                                                      g.getAlpha(), g.getBeta(), (int) g.isSetDomainTransfrom(), (int) g.getRule()); s += t; ai(s, g.getLevelLimits()); }
        else throw std::runtime_error("driver: unknown op " + k);
    }
    catch (std::invalid_argument &e) { s = std::string(" x invalid_argument ") + e.what(); }
    catch (std::runtime_error &e) { s = std::string(" x runtime_error ") + e.what(); }
    catch (std::exception &e) { s = std::string(" x other:") + typeid(e).name() + " " + e.what(); }
    return s;
}

struct Burst { std::string id; std::vector<std::string> setup; int threads = 2; std::vector<Op> ops; };

static int run_burst(const Burst &b) {
    TasmanianSparseGrid ref, shared;
    try { for (auto &l : b.setup) setup(ref, l, b.id + ".r"); for (auto &l : b.setup) setup(shared, l, b.id + ".s"); }
    catch (std::exception &e) { printf("x setup %s\n", e.what()); return 0; }
    printf("g loaded=%d needed=%d points=%d outs=%d\n", shared.getNumLoaded(), shared.getNumNeeded(), shared.getNumPoints(), shared.getNumOutputs());
    size_t nops = b.ops.size();
    std::vector<std::string> expect(nops), got(nops);
    for (size_t i = 0; i < nops; i++) expect[i] = call(ref, b.ops[i]);   // every call alone, sequentially
    printf("p reference-done\n"); fflush(stdout);                       // a crash before this line is not about concurrency
    const TasmanianSparseGrid &cg = shared;
    int N = b.threads;
    std::atomic<int> arrived(0);
    std::vector<std::thread> th;
    for (int t = 0; t < N; t++)
        th.emplace_back([&, t]() {
            std::vector<size_t> mine; for (size_t i = 0; i < nops; i++) if (b.ops[i].thread % N == t) mine.push_back(i);
            arrived.fetch_add(1, std::memory_order_acq_rel);
            int spins = 0; while (arrived.load(std::memory_order_acquire) < N) { if (++spins > 2000) std::this_thread::yield(); }
            for (size_t i : mine) got[i] = call(cg, b.ops[i]);
        });
    for (auto &t : th) t.join();
    int diff = 0;
    for (size_t i = 0; i < nops; i++) {
        bool same = (expect[i] == got[i]); if (!same) diff++;
        printf("r %zu %s %s%s\n", i, same ? "same" : "DIFF", b.ops[i].kind.c_str(), (expect[i].compare(0, 3, " x ") == 0) ? " exc" : "");
        if (!same) printf("d %zu expected:%.300s\nd %zu got:%.300s\n", i, expect[i].c_str(), i, got[i].c_str());
    }
    printf("s ops=%zu diff=%d\n", nops, diff);
    return 0;
}

int main(int argc, char **argv) {
    if (argc < 2) { fprintf(stderr, "usage: concdrv script [workdir] [burst-timeout-seconds]\n"); return 2; }
    if (argc > 2) workdir = argv[2];
    int tmo = (argc > 3) ? atoi(argv[3]) : 60;
    std::ifstream in(argv[1]); std::string line; std::vector<Burst> bursts;
    while (std::getline(in, line)) {
        Tok k(line); if (k.t.empty() || k.t[0][0] == '#') continue;
        std::string c = k.next();
        if (c == "burst") { bursts.emplace_back(); bursts.back().id = k.next(); continue; }
        if (bursts.empty()) continue;
        Burst &b = bursts.back();
        if (c == "s") b.setup.push_back(line.substr(line.find("s ") + 2));
        else if (c == "threads") b.threads = std::max(1, k.ni());
        else if (c == "op") { Op o; o.thread = k.ni(); o.kind = k.next(); o.bin = true; o.text = line;
            if (o.kind == "write") o.bin = (k.next() == "bin");
            auto m = k.keyed(); o.x = toDbls(m["x:"]); b.ops.push_back(o); }
    }
    for (auto &b : bursts) {
        printf("burst %s\n", b.id.c_str()); fflush(stdout);
        pid_t pid = fork();
        if (pid == 0) {
            std::string ef = workdir + "/" + b.id + ".tsan";
            int fd = open(ef.c_str(), O_WRONLY | O_CREAT | O_TRUNC, 0644); if (fd >= 0) { dup2(fd, 2); close(fd); }
            alarm((unsigned) tmo);
            int rc = run_burst(b);
            fflush(stdout);
            exit(rc);       // NOT _exit: the sanitizer's exit code (reports were made) is applied in its atexit handler
        }
        int status = 0; waitpid(pid, &status, 0);
        if (WIFSIGNALED(status)) printf("e %s %s\n", b.id.c_str(), (WTERMSIG(status) == SIGALRM) ? "hang" : ("crash:" + std::to_string(WTERMSIG(status))).c_str());
        else printf("e %s exit=%d\n", b.id.c_str(), WEXITSTATUS(status));
        fflush(stdout);
    }
    return 0;
}
