// Per-case time limit of the fork-per-case drivers: a CPU-time limit (so that a busy machine does not turn a slow
// case into a reported hang) with a wall-clock backstop of three times the limit for a child that blocks without using
// the CPU (or, in an OpenMP build, keeps one thread busy: its CPU limit is scaled by the thread count).
#ifndef VERIF_CASELIMIT_HPP
#define VERIF_CASELIMIT_HPP
#include <csignal>
#include <sys/resource.h>
#include <unistd.h>
#ifdef _OPENMP
#include <omp.h>
#endif
static inline void verif_case_limit(int seconds) {
    long threads = 1;
#ifdef _OPENMP
    threads = omp_get_max_threads();      // CPU time is summed over the threads of the child
#endif
    struct rlimit rl;
    rl.rlim_cur = (rlim_t) seconds * threads;
    rl.rlim_max = (rlim_t) seconds * threads + 5;
    setrlimit(RLIMIT_CPU, &rl);
    alarm((unsigned) seconds * 3u);
}
static inline bool verif_is_timeout(int sig) { return sig == SIGALRM || sig == SIGXCPU; }
#endif
