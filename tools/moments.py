#!/usr/bin/env python3
"""Exact one-dimensional moments of the weight functions of the global quadrature rules (canonical domains)."""
import math


def dfact(n):
    r = 1.0
    while n > 1:
        r *= n
        n -= 2
    return r


def beta(a, b):
    return math.exp(math.lgamma(a) + math.lgamma(b) - math.lgamma(a + b))


def comb(n, k):
    return math.comb(n, k)


UNIFORM = {"clenshaw-curtis", "clenshaw-curtis-zero", "chebyshev", "chebyshev-odd", "fejer2", "gauss-legendre", "gauss-legendre-odd",
           "gauss-patterson", "leja", "leja-odd", "rleja", "rleja-odd", "rleja-double2", "rleja-double4", "rleja-shifted",
           "rleja-shifted-even", "rleja-shifted-double", "max-lebesgue", "max-lebesgue-odd", "min-lebesgue", "min-lebesgue-odd",
           "min-delta", "min-delta-odd"}


def moment(rule, k, alpha=0.0, beta_=0.0):
    """integral of x^k against the canonical weight of the rule"""
    if rule in UNIFORM:
        return 2.0 / (k + 1) if k % 2 == 0 else 0.0
    if rule.startswith("gauss-chebyshev1"):
        return (math.pi * dfact(k - 1) / dfact(k)) if k % 2 == 0 else 0.0
    if rule.startswith("gauss-chebyshev2"):
        return (math.pi * dfact(k - 1) / dfact(k + 2)) if k % 2 == 0 else 0.0
    if rule.startswith("gauss-gegenbauer"):
        return beta((k + 1) / 2.0, alpha + 1.0) if k % 2 == 0 else 0.0
    if rule.startswith("gauss-jacobi"):
        # x = (1+x) - 1 ; B(a+1, b+j+1) = B(a+1, b+1) * prod_{i<j} (b+1+i)/(a+b+2+i): the alternating sum is formed in exact
        # rational arithmetic (alpha and beta are dyadic rationals), only the common factor is a floating point number
        from fractions import Fraction
        fa, fb = Fraction(alpha), Fraction(beta_)
        s, ratio = Fraction(0), Fraction(1)
        for j in range(k + 1):
            s += comb(k, j) * (-1) ** (k - j) * 2 ** j * ratio
            ratio *= (fb + 1 + j) / (fa + fb + 2 + j)
        return float(s) * 2.0 ** (alpha + beta_ + 1) * beta(alpha + 1.0, beta_ + 1.0)
    if rule.startswith("gauss-laguerre"):
        return math.gamma(k + alpha + 1.0)
    if rule.startswith("gauss-hermite"):
        return math.gamma((k + alpha + 1.0) / 2.0) if k % 2 == 0 else 0.0
    raise ValueError(rule)


def moment_abs_scale(rule, k, alpha=0.0, beta_=0.0):
    """a magnitude for relative comparisons: the moment of |x|^k"""
    if rule.startswith("gauss-jacobi"):
        return 2.0 ** (alpha + beta_ + 1) * beta(alpha + 1.0, beta_ + 1.0)
    kk = k if k % 2 == 0 else k + 1
    return abs(moment(rule, kk, alpha, beta_)) + abs(moment(rule, 0, alpha, beta_))
