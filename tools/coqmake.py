#!/usr/bin/env python3
"""usage: tools/coqmake.py <target.vo> ...   — runs make in coq/ under the shared lock (safe to call concurrently)"""
import sys, os
sys.path.insert(0, os.path.dirname(os.path.abspath(__file__)))
import vlib
ok, log = vlib.coq_make(sys.argv[1:] or [])
print(log[-6000:])
sys.exit(0 if ok else 1)
