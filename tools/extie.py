"""Tie of the exactness tables (OneDimensionalMeta::getNumPoints / getIExact / getQExact) to the combination-technique theorems:
translator/exactness.py regenerates coq/gen/ExactnessGen.v from the current source, Props/Properties_Exactness.v re-proves
monotonicity (the hypothesis m_mono), the bounds n-1 / 2n-1 and the instantiation lemmas, and the generated tables are compared
with the compiled library.  Used by C02 and C03."""
import os
import sys

import vlib

sys.path.insert(0, os.path.join(vlib.ROOT, "props"))


def run(res, pid):
    import exactnessgen
    try:
        d = exactnessgen.regenerate_and_check()
    except Exception as e:
        d = {"ok": False, "stage": "translator", "log": "exception: %r" % (e,), "theorems": []}
    res.coverage["exactness_tables_translation"] = {k: d.get(k) for k in ("ok", "stage", "theorems", "source_hash", "wall_s", "table_entries_compared")
                                                    if k in d}
    res.coverage["exactness_tables_translation"]["what"] = ("getNumPoints/getIExact/getQExact regenerated from tsgCoreOneDimensional.cpp (clang AST), "
                                                            "compared with the compiled library, monotonicity and the n-1 / 2n-1 bounds proved for all levels")
    if d.get("ok"):
        return None
    return {"kind": "correspondence-break", "correspondence": "coq/gen/ExactnessGen.v (translated from tsgCoreOneDimensional.cpp) vs Props/Properties_Exactness.v "
            "and the compiled tables", "stage": d.get("stage"), "differing_input": d.get("differing_input") or d.get("violating_input"),
            "details": {k: v for k, v in d.items() if k not in ("log", "theorems")}, "log": (d.get("log") or "")[-2500:]}


def report(res, brk):
    if brk is not None and not res.violations:
        di = brk.get("differing_input")
        res.violation("exactness-tables", "the exactness tables translated from the current source no longer satisfy the theorems the combination technique needs (%s)%s"
                      % (brk.get("stage"), "; first failing (rule, level): %s" % (di,) if di else ""), brk, no_input=True)
