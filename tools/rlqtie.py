"""Tie of the hand-written RuleLocal model of getNode / getSupport / scaleDiffX to the CURRENT header through the translator
(translator/rulelocalq.py over translator/rulelocal.py): the three double-valued functions are regenerated from the source as exact
rational functions, Props/Properties_RuleLocalQGen.v re-proves that they equal the model for every point >= 0 of every rule (and
transports support > 0, scaleDiffX = 1/support), and generated definition, model and compiled header (harness/rlqdrv.cpp) are
compared numerically on all points <= 700 (exact; rule pwc, where 1/3^k is rounded: support within 1 ulp, node within 2^-50).
For the checks whose theorems rest on nodes / supports / the chain-rule factor (C01, C04, C05)."""
import os
import sys

import vlib

sys.path.insert(0, os.path.join(vlib.ROOT, "props"))


def run(res, pid):
    """regenerate + re-prove + compare; records the outcome in res.coverage and returns None when it holds, else a dict describing the break"""
    import rulelocalqgen
    try:
        d = rulelocalqgen.regenerate_and_check()
    except Exception as e:       # the translator itself failed in an unforeseen way: a broken tie, not a crash of the check
        d = {"ok": False, "stage": "translator", "log": "exception: %r" % (e,), "theorems": [], "differing_input": None}
    res.coverage["rulelocalq_translation"] = {"ok": bool(d.get("ok")), "stage": d.get("stage"), "theorems": d.get("theorems"),
                                              "source_hash": d.get("source_hash"), "wall_s": d.get("wall_s"), "header_values_compared": d.get("compared"),
                                              "header_available": d.get("header_available"),
                                              "what": "getNode / getSupport / scaleDiffX of namespace RuleLocal regenerated from the header (clang AST, doubles as "
                                                      "exact rationals) and proved equal to Model/RuleLocal.v for every point >= 0; generated definition, model and "
                                                      "compiled header compared on all points <= 700 of the five rules (exact; pwc: 1 ulp / 2^-50)"}
    if d.get("ok"):
        return None
    return {"kind": "correspondence-break", "correspondence": "coq/gen/RuleLocalQGen.v (translated from tsgRuleLocalPolynomial.hpp) = Model/RuleLocal.v "
            "(Props/Properties_RuleLocalQGen.v) = compiled header (harness/rlqdrv.cpp)", "stage": d.get("stage"), "differing_input": d.get("differing_input"),
            "differences": d.get("differences"), "log": (d.get("log") or "")[-2500:]}


def report(res, brk):
    """to be called after the direct evaluation: a broken translation tie with no property violation found is still a violation;
    it carries the first point on which generated definition, model and compiled header differ when there is one"""
    if brk is not None and not res.violations:
        di = brk.get("differing_input")
        res.violation("rulelocalq-translation", "getNode / getSupport / scaleDiffX translated from the current header are no longer proved equal to the model "
                      "or differ numerically (%s)%s" % (brk.get("stage"), "; first differing input: %s<%s>(%s): generated %s, model %s, header %s"
                                                          % (di.get("function"), str(di.get("rule")).lower(), di.get("point"), di.get("generated"),
                                                             di.get("model"), di.get("header")) if di else ""),
                      brk, no_input=(di is None))
