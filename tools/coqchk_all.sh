#!/bin/bash
# Re-check every compiled Props file (and everything it depends on) with the independent checker coqchk and record the
# context summary (axioms, type-in-type, unsafe fixpoints, assumed positivity) in coq/COQCHK.txt.  Takes ~1 min per file.
cd "$(dirname "$0")/../coq" || exit 2
out=COQCHK.txt
: > $out.tmp
ls Props/Properties_*.v | sed 's#Props/\(.*\)\.v#\1#' | xargs -P ${COQCHK_JOBS:-4} -I{} sh -c 'timeout 3000 coqchk -o -silent -Q . TV TV.Props.{} > ../_build/coqchk.{}.log 2>&1; echo "{} exit=$?"' | sort > $out.status
for f in $(ls Props/Properties_*.v | sed 's#Props/\(.*\)\.v#\1#'); do
  echo "=== $f ($(grep "^$f " $out.status))" >> $out.tmp
  sed -n '/CONTEXT SUMMARY/,$p' ../_build/coqchk.$f.log >> $out.tmp
done
mv $out.tmp $out; rm -f $out.status
grep -c "Axioms: <none>" $out
