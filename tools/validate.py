#!/usr/bin/env python3
"""Validate MANIFEST.json and every evidence file against the schemas in /root/.vp (uses the tooling venv's jsonschema when the
system python has none)."""
import json
import os
import sys
try:
    import jsonschema
except ImportError:
    os.execvp("python3-vt", ["python3-vt"] + sys.argv)
ROOT = os.path.dirname(os.path.dirname(os.path.abspath(__file__)))
bad = 0
man = json.load(open(os.path.join(ROOT, "MANIFEST.json")))
try:
    jsonschema.validate(man, json.load(open("/root/.vp/MANIFEST.schema.json")))
    print("MANIFEST.json ok (%d properties claimed, %d not applicable)" % (len(man.get("properties", man.get("checks", []))), len(man.get("not_applicable", []))))
except jsonschema.ValidationError as e:
    bad += 1
    print("MANIFEST.json INVALID:", e.message[:300])
es = json.load(open("/root/.vp/EVIDENCE.schema.json"))
for f in sorted(os.listdir(os.path.join(ROOT, "evidence"))):
    if f.endswith(".json"):
        try:
            jsonschema.validate(json.load(open(os.path.join(ROOT, "evidence", f))), es)
            print("evidence/%s ok" % f)
        except jsonschema.ValidationError as e:
            bad += 1
            print("evidence/%s INVALID: %s" % (f, e.message[:300]))
sys.exit(1 if bad else 0)
