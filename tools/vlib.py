#!/usr/bin/env python3
"""Shared infrastructure for the /verif checks.

 * build cache: the TASMANIAN libraries are rebuilt from /repo's CURRENT working tree
   (content hash of the sources is the cache key) with g++ directly, hooks enabled
 * Coq: build the development, compile one Props file and capture Print Assumptions
 * OCaml: build the extracted model runner
 * evidence / VIOLATION / KNOWN-FINDING protocol
"""
import concurrent.futures as cf
import fcntl
import hashlib
import json
import os
import random
import re
import shutil
import subprocess
import sys
import time

ROOT = os.path.dirname(os.path.dirname(os.path.abspath(__file__)))
REPO = os.environ.get("VERIF_REPO", "/repo")
BUILD = os.path.join(ROOT, "_build")
COQDIR = os.path.join(ROOT, "coq")
HARNESS = os.path.join(ROOT, "harness")
# a run against a scratch copy (VERIF_REPO=<worktree>, used to try seeded changes) must not overwrite the evidence and replays of /repo
_SCRATCH = os.path.realpath(REPO) != os.path.realpath("/repo")
EVIDENCE = os.path.join(BUILD, "scratch-evidence") if _SCRATCH else os.path.join(ROOT, "evidence")
REPLAY = os.path.join(BUILD, "scratch-replay") if _SCRATCH else os.path.join(ROOT, "replay")
GUARD = "TASMANIAN_VERIF_HOOKS"
NCPU = os.cpu_count() or 4

SRC_DIRS = ["SparseGrids", "DREAM", "Addons", "Tasgrid", "InterfaceTPL", "Config"]
SRC_EXT = (".cpp", ".hpp", ".h", ".in.hpp", ".table", ".in")

LIB_SOURCES = [
    "SparseGrids/TasmanianSparseGrid.cpp", "SparseGrids/TasmanianSparseGridWrapC.cpp",
    "SparseGrids/tsgAcceleratedDataStructures.cpp", "SparseGrids/tsgCoreOneDimensional.cpp",
    "SparseGrids/tsgDConstructGridGlobal.cpp", "SparseGrids/tsgGridFourier.cpp",
    "SparseGrids/tsgGridGlobal.cpp", "SparseGrids/tsgGridLocalPolynomial.cpp",
    "SparseGrids/tsgGridSequence.cpp", "SparseGrids/tsgGridWavelet.cpp",
    "SparseGrids/tsgHardCodedTabulatedRules.cpp", "SparseGrids/tsgHierarchyManipulator.cpp",
    "SparseGrids/tsgIndexManipulator.cpp", "SparseGrids/tsgIndexSets.cpp",
    "SparseGrids/tsgLinearSolvers.cpp", "SparseGrids/tsgRuleWavelet.cpp",
    "SparseGrids/tsgSequenceOptimizer.cpp", "InterfaceTPL/tsgGpuNull.cpp",
    "DREAM/tsgDreamState.cpp", "DREAM/tsgDreamLikelyGaussian.cpp", "DREAM/tsgDreamSampleWrapC.cpp",
    "DREAM/Optimization/tsgGradientDescent.cpp", "DREAM/Optimization/tsgParticleSwarm.cpp",
    "DREAM/Optimization/TasmanianOptimizationWrapC.cpp",
    "Addons/tsgCConstructSurrogate.cpp", "Addons/tsgCExoticQuadrature.cpp",
    "Addons/tsgCLoadNeededValues.cpp", "Addons/tsgCLoadUnstructuredPoints.cpp",
]

VARIANTS = {
    # name: (compiler, compile flags, link flags)
    "plain": ("g++", ["-O1", "-g", "-DNDEBUG", "-ffp-contract=off"], ["-pthread"]),
    "asan": ("g++", ["-O1", "-g", "-DNDEBUG", "-ffp-contract=off", "-fsanitize=address,undefined",
                     "-fno-sanitize-recover=all", "-fno-omit-frame-pointer"],
             ["-fsanitize=address,undefined", "-pthread"]),
    "tsan": ("g++", ["-O1", "-g", "-DNDEBUG", "-ffp-contract=off", "-fsanitize=thread"],
             ["-fsanitize=thread", "-pthread"]),
    "omp": ("g++", ["-O1", "-g", "-DNDEBUG", "-ffp-contract=off", "-fopenmp"], ["-fopenmp", "-pthread"]),
}


def log(*a):
    print(*a, file=sys.stderr, flush=True)


def run(cmd, timeout=600, cwd=None, env=None, input=None):
    """Run a command; returns (rc, stdout, stderr); rc = -9 on timeout."""
    def _big_stack():       # the extracted OCaml functions are not tail recursive: large index sets need a deep system stack
        try:
            import resource
            soft, hard = resource.getrlimit(resource.RLIMIT_STACK)
            want = hard if hard != resource.RLIM_INFINITY else resource.RLIM_INFINITY
            resource.setrlimit(resource.RLIMIT_STACK, (want, hard))
        except Exception:
            pass
    try:
        p = subprocess.run(cmd, cwd=cwd, env=env, input=input, capture_output=True, text=True,
                           timeout=timeout, errors="replace", preexec_fn=_big_stack)
        return p.returncode, p.stdout, p.stderr
    except subprocess.TimeoutExpired as e:
        so = e.stdout.decode(errors="replace") if isinstance(e.stdout, bytes) else (e.stdout or "")
        se = e.stderr.decode(errors="replace") if isinstance(e.stderr, bytes) else (e.stderr or "")
        return -9, so, se + "\nTIMEOUT"


# ---------------------------------------------------------------------------------------------
# source snapshot
def source_files():
    out = []
    for d in SRC_DIRS:
        for base, _dirs, files in os.walk(os.path.join(REPO, d)):
            for f in files:
                if f.endswith(SRC_EXT) or f == "CMakeLists.txt":
                    out.append(os.path.join(base, f))
    out.append(os.path.join(REPO, "CMakeLists.txt"))
    return sorted(out)


_hash_cache = None


def source_hash():
    global _hash_cache
    if _hash_cache is None:
        h = hashlib.sha256()
        for f in source_files():
            h.update(f.encode())
            with open(f, "rb") as fh:
                h.update(hashlib.sha256(fh.read()).digest())
        _hash_cache = h.hexdigest()[:16]
    return _hash_cache


def repo_file(rel):
    with open(os.path.join(REPO, rel), errors="replace") as fh:
        return fh.read()


# ---------------------------------------------------------------------------------------------
# library build
class Lock:
    def __init__(self, name):
        os.makedirs(BUILD, exist_ok=True)
        self.path = os.path.join(BUILD, name + ".lock")

    def __enter__(self):
        self.fh = open(self.path, "w")
        fcntl.flock(self.fh, fcntl.LOCK_EX)
        return self

    def __exit__(self, *a):
        fcntl.flock(self.fh, fcntl.LOCK_UN)
        self.fh.close()


def gen_config(dst):
    """Instantiate TasmanianConfig.hpp and tasgridLogs.hpp from the working tree's templates."""
    os.makedirs(dst, exist_ok=True)
    t = repo_file("Config/TasmanianConfig.in.hpp")
    cm = repo_file("CMakeLists.txt")
    m = re.search(r"project\(\s*Tasmanian\s+VERSION\s+(\d+)\.(\d+)", cm)
    major, minor = (m.group(1), m.group(2)) if m else ("8", "2")
    sub = {"Tasmanian_VERSION_MAJOR": major, "Tasmanian_VERSION_MINOR": minor,
           "Tasmanian_version_comment": " (verif)", "Tasmanian_license": "BSD 3-Clause with UT-Battelle disclaimer",
           "Tasmanian_git_hash": "verif-working-tree", "Tasmanian_cxx_flags": "verif"}
    t = re.sub(r"#cmakedefine\s+(\w+)", r"/* #undef \1 */", t)
    t = re.sub(r"@(\w+)@", lambda mm: sub.get(mm.group(1), ""), t)
    _write_if_changed(os.path.join(dst, "TasmanianConfig.hpp"), t)
    t = repo_file("Tasgrid/tasgridLogs.in.hpp")
    t = re.sub(r"@(\w+)@", lambda mm: {"CMAKE_CURRENT_BINARY_DIR": dst,
                                      "Tasmanian_final_install_path": dst}.get(mm.group(1), ""), t)
    _write_if_changed(os.path.join(dst, "tasgridLogs.hpp"), t)


def _write_if_changed(path, text):
    try:
        with open(path) as fh:
            if fh.read() == text:
                return False
    except OSError:
        pass
    os.makedirs(os.path.dirname(path), exist_ok=True)
    with open(path, "w") as fh:
        fh.write(text)
    return True


def include_flags(cfgdir):
    return ["-I" + cfgdir] + ["-I" + os.path.join(REPO, d) for d in
                              ["SparseGrids", "InterfaceTPL", "DREAM", "DREAM/Optimization", "Addons", "Tasgrid"]]


def _prune(keep_hash):
    """remove build trees of other source hashes that have not been USED for 4 hours (every build_lib/build_driver call touches the
    tree it uses), and beyond the 16 most recently used; a tree used within the last 45 minutes is never removed (a long check of
    another tree may be running at the same time)"""
    if not os.path.isdir(BUILD):
        return
    ds = [d for d in os.listdir(BUILD) if d.startswith("src-") and d != "src-" + keep_hash]
    ds.sort(key=lambda d: os.path.getmtime(os.path.join(BUILD, d)), reverse=True)
    now = time.time()
    for i, d in enumerate(ds):
        age = now - os.path.getmtime(os.path.join(BUILD, d))
        if age > 45 * 60 and (i >= 16 or age > 4 * 3600):
            shutil.rmtree(os.path.join(BUILD, d), ignore_errors=True)


def _touch_tree(h):
    try:
        os.utime(os.path.join(BUILD, "src-" + h), None)
    except OSError:
        pass


class BuildError(Exception):
    pass


def build_lib(variant="plain"):
    """Build libtsg.a for the current working tree; returns dict(dir, lib, cxx, cflags, ldflags)."""
    h = source_hash()
    d = os.path.join(BUILD, "src-" + h, variant)
    _touch_tree(h)
    cxx, cflags, ldflags = VARIANTS[variant]
    cfg = os.path.join(BUILD, "src-" + h, "config")
    info = {"dir": d, "lib": os.path.join(d, "libtsg.a"), "cxx": cxx, "cfg": cfg,
            "cflags": ["-std=c++11", "-D" + GUARD] + cflags + include_flags(cfg), "ldflags": ldflags,
            "variant": variant, "hash": h}
    with Lock("lib-" + variant):
        if os.path.exists(os.path.join(d, "OK")):
            os.utime(os.path.join(BUILD, "src-" + h))
            return info
        t0 = time.time()
        os.makedirs(d, exist_ok=True)
        gen_config(cfg)
        _prune(h)

        def comp(src):
            obj = os.path.join(d, src.replace("/", "_") + ".o")
            rc, so, se = run([cxx] + info["cflags"] + ["-c", os.path.join(REPO, src), "-o", obj], timeout=900)
            return src, obj, rc, se
        objs = []
        with cf.ThreadPoolExecutor(NCPU) as ex:
            for src, obj, rc, se in ex.map(comp, LIB_SOURCES):
                if rc != 0:
                    raise BuildError("compile of %s failed (%s):\n%s" % (src, variant, se[-3000:]))
                objs.append(obj)
        if os.path.exists(info["lib"]):
            os.remove(info["lib"])
        rc, so, se = run(["ar", "rcs", info["lib"]] + objs)
        if rc != 0:
            raise BuildError("ar failed: " + se)
        open(os.path.join(d, "OK"), "w").write("ok\n")
        log("[build] libtsg.a variant=%s hash=%s in %.1fs" % (variant, h, time.time() - t0))
    return info


def build_driver(name, variant="plain", extra_src=(), extra_flags=()):
    """Compile harness/<name>.cpp against the working-tree library; returns the executable path."""
    info = build_lib(variant)
    src = os.path.join(HARNESS, name + ".cpp")
    hh = hashlib.sha256()
    for s in [src] + [os.path.join(HARNESS, e) for e in extra_src] + \
            [os.path.join(HARNESS, f) for f in sorted(os.listdir(HARNESS)) if f.endswith(".hpp")]:
        with open(s, "rb") as fh:
            hh.update(fh.read())
    hh.update(" ".join(extra_flags).encode())
    exe = os.path.join(info["dir"], "%s-%s" % (name, hh.hexdigest()[:10]))
    with Lock("drv-%s-%s" % (name, variant)):
        if os.path.exists(exe):
            return exe
        t0 = time.time()
        cmd = [info["cxx"]] + info["cflags"] + list(extra_flags) + ["-I" + HARNESS, src] + \
              [os.path.join(HARNESS, e) for e in extra_src] + [info["lib"]] + info["ldflags"] + ["-o", exe + ".tmp"]
        rc, so, se = run(cmd, timeout=900)
        if rc != 0:
            raise BuildError("driver %s (%s) failed to compile:\n%s" % (name, variant, se[-4000:]))
        os.rename(exe + ".tmp", exe)
        log("[build] driver %s variant=%s in %.1fs" % (name, variant, time.time() - t0))
    return exe


def try_build_driver(name, variant="plain", **kw):
    """build a driver that uses internal (white-box) names: returns (exe, None) or (None, error text) - a build failure of such a
    driver is a broken correspondence, the caller goes on with the checks that do not need it"""
    try:
        return build_driver(name, variant, **kw), None
    except BuildError as e:
        return None, str(e)


# ---------------------------------------------------------------------------------------------
# Coq
FORBIDDEN = re.compile(r"\b(Admitted|admit|Axiom|Axioms|Parameter|Parameters|Conjecture|Conjectures)\b"
                       r"|Unset\s+Guard|bypass_check|type-in-type|impredicative-set|Admit\s+Obligations")


def coq_forbidden_tokens():
    """grep the whole development for forbidden constructs (comments stripped)."""
    hits = []
    for base, _d, files in os.walk(COQDIR):
        for f in files:
            if not f.endswith(".v"):
                continue
            p = os.path.join(base, f)
            txt = open(p, errors="replace").read()
            txt = _strip_coq_comments(txt)
            for i, line in enumerate(txt.split("\n"), 1):
                if FORBIDDEN.search(line):
                    hits.append("%s:%d: %s" % (os.path.relpath(p, ROOT), i, line.strip()[:120]))
    for f in ["_CoqProject"]:
        txt = open(os.path.join(COQDIR, f)).read()
        if FORBIDDEN.search(txt):
            hits.append(f + ": forbidden flag")
    return hits


def _strip_coq_comments(txt):
    out, depth, i, n = [], 0, 0, len(txt)
    instr = False
    while i < n:
        c = txt[i]
        if depth == 0 and c == '"':
            instr = not instr
            out.append(c)
            i += 1
            continue
        if not instr and txt.startswith("(*", i):
            depth += 1
            i += 2
            continue
        if not instr and depth > 0 and txt.startswith("*)", i):
            depth -= 1
            i += 2
            continue
        if depth == 0:
            out.append(c)
        elif c == "\n":
            out.append(c)
        i += 1
    return "".join(out)


def coq_make(targets, timeout=1800):
    """make the given .vo targets (full .vo build). Returns (ok, log).
    The Makefile is generated from the entries of _CoqProject whose files exist (so that a file listed
    before it is written does not block everybody else)."""
    with Lock("coq"):
        lines = open(os.path.join(COQDIR, "_CoqProject")).read().split("\n")
        keep = [l for l in lines if not l.strip().endswith(".v") or os.path.exists(os.path.join(COQDIR, l.strip()))]
        changed = _write_if_changed(os.path.join(COQDIR, "_CoqProject.local"), "\n".join(keep) + "\n")
        if changed or not os.path.exists(os.path.join(COQDIR, "Makefile")):
            rc, so, se = run(["coq_makefile", "-f", "_CoqProject.local", "-o", "Makefile"], cwd=COQDIR)
            if rc != 0:
                return False, se
        rc, so, se = run(["make", "-k", "-j%d" % NCPU] + list(targets), cwd=COQDIR, timeout=timeout)
        return rc == 0, so + se


def coq_props(pid, timeout=900):
    """Compile Props/Properties_<pid>.v (after its dependencies) and report obligations.

    returns dict(obligations, discharged, theorems, assumptions{thm: text}, log, ok)"""
    rel = "Props/Properties_%s.v" % pid
    path = os.path.join(COQDIR, rel)
    src = _strip_coq_comments(open(path).read())
    theorems = re.findall(r"^\s*Theorem\s+(\w+)", src, re.M)
    # dependencies first (everything the Props file requires)
    ok, mlog = coq_make([rel + "o"], timeout=timeout)
    # recompile the Props file itself to capture Print Assumptions output
    with Lock("coq"):
        rc, so, se = run(["coqc", "-Q", ".", "TV", rel], cwd=COQDIR, timeout=timeout)
    out = so + se
    assumptions = {}
    if rc == 0:
        # each theorem is followed by  Print Assumptions <name>.
        blocks = re.split(r"(?=^(?:Closed under the global context|Axioms:))", so, flags=re.M)
        names = re.findall(r"Print\s+Assumptions\s+(\w+)", src)
        blocks = [b for b in blocks if b.startswith("Closed under") or b.startswith("Axioms:")]
        for n, b in zip(names, blocks):
            assumptions[n] = " ".join(b.split())
    discharged = len(theorems) if (ok and rc == 0) else 0
    if not (ok and rc == 0):
        # find which theorems still compile: count up to the first error line
        m = re.search(r'File "\./%s", line (\d+)' % re.escape(rel), out)
        if m:
            errline = int(m.group(1))
            discharged = 0
            for mm in re.finditer(r"^\s*Theorem\s+(\w+)", open(path).read(), re.M):
                line = open(path).read()[:mm.start()].count("\n") + 1
                if line < errline:
                    discharged += 1
            discharged = max(0, discharged - 1) if discharged else 0
    return {"ok": ok and rc == 0, "obligations": len(theorems), "discharged": discharged,
            "theorems": theorems, "assumptions": assumptions, "log": (mlog + "\n" + out)[-6000:]}


def ocaml_runner(name, timeout=600):
    """Build ocaml/<name> (extraction is done by coq/Extract/*.v during make). Returns exe path."""
    with Lock("ocaml"):
        rc, so, se = run(["make", "-s", name], cwd=os.path.join(ROOT, "ocaml"), timeout=timeout)
    if rc != 0:
        raise BuildError("ocaml runner %s failed to build:\n%s" % (name, (so + se)[-3000:]))
    return os.path.join(ROOT, "ocaml", "_build", name)


# ---------------------------------------------------------------------------------------------
# findings / violations / evidence
def known_findings():
    """parse known_findings.txt -> list of dict(kind, property, key, text)"""
    out = []
    p = os.path.join(ROOT, "known_findings.txt")
    if not os.path.exists(p):
        return out
    for line in open(p):
        line = line.strip()
        if not line or line.startswith("#"):
            continue
        m = re.match(r"(finding|fixed):\s+property=(\w+)\s+(.*)", line)
        if not m:
            continue
        kind, pid, rest = m.groups()
        km = re.match(r"key=(\S+)\s*(.*)", rest)
        out.append({"kind": kind, "property": pid, "key": km.group(1) if km else None,
                    "text": km.group(2) if km else rest})
    return out


class Result:
    """Collects what one check run found."""

    def __init__(self, pid, tier, seed, level):
        self.pid, self.tier, self.seed, self.level = pid, tier, seed, level
        self.t0 = time.time()
        self.violations = []     # list of dict(key, what, replay)
        self.known_hit = []
        self.coverage = {}
        self.assumptions = []
        self.findings = [f for f in known_findings() if f["property"] == pid and f["kind"] == "finding"]

    def violation(self, key, what, replay_obj, no_input=False):
        """key: canonical identification of the failing site/input class (matched against known findings)."""
        for f in self.findings:
            if f["key"] and f["key"] == key:
                if key not in [k for k, _ in self.known_hit]:
                    self.known_hit.append((key, f["text"] or what))
                return False
        os.makedirs(REPLAY, exist_ok=True)
        n = len(self.violations)
        path = os.path.join(REPLAY, "%s-%s-%d.json" % (self.pid, re.sub(r"[^A-Za-z0-9_.-]", "_", key)[:60], n))
        replay_obj = dict(replay_obj)
        replay_obj.update({"property": self.pid, "key": key, "what": what, "seed": self.seed})
        with open(path, "w") as fh:
            json.dump(replay_obj, fh, indent=1, default=str)
        self.violations.append({"key": key, "what": what, "replay": path, "no_input": no_input})
        return True

    def finish(self):
        os.makedirs(EVIDENCE, exist_ok=True)
        cov = dict(self.coverage)
        cov.setdefault("known_findings_hit", [k for k, _ in self.known_hit])
        ev = {"property_id": self.pid, "tier": self.tier, "seed": self.seed, "level": self.level,
              "coverage": cov, "assumptions": self.assumptions,
              "wall_s": round(time.time() - self.t0, 2), "violations": len(self.violations)}
        with open(os.path.join(EVIDENCE, self.pid + ".json"), "w") as fh:
            json.dump(ev, fh, indent=1, default=str)
        for key, text in self.known_hit:
            print("KNOWN-FINDING: property=%s key=%s %s" % (self.pid, key, text))
        seen = set()
        for v in self.violations:
            if v["key"] in seen:
                continue
            seen.add(v["key"])
            tail = " no-failing-input-found" if v["no_input"] else ""
            print("DETAIL property=%s key=%s %s" % (self.pid, v["key"], v["what"][:300].replace("\n", " ")))
            print("VIOLATION property=%s replay=%s%s" % (self.pid, v["replay"], tail))
        sys.stdout.flush()
        return 1 if self.violations else 0


def proof_coverage(res, pid, props, checker_cmd, trusted):
    """fill the proof-level evidence keys from a coq_props() result"""
    res.coverage.update({
        "obligations": props["obligations"], "discharged": props["discharged"],
        "checker_cmd": checker_cmd, "trusted_base": trusted,
        "theorems": props["theorems"], "print_assumptions": props["assumptions"],
        "forbidden_tokens": coq_forbidden_tokens(),
    })


def rng(seed, *salt):
    return random.Random("%s/%s" % (seed, "/".join(str(s) for s in salt)))


def hexf(x):
    return float.hex(float(x))
