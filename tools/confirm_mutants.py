#!/usr/bin/env python3
"""Confirm seeded changes and run the checks against them.

usage: confirm_mutants.py <outdir> [<outdir> ...]      (directories containing <Id>-<k>/patch.diff demo.cpp meta.json)

For each change, in ONE scratch worktree of /repo (outside /repo and /verif, removed at the end):
  1. the patch applies to HEAD, the tree builds (cmake/Ninja), the repo's test suite passes;
  2. the demonstration exits != 0 with the change and 0 without it;
  3. `VERIF_REPO=<worktree> ./check <Id> quick` is run and its exit status / VIOLATION keys are recorded.
Confirmed changes are stored under /verif/seeded/<Id>-<k>/ (patch.diff, demo.cpp, meta.json with what was run)."""
import json
import os
import re
import shutil
import subprocess
import sys

WT = os.environ.get("CONFIRM_WT", "/tmp/wt-confirm")
BD = WT + "/_b"
VERIF = os.path.dirname(os.path.dirname(os.path.abspath(__file__)))
J = os.environ.get("CONFIRM_JOBS", "8")


def sh(cmd, timeout=3600, env=None, cwd=None):
    p = subprocess.run(cmd, shell=True, capture_output=True, text=True, timeout=timeout, env=env, cwd=cwd)
    return p.returncode, p.stdout + p.stderr


def demo_cmd(src, exe):
    return ("g++ -std=c++11 -I%s/configured -I%s/SparseGrids -I%s/InterfaceTPL -I%s/DREAM -I%s/DREAM/Optimization -I%s/Addons %s "
            "-L%s/SparseGrids -L%s/DREAM -L%s/Addons -ltasmaniandream -ltasmaniansparsegrid -pthread "
            "-Wl,-rpath,%s/SparseGrids:%s/DREAM -o %s" % (BD, WT, WT, WT, WT, WT, src, BD, BD, BD, BD, BD, exe))


def run_demo(d, exe):
    """demo.cpp (linked against the worktree build) or demo.sh <build_dir> <source_dir>; returns (exit status | None, output)"""
    if os.path.exists(os.path.join(d, "demo.sh")):
        return sh("bash %s %s %s" % (os.path.join(d, "demo.sh"), BD, WT), timeout=900)
    rc, o = sh(demo_cmd(os.path.join(d, "demo.cpp"), exe))
    if rc != 0:
        return None, o
    return sh(exe, timeout=600)


def main():
    dirs = []
    for out in sys.argv[1:]:
        for d in sorted(os.listdir(out)):
            if os.path.exists(os.path.join(out, d, "patch.diff")) and os.path.exists(os.path.join(out, d, "meta.json")):
                dirs.append(os.path.join(out, d))
    sh("git -C /repo worktree remove --force %s" % WT)
    shutil.rmtree(WT, ignore_errors=True)
    rc, o = sh("git -C /repo worktree add --detach %s HEAD" % WT)
    assert rc == 0, o
    rc, o = sh("cmake -G Ninja -B %s -S %s -DCMAKE_BUILD_TYPE=RelWithDebInfo -DCMAKE_CXX_FLAGS=-Wno-error > /dev/null && cmake --build %s -j%s" % (BD, WT, BD, J))
    assert rc == 0, o[-2000:]
    results = []
    for d in dirs:
        name = os.path.basename(d)
        pid = name.split("-")[0]
        rec = {"name": name, "property": pid}
        meta = json.load(open(os.path.join(d, "meta.json")))
        sh("git -C %s checkout -- . && git -C %s clean -fdq -e _b" % (WT, WT))
        rc, o = sh("git -C %s apply %s/patch.diff" % (WT, d))
        rec["applies"] = (rc == 0)
        if rc != 0:
            rec["note"] = o[-500:]
            results.append(rec)
            print(json.dumps(rec), flush=True)
            continue
        rc, o = sh("cmake --build %s -j%s" % (BD, J))
        rec["builds"] = (rc == 0)
        if rc == 0:
            rc, o = sh("ctest --test-dir %s -j%s --timeout 900" % (BD, J))
            rec["suite_passes"] = (rc == 0)
            if rc != 0:
                # one retry: the Addons test has a rare pre-existing flake
                rc, o = sh("ctest --test-dir %s -j%s --timeout 900" % (BD, J))
                rec["suite_passes_on_retry"] = (rc == 0)
                rec["suite_passes"] = (rc == 0)
            exe = WT + "-demo"
            rc, o = run_demo(d, exe)
            if rc is not None:
                rec["demo_with_change"] = rc
                rec["demo_output"] = o[-300:]
            else:
                rec["demo_compile_error"] = o[-500:]
            # the check against the changed tree
            env = dict(os.environ, VERIF_REPO=WT, VERIF_SEED=os.environ.get("VERIF_SEED", "1"))
            rc, o = sh("./check %s quick" % pid, env=env, cwd=VERIF, timeout=3600)
            rec["check_exit"] = rc
            rec["check_keys"] = re.findall(r"DETAIL property=\w+ key=(\S+)", o)
            rec["check_violation_lines"] = len(re.findall(r"^VIOLATION", o, re.M))
            # without the change
            sh("git -C %s checkout -- ." % WT)
            rc, o = sh("cmake --build %s -j%s" % (BD, J))
            rc, o = run_demo(d, exe)
            if rc is not None:
                rec["demo_without_change"] = rc
        rec["confirmed"] = bool(rec.get("suite_passes") and rec.get("demo_with_change", 0) != 0 and rec.get("demo_without_change", 1) == 0)
        if rec["confirmed"]:
            dst = os.path.join(VERIF, "seeded", name)
            os.makedirs(dst, exist_ok=True)
            shutil.copy(os.path.join(d, "patch.diff"), dst)
            for f in ("demo.cpp", "demo.sh"):
                if os.path.exists(os.path.join(d, f)):
                    shutil.copy(os.path.join(d, f), dst)
            m2 = {"property": pid, "summary": meta.get("summary"), "needs": meta.get("needs"), "files": meta.get("files"),
                  "confirmed_by_lead": {"suite_passes_with_change": True, "demo_exit_with_change": rec["demo_with_change"],
                                        "demo_exit_without_change": rec["demo_without_change"],
                                        "how": "tools/confirm_mutants.py in a scratch worktree of /repo HEAD %s" % sh("git -C /repo log --format=%h -1")[1].strip()},
                  "check_result": {"cmd": "VERIF_REPO=<worktree with patch> ./check %s quick" % pid, "exit": rec["check_exit"],
                                   "violation_keys": rec["check_keys"], "caught": rec["check_exit"] == 1 and rec["check_violation_lines"] > 0},
                  "author_commands": meta.get("commands")}
            json.dump(m2, open(os.path.join(dst, "meta.json"), "w"), indent=1)
        results.append(rec)
        print(json.dumps(rec), flush=True)
    sh("git -C /repo worktree remove --force %s" % WT)
    shutil.rmtree(WT, ignore_errors=True)
    json.dump(results, open(os.path.join(VERIF, "_build", "confirm_results.json"), "a"), indent=1)


if __name__ == "__main__":
    main()
