#!/bin/bash
# Offline setup: build the Coq development (full .vo), the extracted model runners and the
# harness libraries for the current /repo working tree.  Everything is rebuilt on demand by
# the checks as well; this only warms the caches.
set -e
cd "$(dirname "$0")/.."
mkdir -p _build evidence replay ocaml/gen
python3 tools/coqmake.py 2>&1 | tail -5 || true
( cd ocaml && for t in $(grep -o '^[a-z0-9_]*:' Makefile | tr -d ':' | sort -u); do make -s "$t" || true; done )
python3 - <<'PY' || true
import sys
sys.path.insert(0, "tools")
import vlib
for v in ("plain",):
    vlib.build_lib(v)
PY
echo "setup done"
