#!/usr/bin/env python3
import importlib
import os
import sys
import traceback

sys.path.insert(0, os.path.dirname(os.path.abspath(__file__)))
sys.path.insert(0, os.path.join(os.path.dirname(os.path.dirname(os.path.abspath(__file__))), "props"))
import vlib


def main():
    if len(sys.argv) < 3:
        print("usage: check <Cxx> quick|thorough | check <Cxx> --replay <file>")
        return 2
    pid = sys.argv[1]
    mod = importlib.import_module(pid)
    if sys.argv[2] == "--replay":
        return mod.replay(sys.argv[3])
    tier = os.environ.get("VERIF_TIER") or sys.argv[2]
    if tier not in ("quick", "thorough"):
        tier = "quick"
    seed = int(os.environ.get("VERIF_SEED", "1") or 1)
    res = vlib.Result(pid, tier, seed, mod.LEVEL)
    try:
        mod.run(res, tier, seed)
    except vlib.BuildError as e:
        # the tree does not build with the harness: nothing is shown to hold
        res.violation("build", "build failed: " + str(e)[:1500], {"kind": "build-failure", "detail": str(e)}, no_input=True)
        res.coverage.setdefault("evaluations", 0)
    except Exception:
        tb = traceback.format_exc()
        res.violation("checker-error", "checker raised: " + tb[-1500:], {"kind": "checker-error", "detail": tb}, no_input=True)
    return res.finish()


if __name__ == "__main__":
    sys.exit(main())
