"""Tie of the hand-written RuleLocal model to the CURRENT header through the translator (translator/rulelocal.py):
the integer hierarchy functions are regenerated from the source, and Props/Properties_RuleLocalGen.v re-proves that they
equal the model for every non-negative point (and transports kid_level / kid_parent / parents_level to them).
Used by the checks whose theorems rest on those functions (C01, C07, C08)."""
import os
import sys

import vlib

sys.path.insert(0, os.path.join(vlib.ROOT, "props"))


def run(res, pid):
    """regenerate + re-prove; records the outcome in res.coverage and returns None when it holds, else a dict describing the break"""
    import rulelocalgen
    try:
        d = rulelocalgen.regenerate_and_check()
    except Exception as e:       # the translator itself failed in an unforeseen way: a broken tie, not a crash of the check
        d = {"ok": False, "stage": "translator", "log": "exception: %r" % (e,), "theorems": [], "differing_input": None}
    res.coverage["rulelocal_translation"] = {"ok": bool(d.get("ok")), "stage": d.get("stage"), "theorems": d.get("theorems"),
                                             "source_hash": d.get("source_hash"), "wall_s": d.get("wall_s"),
                                             "what": "integer hierarchy functions of namespace RuleLocal regenerated from the header (clang AST) and proved equal "
                                                     "to Model/RuleLocal.v for every non-negative point"}
    if d.get("ok"):
        return None
    return {"kind": "correspondence-break", "correspondence": "coq/gen/RuleLocalGen.v (translated from tsgRuleLocalPolynomial.hpp) = Model/RuleLocal.v "
            "(Props/Properties_RuleLocalGen.v)", "stage": d.get("stage"), "differing_input": d.get("differing_input"),
            "differences": d.get("differences"), "log": (d.get("log") or "")[-2500:]}


def report(res, brk):
    """to be called after the direct evaluation: a broken translation tie with no property violation found is still a violation"""
    if brk is not None and not res.violations:
        di = brk.get("differing_input")
        res.violation("rulelocal-translation", "the RuleLocal functions translated from the current header are no longer proved equal to the model (%s)%s"
                      % (brk.get("stage"), "; model and header differ at %s" % (di,) if di else ""), brk, no_input=True)
