#!/usr/bin/env python3
"""Re-run the quick check of each stored seeded change (seeded/<Id>-<k>/patch.diff) against a scratch worktree of /repo HEAD with the
change applied, and record the outcome in its meta.json (check_result).  The worktree lives outside /repo and /verif and is removed.

usage: recheck_seeded.py [-w /tmp/wt-recheck] [names ...]      (default: every directory under seeded/)"""
import json
import os
import re
import shutil
import subprocess
import sys

VERIF = os.path.dirname(os.path.dirname(os.path.abspath(__file__)))


def sh(cmd, timeout=3600, env=None, cwd=None):
    p = subprocess.run(cmd, shell=True, capture_output=True, text=True, timeout=timeout, env=env, cwd=cwd)
    return p.returncode, p.stdout + p.stderr


def main():
    args = sys.argv[1:]
    wt = "/tmp/wt-recheck"
    if args[:1] == ["-w"]:
        wt = args[1]
        args = args[2:]
    names = args or sorted(os.listdir(os.path.join(VERIF, "seeded")))
    sh("git -C /repo worktree remove --force %s" % wt)
    shutil.rmtree(wt, ignore_errors=True)
    rc, o = sh("git -C /repo worktree add --detach %s HEAD" % wt)
    assert rc == 0, o
    head = sh("git -C /repo log --format=%h -1")[1].strip()
    try:
        for name in names:
            d = os.path.join(VERIF, "seeded", name)
            if not os.path.exists(os.path.join(d, "patch.diff")):
                continue
            pid = name.split("-")[0]
            sh("git -C %s checkout -- . && git -C %s clean -fdq" % (wt, wt))
            rc, o = sh("git -C %s apply %s/patch.diff" % (wt, d))
            meta = json.load(open(os.path.join(d, "meta.json")))
            if rc != 0:
                meta["check_result"] = {"applies_to": head, "applies": False, "note": o[-300:]}
            else:
                env = dict(os.environ, VERIF_REPO=wt, VERIF_SEED=os.environ.get("VERIF_SEED", "1"))
                rc, o = sh("./check %s quick" % pid, env=env, cwd=VERIF, timeout=5400)
                keys = re.findall(r"DETAIL property=\w+ key=(\S+)", o)
                nv = len(re.findall(r"^VIOLATION", o, re.M))
                meta["check_result"] = {"cmd": "VERIF_REPO=<worktree of /repo %s with patch> ./check %s quick" % (head, pid), "exit": rc,
                                        "violation_keys": sorted(set(keys)), "caught": rc == 1 and nv > 0}
            json.dump(meta, open(os.path.join(d, "meta.json"), "w"), indent=1)
            print(name, json.dumps(meta["check_result"])[:300], flush=True)
    finally:
        sh("git -C /repo worktree remove --force %s" % wt)
        shutil.rmtree(wt, ignore_errors=True)


if __name__ == "__main__":
    main()
