#!/usr/bin/env python3
"""MANIFEST.json is generated from props/<id>.manifest.json fragments (one per claimed property)
and props/not_applicable.json, so that the file stays valid while properties are added."""
import glob
import json
import os

ROOT = os.path.dirname(os.path.dirname(os.path.abspath(__file__)))
checks = []
enabled = set(open(os.path.join(ROOT, "props", "enabled.txt")).read().split())
for f in sorted(glob.glob(os.path.join(ROOT, "props", "C*.manifest.json"))):
    c = json.load(open(f))
    if c["property_id"] not in enabled:
        continue
    pid = c["property_id"]
    c.setdefault("quick_cmd", "./check %s quick" % pid)
    c.setdefault("thorough_cmd", "./check %s thorough" % pid)
    c.setdefault("evidence_file", "/verif/evidence/%s.json" % pid)
    c.setdefault("replay_cmd_template", "./check %s --replay {path}" % pid)
    c.setdefault("engine", "coq-model+correspondence")
    checks.append(c)
claimed = {c["property_id"] for c in checks}
na = [x for x in json.load(open(os.path.join(ROOT, "props", "not_applicable.json"))) if x["property_id"] not in claimed]
hooks = json.load(open(os.path.join(ROOT, "props", "hooks.json")))
m = {
    "version": 1,
    "setup_cmd": "bash tools/setup.sh",
    "hooks": hooks,
    "engines": [{"name": "coq-model+correspondence", "path": "/verif/check",
                 "serves_properties": sorted(claimed),
                 "kind_free_text": "Coq 8.16 theorems about executable Gallina models (coq/), extracted to OCaml (ocaml/) and compared with "
                                   "C++ drivers (harness/) compiled against /repo's working tree; orchestrated by tools/check.py"}],
    "checks": checks,
    "not_applicable": na,
    "notes": "See DESIGN.md. Every check rebuilds the library from /repo's current working tree (content-hash cache under /verif/_build).",
}
json.dump(m, open(os.path.join(ROOT, "MANIFEST.json"), "w"), indent=1)
print("MANIFEST.json: %d checks, %d not_applicable" % (len(checks), len(na)))
