#!/usr/bin/env python3
"""Script generation for harness/tsgdrv.cpp (the common history grammar, DESIGN 2.4) and parsing of its output."""
import math
import struct

import vlib

GLOBAL_NESTED = ["clenshaw-curtis", "clenshaw-curtis-zero", "fejer2", "leja", "rleja", "rleja-double2", "rleja-double4",
                 "rleja-shifted", "max-lebesgue", "min-lebesgue", "min-delta", "gauss-patterson", "leja-odd", "rleja-odd"]
GLOBAL_NONNESTED = ["chebyshev", "gauss-legendre", "gauss-chebyshev1", "gauss-chebyshev2", "gauss-gegenbauer", "gauss-jacobi",
                    "gauss-laguerre", "gauss-hermite", "gauss-legendre-odd", "chebyshev-odd", "gauss-hermite-odd"]
SEQUENCE_RULES = ["leja", "rleja", "rleja-shifted", "max-lebesgue", "min-lebesgue", "min-delta"]
LOCAL_RULES = ["localp", "semi-localp", "localp-zero", "localp-boundary"]
DEPTH_TYPES = ["level", "curved", "iptotal", "ipcurved", "qptotal", "qpcurved", "hyperbolic", "iphyperbolic", "qphyperbolic",
               "tensor", "iptensor", "qptensor"]
REFINE = ["classic", "parents", "direction", "fds", "stable"]
FAMILIES = ["global", "sequence", "localp", "wavelet", "fourier"]
VALUE_FNS = ["hash", "poly", "smooth", "affine"]


# ---------------------------------------------------------------------------------- value functions (mirror tsgdrv.cpp)
M64 = (1 << 64) - 1


def mix(h):
    h ^= h >> 33
    h = (h * 0xff51afd7ed558ccd) & M64
    h ^= h >> 33
    h = (h * 0xc4ceb9fe1a85ec53) & M64
    h ^= h >> 33
    return h


def fn_value(fn, x, j):
    d = len(x)
    if fn == "zero":
        return 0.0
    if fn == "one":
        return 1.0 + j
    if fn == "hash":
        h = (0x9e3779b97f4a7c15 + j) & M64
        for v in x:
            b = struct.unpack("<Q", struct.pack("<d", v + 0.0))[0]
            h = mix(h ^ b)
        return (float((h % 4001)) - 2000.0) / 64.0
    if fn == "affine":
        v = 0.5 + j
        for i in range(d):
            v += (0.25 * (i + 1) - 0.125 * j) * x[i]
        return v
    if fn == "poly":
        v = 1.0 + j
        for i in range(d):
            v += (i + 1 + j) * x[i] + 0.5 * x[i] * x[i]
        if d > 1:
            v += x[0] * x[1]
        return v
    if fn == "smooth":
        s = sum(x)
        q = sum(t * t for t in x)
        return math.exp(-0.5 * q) * math.cos(0.3 * j + 0.7 * s) + 0.1 * j
    raise ValueError(fn)


# ---------------------------------------------------------------------------------- random grid specifications
def rand_limits(r, d, prob=0.3, lo=0, hi=3):
    if r.random() >= prob:
        return []
    return [r.choice([-1, -1, lo, 1, 2, hi]) for _ in range(d)]


def rand_spec(r, family=None, max_dims=3, outs=None, small=True, limits_prob=0.25):
    fam = family or r.choice(FAMILIES)
    d = r.randint(1, max_dims)
    o = outs if outs is not None else r.choice([1, 1, 2, 3])
    spec = {"family": fam, "dims": d, "outs": o, "ll": rand_limits(r, d, limits_prob)}
    if fam == "global":
        spec["rule"] = r.choice(GLOBAL_NESTED if r.random() < 0.75 else GLOBAL_NONNESTED)
        spec["type"] = r.choice(DEPTH_TYPES)
        slow = spec["rule"] in ("rleja-double2", "rleja-double4", "gauss-patterson", "clenshaw-curtis", "clenshaw-curtis-zero", "fejer2",
                                "chebyshev", "gauss-legendre", "gauss-chebyshev1", "gauss-chebyshev2", "gauss-gegenbauer", "gauss-jacobi",
                                "gauss-laguerre", "gauss-hermite")
        spec["depth"] = r.randint(1, 3 if (slow and d >= 2) else 4) if "tensor" not in spec["type"] else r.randint(1, 2)
        if spec["type"] in ("iptotal", "ipcurved", "qptotal", "qpcurved", "iphyperbolic", "qphyperbolic", "iptensor", "qptensor"):
            spec["depth"] = r.randint(1, 6) if d <= 2 else r.randint(1, 4)
        spec["aw"] = rand_aw(r, d, spec["type"]) if r.random() < 0.3 else []
        if spec["rule"] in ("gauss-gegenbauer", "gauss-laguerre", "gauss-hermite"):
            spec["ab"] = [r.choice([0.0, 0.5, 1.0, 2.0, 1.0 / 3.0, 0.47140452079103168]), 0.0]      # also values that need all 17 digits
        if spec["rule"] == "gauss-jacobi":
            spec["ab"] = [r.choice([0.0, 0.5, 1.0, 1.0 / 3.0]), r.choice([0.0, 0.5, 2.0, 0.47140452079103168])]
    elif fam == "sequence":
        spec["rule"] = r.choice(SEQUENCE_RULES)
        spec["type"] = r.choice(DEPTH_TYPES)
        spec["depth"] = r.randint(1, 5) if d <= 2 else r.randint(1, 4)
        if "tensor" in spec["type"]:
            spec["depth"] = r.randint(1, 3)
        spec["aw"] = rand_aw(r, d, spec["type"]) if r.random() < 0.3 else []
    elif fam == "localp":
        spec["rule"] = r.choice(LOCAL_RULES)
        spec["order"] = r.choice([1, 1, 2, 2, 3, -1, 4, 0]) if spec["rule"] != "semi-localp" else r.choice([2, 2, 3, -1, 4])
        if spec["order"] == 0:
            spec["rule"] = "localp"
        spec["depth"] = r.randint(1, 4) if d <= 2 else r.randint(1, 3)
        if d == 1:
            spec["depth"] = r.randint(1, 6)
    elif fam == "wavelet":
        spec["order"] = r.choice([1, 1, 3])
        spec["depth"] = r.randint(0, 2) if d <= 2 else r.randint(0, 1)
        if d == 1:
            spec["depth"] = r.randint(0, 4)
    else:
        spec["type"] = r.choice(DEPTH_TYPES)
        spec["depth"] = r.randint(1, 3) if d <= 2 else r.randint(1, 2)
        if spec["type"] in ("iptotal", "ipcurved", "qptotal", "qpcurved"):
            spec["depth"] = r.randint(1, 6) if d <= 2 else r.randint(1, 4)
        if "tensor" in spec["type"]:
            spec["depth"] = r.randint(1, 2)
        spec["aw"] = rand_aw(r, d, spec["type"]) if r.random() < 0.3 else []
    return spec


def rand_aw(r, d, ty):
    if "tensor" in ty:
        return [r.randint(1, 2) for _ in range(d)] if d <= 2 else []   # full tensors grow like prod(depth * weight): keep them small
    if "curved" in ty:
        return [r.randint(1, 3) for _ in range(d)] + [r.randint(0, 2) for _ in range(d)]
    return [r.randint(1, 3) for _ in range(d)]


def kv(name, lst):
    return (" %s %s" % (name, " ".join(str(v) for v in lst))) if lst else ""


def make_cmd(spec, slot="g", with_limits=True):
    fam = spec["family"]
    ll = kv("ll:", spec.get("ll", [])) if with_limits else ""
    if fam == "global":
        ab = kv("ab:", [vlib.hexf(v) for v in spec["ab"]]) if "ab" in spec else ""
        return "make global %s %d %d %d %s %s%s%s%s" % (slot, spec["dims"], spec["outs"], spec["depth"], spec["type"], spec["rule"],
                                                      kv("aw:", spec.get("aw", [])), ab, ll)
    if fam == "sequence":
        return "make sequence %s %d %d %d %s %s%s%s" % (slot, spec["dims"], spec["outs"], spec["depth"], spec["type"], spec["rule"],
                                                    kv("aw:", spec.get("aw", [])), ll)
    if fam == "localp":
        return "make localp %s %d %d %d %d %s%s" % (slot, spec["dims"], spec["outs"], spec["depth"], spec["order"], spec["rule"], ll)
    if fam == "wavelet":
        return "make wavelet %s %d %d %d %d%s" % (slot, spec["dims"], spec["outs"], spec["depth"], spec["order"], ll)
    return "make fourier %s %d %d %d %s%s%s" % (slot, spec["dims"], spec["outs"], spec["depth"], spec["type"], kv("aw:", spec.get("aw", [])), ll)


def canonical_domain(spec):
    """(lo, hi) of the canonical domain per dimension for random evaluation points"""
    if spec["family"] == "fourier":
        return (0.0, 1.0)
    if spec["family"] == "global" and spec["rule"].startswith("gauss-laguerre"):
        return (0.0, 4.0)
    if spec["family"] == "global" and spec["rule"].startswith("gauss-hermite"):
        return (-2.0, 2.0)
    return (-1.0, 1.0)


def refine_cmds(r, spec, slot="g"):
    """one random refinement command valid for the family (values must be loaded, outs > 0)"""
    fam, d, o = spec["family"], spec["dims"], spec["outs"]
    ll = kv("ll:", rand_limits(r, d, 0.25))
    out = r.choice([-1] + list(range(o)))
    if fam in ("localp", "wavelet"):
        crit = r.choice(REFINE)
        tol = r.choice([0.0, 1e-4, 1e-2, 1e-1, 1.0, 10.0])
        return "refsurp %s %s %s %d%s" % (slot, vlib.hexf(tol), crit, out, ll)
    if fam == "global":
        if r.random() < 0.5 and spec["rule"] in GLOBAL_NESTED and spec["rule"] not in ("clenshaw-curtis", "clenshaw-curtis-zero", "fejer2", "gauss-patterson", "rleja-double2", "rleja-double4") and "ll" not in spec:
            pass
        ty = r.choice(["iptotal", "ipcurved", "qptotal", "iphyperbolic"])
        return "refaniso %s %s %d %d%s" % (slot, ty, r.randint(1, 6), max(out, 0) if o > 0 else 0, ll)
    if fam == "sequence":
        if r.random() < 0.5:
            return "refsimple %s %s %d%s" % (slot, vlib.hexf(r.choice([1e-4, 1e-2, 1e-1, 1.0])), out, ll)
        return "refaniso %s %s %d %d%s" % (slot, r.choice(["iptotal", "ipcurved", "qptotal", "iphyperbolic"]), r.randint(1, 6), out, ll)
    return "refaniso %s %s %d %d%s" % (slot, r.choice(["iptotal", "ipcurved", "iphyperbolic"]), r.randint(1, 6), out, ll)


def update_cmd(r, spec, slot="g"):
    fam, d = spec["family"], spec["dims"]
    if fam not in ("global", "sequence", "fourier"):
        return None
    ty = r.choice(DEPTH_TYPES[:9])
    depth = r.randint(1, 4 if d <= 2 else 3)
    if ty in ("iptotal", "ipcurved", "qptotal", "qpcurved", "iphyperbolic", "qphyperbolic"):
        depth = r.randint(1, 7 if d <= 2 else 4)
    if fam == "global" and spec["rule"] in GLOBAL_NONNESTED:
        return None
    return "update %s %d %s%s%s" % (slot, depth, ty, kv("aw:", rand_aw(r, d, ty) if r.random() < 0.3 else []), kv("ll:", rand_limits(r, d, 0.2)))


def rand_points(r, spec, n, trans=None):
    lo, hi = canonical_domain(spec)
    pts = []
    for _ in range(n):
        for i in range(spec["dims"]):
            a, b = (lo, hi)
            if trans:
                a, b = trans[0][i], trans[1][i]
                if spec["family"] == "global" and spec["rule"].startswith("gauss-laguerre"):
                    a, b = trans[0][i], trans[0][i] + 4.0 / trans[1][i]
                if spec["family"] == "global" and spec["rule"].startswith("gauss-hermite"):
                    a, b = trans[0][i] - 2.0 / math.sqrt(trans[1][i]), trans[0][i] + 2.0 / math.sqrt(trans[1][i])
            t = r.choice([r.random(), r.random(), r.choice([0.0, 0.25, 0.5, 0.75, 1.0, 0.125, 0.375])])
            pts.append(a + (b - a) * t)
    return pts


def rand_transform(r, spec):
    d = spec["dims"]
    if spec["family"] == "global" and spec["rule"].startswith(("gauss-laguerre", "gauss-hermite")):
        return ([r.choice([0.0, 1.0, -2.0, 0.5]) for _ in range(d)], [r.choice([1.0, 2.0, 0.5, 4.0]) for _ in range(d)])
    a = [r.choice([-1.0, 0.0, -3.0, 2.0, 0.5]) for _ in range(d)]
    return (a, [a[i] + r.choice([1.0, 2.0, 0.5, 4.0, 3.0]) for i in range(d)])


def trans_cmd(t, slot="g"):
    return "trans %s a: %s b: %s" % (slot, " ".join(vlib.hexf(v) for v in t[0]), " ".join(vlib.hexf(v) for v in t[1]))


# ---------------------------------------------------------------------------------- output parsing
def fl(v):
    if v in ("inf", "-inf", "nan", "-nan"):
        return float(v)
    return float.fromhex(v)


class Step:
    __slots__ = ("cmd", "obs", "exc")

    def __init__(self, cmd):
        self.cmd = cmd
        self.obs = {}     # tag -> list (last occurrence)
        self.exc = None   # (type, text)

    def meta(self):
        m = self.obs.get("meta")
        return m


def parse_output(text):
    """-> dict case id -> list of Step"""
    cases, cur, step = {}, None, None
    for line in text.split("\n"):
        if not line:
            continue
        c = line[0]
        if line.startswith("case "):
            cur = []
            cases[line[5:].strip()] = cur
            step = None
        elif c == "c" and line[1] == " " and cur is not None:
            step = Step(line[2:])
            cur.append(step)
        elif c == "o" and step is not None:
            t = line.split()
            if len(t) < 2:
                continue
            tag = t[1]
            try:
                parse_obs(step, tag, t)
            except (ValueError, IndexError):
                step.obs["truncated"] = tag      # the child was killed while printing this line (the x line that follows says why)
        elif c == "x" and step is not None:
            t = line.split(None, 2)
            step.exc = (t[1], t[2] if len(t) > 2 else "")
    return cases


def parse_obs(step, tag, t):
    if True:
        if True:
            if tag == "meta":
                step.obs["meta"] = dict(x.split("=", 1) for x in t[2:])
            elif tag in ("limits", "conformal", "pidx", "nidx", "apipidx", "apinidx", "polyi", "polyq", "hsp_pntr", "hsp_indx", "hsnz", "inside", "estaniso", "tensors", "utensors", "numpoints"):
                step.obs[tag] = [int(v) for v in t[3:]]
            elif tag in ("bytes", "written"):
                step.obs[tag] = (int(t[2]), t[3])
            else:
                step.obs[tag] = [fl(v) for v in t[3:]]


def run_scripts(drv, lines, workdir, name="script", timeout=900, env=None, case_timeout=10):
    """write the script, run the driver, return (rc, parsed cases, raw stdout, stderr)"""
    import os
    os.makedirs(workdir, exist_ok=True)
    sp = os.path.join(workdir, name + ".txt")
    with open(sp, "w") as fh:
        fh.write("\n".join(lines) + "\n")
    rc, so, se = vlib.run([drv, sp, workdir, str(case_timeout)], timeout=timeout, env=env)
    with open(os.path.join(workdir, name + ".out"), "w") as fh:
        fh.write(so)
    return rc, parse_output(so), so, se


def chunks(lst, n):
    return [lst[i:i + n] for i in range(0, len(lst), n)] if n > 0 else []


def case_script(all_lines, cid):
    """extract the lines of one case (for replay files)"""
    out, on = [], False
    for l in all_lines:
        if l.startswith("case "):
            on = (l[5:].strip() == cid)
        if on:
            out.append(l)
    return out


# ---------------------------------------------------------------------------------- slow or not returning?
_HANG_BUDGET = {"left": 3}


def still_hangs(drv, script, cmd, workdir, long_timeout=600):
    """A per-case time limit cannot tell a slow call from one that does not return.  Before a check reports `no return`, the case is run
    again alone, up to and including the call `cmd`, under a limit `long_timeout` (CPU seconds) - 20 to 60 times the ordinary one.
    Returns True when the same call still does not return (reported as a violation), False when it completed (slow: skipped and counted by
    the caller), None when the budget of such re-runs of this process (3) is used up (treated as slow by the callers: never a violation
    without the confirmation)."""
    if _HANG_BUDGET["left"] <= 0:
        return None
    _HANG_BUDGET["left"] -= 1
    lines = []
    for l in script:
        lines.append(l)
        if l == cmd:
            break
    rc, cases, so, se = run_scripts(drv, lines, workdir, "hangconfirm", timeout=long_timeout * 12, case_timeout=long_timeout)
    for steps in cases.values():
        for st in steps:
            if st.cmd == cmd and st.exc is not None and st.exc[0] == "hang":
                return True
    return False
